"""Bounded stand-in for C19: distributed computation returns the serial result.

`pyunicorn.utils.mpi` is replaced *in process* by a scheduler-controlled stand-in:

* transport "standin": `available/size/rank/am_master/am_slave/n_slaves/submit_call/get_result/
  get_next_result` of the module are patched; the stand-in keeps the protocol's book-keeping
  (unique outstanding ids, one queue per worker, FIFO collection per worker, collect once).
* transport "comm": only `available/size/...` and a fake communicator `comm` (+ re-sized
  book-keeping arrays) are patched, so the library's *own* master-side `submit_call/get_result`
  run on top of the scheduler.

In both cases a submitted call is pickled at submission (as MPI would), put into the in-box of the
chosen worker, and executed when the *scheduler policy* says so, by resolving the dotted name
inside `sys.modules[module]` (attribute chain, no eval).  The harness chooses the number of MPI
nodes, the assignment of calls to workers and the order in which results become available.

Contract clauses (stable `check` names):

  newman_betweenness/distributed-equals-serial
  nsi_newman_betweenness/distributed-equals-serial
  nsi_arenas_betweenness/distributed-equals-serial
  nsi_betweenness/pool-equals-serial                (fake in-process pool, any worker count)
  nsi_betweenness/spawn-pool-equals-serial          (real multiprocessing pool)
  <measure>/serial-verbosity-independent
  <measure>/all-submitted-collected
  <measure>/no-exception
  _mpi_newman_betweenness/partition-concat          (+ /definition)
  _mpi_nsi_newman_betweenness/partition-concat      (+ /definition)
  _mpi_nsi_arenas_betweenness/partition-sum         (+ /definition)
  _nsi_betweenness/target-batches-additive
"""
import contextlib
import io
import itertools
import json
import pickle
import sys
import traceback
from collections import deque

import numpy as np

from bounded.common import parse_args, Report, close
from specs import distributed as D

PROP = "C19"
RTOL = 1e-9


def agree(a, b, floor=0.0):
    """1e-9 relative to the largest serial value (partial sums are re-associated); `floor` is the
    magnitude of a single summand, so that results which are pure rounding noise around an exact
    zero (all summands cancel) are not compared relative to that noise."""
    a = np.asarray(a, dtype=float)
    b = np.asarray(b, dtype=float)
    if a.shape != b.shape:
        return False
    fin = np.isfinite(b)
    scale = max(float(np.abs(b[fin]).max()) if fin.any() else 1.0, floor)
    return close(a, b, rtol=RTOL, atol=RTOL * max(scale, 1e-300))


# =============================================================================== scheduler

class ProtocolError(Exception):
    pass


def resolve(module, dotted):
    obj = sys.modules[module]
    for part in dotted.split("."):
        obj = getattr(obj, part)
    return obj


class Scheduler:
    """Workers 1..size-1, each with a FIFO in-box of pickled calls and an out-box of pickled
    results.  `policy` decides which worker makes progress when the master waits."""

    def __init__(self, size, policy, seed=0, priority=None):
        self.size = size
        self.policy = policy
        self.rs = np.random.RandomState(seed)
        self.priority = priority          # list: seq -> rank (explicit policy)
        self.inbox = {s: deque() for s in range(1, size)}
        self.outbox = {s: deque() for s in range(1, size)}
        self.seq = 0
        self.n_run = {s: 0 for s in range(1, size)}
        self.log = []

    # --- the two primitives an MPI communicator offers the master
    def send(self, obj, dest):
        dest = int(dest)
        if dest < 1 or dest >= self.size:
            raise ProtocolError("send to node %r of %d" % (dest, self.size))
        self.inbox[dest].append((self.seq, pickle.dumps(obj, protocol=pickle.HIGHEST_PROTOCOL)))
        self.log.append(("submit", self.seq, dest, obj[0], _chunk_of(obj)))
        self.seq += 1
        if self.policy == "eager":
            self._step(dest)

    def recv(self, source):
        source = int(source)
        while not self.outbox[source]:
            busy = [s for s in self.inbox if self.inbox[s]]
            if not self.inbox[source]:
                raise ProtocolError("deadlock: waiting for worker %d which has no pending call"
                                    % source)
            self._step(self._choose(busy, source))
        return pickle.loads(self.outbox[source].popleft())

    # --- scheduling
    def _choose(self, busy, source):
        p = self.policy
        if p in ("lazy", "eager"):
            return source
        if p == "others-first":
            oth = [s for s in busy if s != source]
            return max(oth, key=lambda s: self.inbox[s][0][0]) if oth else source
        if p == "reverse":
            return max(busy, key=lambda s: self.inbox[s][0][0])
        if p == "random":
            return busy[self.rs.randint(0, len(busy))]
        if p == "explicit":
            def rank(s):
                q = self.inbox[s][0][0]
                return self.priority[q % len(self.priority)]
            return min(busy, key=rank)
        raise ValueError(p)

    def _step(self, s):
        seq, blob = self.inbox[s].popleft()
        name, args, kwargs, module, time_est = pickle.loads(blob)
        fn = resolve(module, name)
        result = fn(*args, **kwargs)
        self.n_run[s] += 1
        self.log.append(("done", seq, s))
        stats = {"id": None, "rank": s, "this_time": 0.0, "time_over_est": 0.0,
                 "n_processed": self.n_run[s], "total_time": 0.0}
        self.outbox[s].append(pickle.dumps((result, stats), protocol=pickle.HIGHEST_PROTOCOL))

    def pending(self):
        return sum(len(q) for q in self.inbox.values()) + sum(len(q) for q in self.outbox.values())


def _chunk_of(job):
    """(start_i, end_i) of a submitted chunk call, for the log."""
    name, args = job[0], job[1]
    try:
        if name.endswith("_mpi_newman_betweenness"):
            return [int(args[3]), int(args[4])]
        if name.endswith("_mpi_nsi_newman_betweenness"):
            return [int(args[5]), int(args[6])]
        if name.endswith("_mpi_nsi_arenas_betweenness"):
            return [int(args[5]), int(args[6])]
    except Exception:       # noqa
        pass
    return None


class StandIn:
    """Protocol book-keeping of the master side (transport 'standin')."""

    def __init__(self, sched, assign, seed=0):
        self.sched = sched
        self.size = sched.size
        self.assign = assign
        self.rs = np.random.RandomState(seed)
        self.load = np.zeros(self.size)
        self.load[0] = np.inf
        self.queue = []
        self.assigned = {}
        self.slave_queue = [[] for _ in range(self.size)]
        self.collected = []
        self.auto = 0
        self.rr = 0

    def submit_call(self, name_to_call, args=(), kwargs={}, module="__main__", time_est=1,
                    id=None, slave=None):
        if id is None:
            self.auto += 1
            id = "auto-%d" % self.auto
        if id in self.assigned:
            raise ProtocolError("id %r already in queue" % (id,))
        if slave is None or slave < 1 or slave >= self.size:
            if self.assign == "least-load":
                slave = int(np.argmin(self.load))
            elif self.assign == "round-robin":
                slave = 1 + self.rr % (self.size - 1)
                self.rr += 1
            elif self.assign == "one-worker":
                slave = self.size - 1
            else:
                slave = int(self.rs.randint(1, self.size))
        self.sched.send((name_to_call, args, kwargs, module, time_est), dest=slave)
        self.load[slave] += time_est
        self.queue.append(id)
        self.slave_queue[slave].append(id)
        self.assigned[id] = slave
        return id

    def get_result(self, id):
        if id not in self.assigned:
            raise ProtocolError("get_result(%r): no such outstanding call (never submitted or "
                                "already collected)" % (id,))
        source = self.assigned[id]
        if self.slave_queue[source][0] != id:
            raise ProtocolError("get_result(%r) called before get_result(%r) of the same worker"
                                % (id, self.slave_queue[source][0]))
        result, _stats = self.sched.recv(source)
        self.queue.remove(id)
        self.slave_queue[source].remove(id)
        self.assigned.pop(id)
        self.collected.append(id)
        return result

    def get_next_result(self):
        return self.get_result(self.queue[0]) if self.queue else None

    def outstanding(self):
        return list(self.queue)


_MISSING = object()


@contextlib.contextmanager
def patched_mpi(size, transport, assign, policy, seed, priority=None):
    """Replace pyunicorn.utils.mpi in process.  Yields an object with .outstanding(), .sched."""
    from pyunicorn.utils import mpi
    sched = Scheduler(size, policy, seed, priority)
    new = {"available": True, "size": size, "rank": 0, "am_master": True, "am_slave": False,
           "n_slaves": size - 1, "_verbose": False}
    if transport == "standin":
        st = StandIn(sched, assign, seed)
        new.update(submit_call=st.submit_call, get_result=st.get_result,
                   get_next_result=st.get_next_result)
        handle = st
    else:
        tte = np.zeros(size)
        tte[0] = np.inf
        new.update(comm=sched, total_time_est=tte, queue=[], assigned={},
                   slave_queue=[[] for _ in range(size)],
                   n_processed=np.zeros(size).astype("int"), total_time=np.zeros(size), stats=[])

        class Handle:
            pass
        handle = Handle()
        handle.sched = sched
        handle.outstanding = lambda: list(mpi.queue)
    old = {k: getattr(mpi, k, _MISSING) for k in new}
    try:
        for k, v in new.items():
            setattr(mpi, k, v)
        yield handle
    finally:
        for k, v in old.items():
            if v is _MISSING:
                try:
                    delattr(mpi, k)
                except AttributeError:
                    pass
            else:
                setattr(mpi, k, v)


class FakePoolContext:
    """Stand-in for multiprocessing.get_context(...): Pool().map evaluates the batches in process,
    in a harness-chosen order, and returns the results in batch order (as Pool.map does)."""

    def __init__(self, order_seed):
        self.rs = np.random.RandomState(order_seed)
        self.n_batches = None

    def Pool(self, *a, **k):
        outer = self

        class P:
            def __enter__(self):
                return self

            def __exit__(self, *exc):
                return False

            def map(self, fn, batches):
                batches = [pickle.loads(pickle.dumps(b)) for b in batches]
                outer.n_batches = len(batches)
                res = [None] * len(batches)
                for i in outer.rs.permutation(len(batches)):
                    res[i] = pickle.loads(pickle.dumps(fn(batches[i])))
                return res

            def close(self):
                pass

            def join(self):
                pass
        return P()


@contextlib.contextmanager
def patched_pool(n_workers, order_seed):
    from pyunicorn.core import network
    ctx = FakePoolContext(order_seed)
    old = (network.cpu_count, network.get_context)
    network.cpu_count = lambda: n_workers
    network.get_context = lambda *a, **k: ctx
    try:
        yield ctx
    finally:
        network.cpu_count, network.get_context = old


# =============================================================================== graphs

def make_graph(rs, comp_sizes, p_extra=0.15, shuffle=True):
    """Connected components of the given sizes (random tree + extra links), node labels
    shuffled so that components interleave.  Returns (n, sorted edge list)."""
    n = int(sum(comp_sizes))
    edges = set()
    off = 0
    for c in comp_sizes:
        for v in range(1, c):
            u = int(rs.randint(0, v))
            edges.add((off + u, off + v))
        for u in range(c):
            for v in range(u + 1, c):
                if rs.random_sample() < p_extra:
                    edges.add((off + u, off + v))
        off += c
    perm = rs.permutation(n) if shuffle else np.arange(n)
    e = sorted((int(min(perm[u], perm[v])), int(max(perm[u], perm[v]))) for u, v in edges)
    return n, [list(x) for x in e]


def adjacency(n, edges):
    A = np.zeros((n, n), dtype=np.int8)
    for u, v in edges:
        A[u, v] = A[v, u] = 1
    return A


def largest_component(n, edges):
    A = adjacency(n, edges)
    seen = np.zeros(n, bool)
    best = 0
    for s in range(n):
        if seen[s]:
            continue
        stack, c = [s], 0
        seen[s] = True
        while stack:
            u = stack.pop()
            c += 1
            for v in np.nonzero(A[u])[0]:
                if not seen[v]:
                    seen[v] = True
                    stack.append(v)
        best = max(best, c)
    return best


def expected_parts(ncomp, size):
    max_parts = max(1, int(np.ceil(min((size - 1) * 10.0, 0.1 * ncomp))))
    step = int(np.ceil(ncomp / max_parts))
    return int(np.ceil(ncomp / step)), step


# =============================================================================== measures

MEASURES = {
    "newman_betweenness": lambda net, kw: net.newman_betweenness(),
    "nsi_newman_betweenness": lambda net, kw: net.nsi_newman_betweenness(**kw),
    "nsi_arenas_betweenness": lambda net, kw: net.nsi_arenas_betweenness(**kw),
    "nsi_betweenness": lambda net, kw: net.nsi_betweenness(**kw),
}


_SUBCLASS = {}


def fresh_net(g, sl):
    from pyunicorn.core.network import Network
    if g.get("cls") == "subclass":
        # a network class derived from Network outside the pyunicorn namespace (a user's class; RecurrenceNetwork,
        # VisibilityGraph and the climate networks are in the same position): distributed = serial for it as well
        if "c" not in _SUBCLASS:
            _SUBCLASS["c"] = type("UserDefinedNetwork", (Network,), {})
        Network = _SUBCLASS["c"]
    buf = io.StringIO()
    with contextlib.redirect_stdout(buf):
        net = Network(adjacency=adjacency(g["n"], g["edges"]), directed=False,
                      node_weights=np.array(g["weights"], dtype=float), silence_level=sl)
    return net


def clear_caches():
    from pyunicorn.core.network import Network
    for nm in ("newman_betweenness", "_nsi_betweenness"):
        m = getattr(Network, nm, None)
        if hasattr(m, "cache_clear"):
            m.cache_clear()


_serial_cache = {}


def serial_result(rep, g, measure, kw, gkey, levels=(3, 2, 1, 0)):
    """Serial reference (mpi not available, no pool), also checked for silence levels 0..3
    (`levels` is shortened for the slow >100-node Arenas cases)."""
    k = (gkey, measure, json.dumps(kw, sort_keys=True))
    if k in _serial_cache:
        return _serial_cache[k]
    from pyunicorn.utils import mpi
    assert not mpi.available
    ref = None
    wit = {"kind": "serial", "graph": g, "measure": measure, "kwargs": kw}
    for sl in levels:
        clear_caches()
        buf = io.StringIO()
        try:
            with contextlib.redirect_stdout(buf):
                r = np.array(MEASURES[measure](fresh_net(g, sl), kw), dtype=float)
        except BaseException as e:      # noqa  (library calls sys.exit on kernel errors)
            rep.fail(measure + "/no-exception", dict(wit, silence_level=sl),
                     "serial run raised %s: %s" % (type(e).__name__, e))
            r = None
        rep.case(("serial", k, sl), nontrivial=False)
        if ref is None:
            ref = r
        elif r is not None and not agree(r, ref):
            rep.fail(measure + "/serial-verbosity-independent", dict(wit, silence_level=sl),
                     "silence_level %d: %r vs silence_level 3: %r" % (sl, r[:6].tolist(), ref[:6].tolist()))
    _serial_cache[k] = ref
    return ref


def check_distributed(rep, wit, gkey=None):
    """One distributed run of one measure under one schedule vs. the serial result."""
    g, measure, kw = wit["graph"], wit["measure"], wit.get("kwargs", {})
    gkey = gkey or json.dumps(g, sort_keys=True)
    ref = serial_result(rep, g, measure, kw, gkey,
                        levels=(3, 0) if wit.get("heavy") else (3, 2, 1, 0))
    if ref is None:
        return
    size = int(wit["size"])
    ncomp = largest_component(g["n"], g["edges"])
    parts, step = expected_parts(ncomp, size)
    key = (gkey, measure, json.dumps(kw, sort_keys=True), size, wit["transport"], wit["assign"],
           wit["policy"], wit.get("seed", 0), json.dumps(wit.get("priority")), wit["silence_level"])
    rep.case(key, nontrivial=parts >= 2,
             sample={k: v for k, v in wit.items() if k != "graph"} |
             {"n": g["n"], "largest_component": ncomp, "parts": parts, "step": step})
    clear_caches()
    buf = io.StringIO()
    handle = None
    try:
        with patched_mpi(size, wit["transport"], wit["assign"], wit["policy"],
                         int(wit.get("seed", 0)), wit.get("priority")) as handle:
            with contextlib.redirect_stdout(buf):
                net = fresh_net(g, int(wit["silence_level"]))
                got = np.array(MEASURES[measure](net, kw), dtype=float)
            left = handle.outstanding()
            pend = handle.sched.pending()
    except BaseException as e:      # noqa
        if isinstance(e, KeyboardInterrupt):
            raise
        chunks = [ev[4] for ev in handle.sched.log if ev[0] == "submit"] if handle else None
        rep.fail(measure + "/no-exception", wit,
                 "%s: %s | submitted chunks %r | %s" % (
                     type(e).__name__, e, chunks,
                     " / ".join(traceback.format_exc().strip().splitlines()[-4:])))
        return
    finally:
        clear_caches()
    if left or pend:
        rep.fail(measure + "/all-submitted-collected", wit,
                 "outstanding ids %r, %d uncollected messages" % (left[:10], pend))
    if not agree(got, ref):
        bad = np.nonzero(~np.isclose(got, ref, rtol=RTOL, atol=RTOL * np.abs(ref).max()))[0]
        chunks = [ev[4] for ev in handle.sched.log if ev[0] == "submit"]
        rep.fail(measure + "/distributed-equals-serial", wit,
                 "%d nodes differ, e.g. node %d: distributed %.17g serial %.17g; chunks %r" % (
                     len(bad), int(bad[0]) if len(bad) else -1,
                     got[bad[0]] if len(bad) else np.nan, ref[bad[0]] if len(bad) else np.nan,
                     chunks[:12]))


def check_pool(rep, wit, gkey=None):
    g, kw = wit["graph"], dict(wit.get("kwargs", {}))
    gkey = gkey or json.dumps(g, sort_keys=True)
    measure = "nsi_betweenness"
    skw = dict(kw, parallelize=False)
    ref = serial_result(rep, g, measure, skw, gkey)
    if ref is None:
        return
    real = wit["pool"] == "spawn"
    key = (gkey, json.dumps(kw, sort_keys=True), wit["pool"], wit.get("n_workers"),
           wit.get("seed", 0), wit["silence_level"])
    ntargets = len(kw["targets"]) if kw.get("targets") is not None else g["n"]
    rep.case(key, nontrivial=ntargets >= 2 and (real or int(wit["n_workers"]) >= 2),
             sample={k: v for k, v in wit.items() if k != "graph"} | {"n": g["n"]})
    clear_caches()
    buf = io.StringIO()
    try:
        with contextlib.redirect_stdout(buf):
            net = fresh_net(g, int(wit["silence_level"]))
            if real:
                got = np.array(net.nsi_betweenness(**dict(kw, parallelize=True)), dtype=float)
            else:
                with patched_pool(int(wit["n_workers"]), int(wit.get("seed", 0))) as ctx:
                    got = np.array(net.nsi_betweenness(**dict(kw, parallelize=True)), dtype=float)
                if ctx.n_batches != int(wit["n_workers"]):
                    rep.fail("nsi_betweenness/no-exception", wit,
                             "pool was given %r batches for %r workers" % (ctx.n_batches, wit["n_workers"]))
    except BaseException as e:      # noqa
        if isinstance(e, KeyboardInterrupt):
            raise
        rep.fail("nsi_betweenness/no-exception", wit, "%s: %s | %s" % (
            type(e).__name__, e, " / ".join(traceback.format_exc().strip().splitlines()[-4:])))
        return
    finally:
        clear_caches()
    if not agree(got, ref):
        bad = np.nonzero(~np.isclose(got, ref, rtol=RTOL, atol=RTOL * np.abs(ref).max()))[0]
        rep.fail("nsi_betweenness/" + ("spawn-pool-equals-serial" if real else "pool-equals-serial"),
                 wit, "%d nodes differ, e.g. node %d: pool %.17g serial %.17g" % (
                     len(bad), int(bad[0]), got[bad[0]], ref[bad[0]]))


# =============================================================================== chunk kernels

def kernel_inputs(wit):
    """Deterministic inputs of a kernel case from its witness."""
    n, edges = wit["n"], wit["edges"]
    A = adjacency(n, edges)
    rs = np.random.RandomState(int(wit["seed"]))
    w = rs.uniform(0.5, 2.0, n) if wit.get("weights") is None else np.array(wit["weights"], float)
    if wit.get("V", "random") == "random":
        V = rs.randn(n, n)
    else:       # the matrix the master builds: inverse of the reduced Kirchhoff matrix, padded
        L = np.diag(A.sum(axis=1).astype(float)) - A
        V = np.zeros((n, n))
        V[:-1, :-1] = np.linalg.inv(L[:-1, :-1])
    tw = rs.uniform(0, 1, (n, n))
    tw = (tw + tw.T) / 2
    return A, V, w, tw


def check_kernel(rep, wit):
    from pyunicorn.core._ext.numerics import \
        _mpi_newman_betweenness, _mpi_nsi_newman_betweenness, _nsi_betweenness
    from pyunicorn.core.network import Network
    from scipy import sparse as sp

    kern = wit["kernel"]
    n = wit["n"]
    A, V, w, tw = kernel_inputs(wit)
    cuts = [int(c) for c in wit["cuts"]]
    chunks = list(zip(cuts[:-1], cuts[1:]))
    key = (kern, n, json.dumps(wit["edges"]), wit["seed"], wit.get("V"), json.dumps(cuts),
           json.dumps(wit.get("opts")))
    rep.case(key, nontrivial=len(chunks) >= 2 and A.sum() > 0,
             sample={k: v for k, v in wit.items() if k != "edges"})
    A8 = A.astype(np.int8)
    nae = (1 - A - np.identity(n)).astype(np.int8)
    try:
        if kern == "_mpi_newman_betweenness":
            full, s0, e0 = _mpi_newman_betweenness(A8.copy(), V.copy(), n, 0, n)
            parts = [_mpi_newman_betweenness(np.ascontiguousarray(A8[a:b, :]), V.copy(), n, a, b)
                     for a, b in chunks]
            spec = D.newman_kernel(A, V) if wit.get("definition") else None
        elif kern == "_mpi_nsi_newman_betweenness":
            full, s0, e0 = _mpi_nsi_newman_betweenness(A8.copy(), V.copy(), n, w.copy(), nae.copy(), 0, n)
            parts = [_mpi_nsi_newman_betweenness(
                np.ascontiguousarray(A8[a:b, :]), V.copy(), n, w.copy(),
                np.ascontiguousarray(nae[a:b, :]), a, b) for a, b in chunks]
            spec = D.nsi_newman_kernel(A, V, w, nae) if wit.get("definition") else None
        elif kern == "_mpi_nsi_arenas_betweenness":
            o = wit["opts"]
            P = D.nsi_transition_matrix(A, w)
            spP = sp.csr_matrix(P).todok()
            Aplus = (A + np.identity(n)).astype(int)
            twm = tw if o["stopping_mode"] == "twinness" else None

            def run(a, b):
                err, res = Network._mpi_nsi_arenas_betweenness(
                    n, spP.copy(), Aplus[a:b, :], w.copy(), w[a:b].copy(), a, b,
                    o["exclude_neighbors"], o["stopping_mode"],
                    None if twm is None else twm[a:b, :])
                if err != '':
                    raise RuntimeError(err)
                return res
            full, s0, e0 = run(0, n)
            parts = [run(a, b) for a, b in chunks]
            spec = D.nsi_arenas_kernel(P, Aplus, w, o["exclude_neighbors"], o["stopping_mode"],
                                       twm) if wit.get("definition") else None
        elif kern == "_nsi_betweenness":
            k = A.sum(axis=1).astype(np.int16)
            flat = np.concatenate([np.nonzero(A[i])[0] for i in range(n)] + [np.zeros(0, int)]
                                  ).astype(np.int32)
            src = np.array(wit["opts"]["is_source"], dtype=np.int8)
            order = np.array(wit["opts"]["target_order"], dtype=np.int32)
            full = _nsi_betweenness(n, w.copy(), k, flat, src, order.copy())
            parts = [(_nsi_betweenness(n, w.copy(), k, flat, src, order[a:b].copy()), a, b)
                     for a, b in chunks]
            s0, e0, spec = 0, n, None
        else:
            raise ValueError(kern)
    except Exception as e:      # noqa
        rep.fail(kern + "/no-exception", wit, "%s: %s | %s" % (
            type(e).__name__, e, " / ".join(traceback.format_exc().strip().splitlines()[-3:])))
        return
    full = np.asarray(full, dtype=float)
    # magnitude of one summand of the kernel's defining sum
    floor = float(w.max()) ** 2 if kern in ("_mpi_nsi_arenas_betweenness", "_nsi_betweenness") \
        else float(np.abs(V).max()) * (float(w.max()) ** 3 if "nsi" in kern else 1.0)
    if kern in ("_mpi_newman_betweenness", "_mpi_nsi_newman_betweenness"):
        label = kern + "/partition-concat"
        ok_ranges = all((int(p[1]), int(p[2])) == c for p, c in zip(parts, chunks)) and \
            (int(s0), int(e0)) == (0, n)
        glued = np.concatenate([np.asarray(p[0], dtype=float) for p in parts]) if parts else full
        if not ok_ranges:
            rep.fail(label, wit, "returned (start,end) %r differ from the requested chunks %r" % (
                [(int(p[1]), int(p[2])) for p in parts], chunks))
    else:
        label = kern + ("/partition-sum" if kern.startswith("_mpi") else "/target-batches-additive")
        glued = np.sum([np.asarray(p[0], dtype=float) for p in parts], axis=0)
    if not agree(glued, full, floor):
        bad = np.nonzero(~np.isclose(glued, full, rtol=RTOL, atol=RTOL * max(np.abs(full).max(), floor)))[0]
        rep.fail(label, wit, "chunks %r: entry %d is %.17g from the chunks, %.17g from one chunk" % (
            chunks, int(bad[0]) if len(bad) else -1,
            glued[bad[0]] if len(bad) else np.nan, full[bad[0]] if len(bad) else np.nan))
    if spec is not None:
        rep.case(key + ("definition",), nontrivial=A.sum() > 0)
        if not agree(full, spec, floor):
            bad = np.nonzero(~np.isclose(full, spec, rtol=RTOL, atol=RTOL * max(np.abs(spec).max(), floor)))[0]
            rep.fail(kern + "/definition", wit, "entry %d: kernel %.17g, defining sum %.17g" % (
                int(bad[0]) if len(bad) else -1, full[bad[0]] if len(bad) else np.nan,
                spec[bad[0]] if len(bad) else np.nan))


def run_witness(rep, wit):
    k = wit["kind"]
    if k == "distributed":
        check_distributed(rep, wit)
    elif k == "pool":
        check_pool(rep, wit)
    elif k == "kernel":
        check_kernel(rep, wit)
    elif k == "serial":
        serial_result(rep, wit["graph"], wit["measure"], wit.get("kwargs", {}),
                      json.dumps(wit["graph"], sort_keys=True))
    else:
        raise ValueError("unknown witness kind %r" % k)


# =============================================================================== generators

MPI_VARIANTS = [
    ("newman_betweenness", {}),
    ("nsi_newman_betweenness", {"add_local_ends": False}),
    ("nsi_newman_betweenness", {"add_local_ends": True}),
    ("nsi_arenas_betweenness", {"exclude_neighbors": True, "stopping_mode": "neighbors"}),
    ("nsi_arenas_betweenness", {"exclude_neighbors": False, "stopping_mode": "neighbors"}),
    ("nsi_arenas_betweenness", {"exclude_neighbors": True, "stopping_mode": "twinness"}),
]
POLICIES = ["eager", "lazy", "others-first", "reverse", "random"]
ASSIGN = ["least-load", "round-robin", "random", "one-worker"]


def graph_family(rs, tier):
    quick = tier == "quick"
    shapes = [[11, 3], [13, 1, 7, 22], [25, 12], [31, 2, 1], [17, 17, 1], [41, 5]]
    if not quick:
        shapes += [[12], [19, 21, 23], [50, 11], [33, 1, 1, 14], [61]]
    for cs in shapes:
        n, edges = make_graph(rs, cs, p_extra=0.12)
        yield {"n": n, "edges": edges, "weights": np.round(rs.uniform(0.5, 2.5, n), 3).tolist()}
    # a component with more than 100 nodes: the number of MPI nodes changes the chunking
    big = [[103, 4]] if quick else [[103, 4], [117, 12], [211]]   # Arenas: thorough tier only
    for bi, cs in enumerate(big):
        n, edges = make_graph(rs, cs, p_extra=0.02)
        yield {"n": n, "edges": edges, "weights": np.round(rs.uniform(0.5, 2.5, n), 3).tolist(),
               "big": 2 if (bi == 0 and not quick) else 1}


def gen_distributed(rs, tier):
    quick = tier == "quick"
    for g in graph_family(rs, tier):
        big = g.pop("big", False)
        n = g["n"]
        ncomp = largest_component(n, g["edges"])
        variants = (MPI_VARIANTS if n <= 45 else MPI_VARIANTS[:4]) if not big else \
            MPI_VARIANTS[:2] + (MPI_VARIANTS[3:4] if big == 2 else [])
        for measure, kw in variants:
            heavy = big and measure == "nsi_arenas_betweenness"
            # worker counts: extremes, the value where (size-1)*10 crosses 0.1*N, random others
            sizes = [2, 3, n + 2] + [int(s) for s in rs.randint(2, n + 3, size=3)]
            if big:
                sizes += [int(np.ceil(0.01 * ncomp)) + 1, int(np.ceil(0.01 * ncomp)) + 2]
            if heavy:
                sizes = [2, n + 2]
            for i, size in enumerate(sorted(set(sizes))):
                reps = 1 if (heavy or (not quick and measure == "nsi_arenas_betweenness")) else 2
                for r in range(reps):
                    yield {"kind": "distributed", "graph": g, "measure": measure, "kwargs": kw,
                           "size": size, "heavy": heavy,
                           "transport": ["standin", "comm"][(i + r) % 2],
                           "assign": ASSIGN[int(rs.randint(0, len(ASSIGN)))],
                           "policy": POLICIES[int(rs.randint(0, len(POLICIES)))],
                           "seed": int(rs.randint(0, 2 ** 31)),
                           "silence_level": int((i + r) % 4)}
            if heavy:
                continue
            # every silence level under one fixed schedule, both transports
            for sl in range(4):
                for tr in ("standin", "comm"):
                    yield {"kind": "distributed", "graph": g, "measure": measure, "kwargs": kw,
                           "size": 4, "transport": tr, "assign": "least-load", "policy": "random",
                           "seed": 5, "silence_level": sl}
        # the same measures on an object of a class derived from Network (first small graphs only)
        if not big and n <= 30:
            g2 = dict(g, cls="subclass")
            for measure, kw in (MPI_VARIANTS[0], MPI_VARIANTS[1], MPI_VARIANTS[3]):
                for tr in ("standin", "comm"):
                    yield {"kind": "distributed", "graph": g2, "measure": measure, "kwargs": kw,
                           "size": 3, "transport": tr, "assign": "least-load", "policy": "random",
                           "seed": 7, "silence_level": 2}
        # all completion orders admitted by the protocol for small part counts
        parts, _ = expected_parts(ncomp, 3)
        if 2 <= parts <= (3 if quick else 4) and not big:
            for measure, kw in (MPI_VARIANTS[0], MPI_VARIANTS[1], MPI_VARIANTS[3]):
                for pr in itertools.permutations(range(parts)):
                    for assign in ("round-robin", "one-worker"):
                        yield {"kind": "distributed", "graph": g, "measure": measure, "kwargs": kw,
                               "size": parts + 1, "transport": "standin", "assign": assign,
                               "policy": "explicit", "priority": list(pr), "seed": 0,
                               "silence_level": 2}


def gen_small_all_sizes(rs, tier):
    """Small graphs: every number of MPI nodes 2..N+2."""
    shapes = [[2], [3, 1], [6, 4, 1], [11, 2]] if tier == "quick" else \
        [[2], [1, 1], [3, 1], [6, 4, 1], [11, 2], [10, 10], [12, 5, 3]]
    for cs in shapes:
        n, edges = make_graph(rs, cs, p_extra=0.3)
        g = {"n": n, "edges": edges, "weights": np.round(rs.uniform(0.5, 2.5, n), 3).tolist()}
        for measure, kw in (MPI_VARIANTS[0], MPI_VARIANTS[1], MPI_VARIANTS[3]):
            for size in range(2, n + 3):
                yield {"kind": "distributed", "graph": g, "measure": measure, "kwargs": kw,
                       "size": size, "transport": ["standin", "comm"][size % 2],
                       "assign": ASSIGN[size % len(ASSIGN)], "policy": POLICIES[size % len(POLICIES)],
                       "seed": size, "silence_level": size % 4}


def gen_pool(rs, tier):
    quick = tier == "quick"
    shapes = [[9, 4, 1], [23, 6]] if quick else [[9, 4, 1], [23, 6], [2], [40, 3, 3], [15, 15]]
    for gi, cs in enumerate(shapes):
        n, edges = make_graph(rs, cs, p_extra=0.15)
        g = {"n": n, "edges": edges, "weights": np.round(rs.uniform(0.5, 2.5, n), 3).tolist()}
        kws = [{}]
        src = sorted(int(v) for v in rs.permutation(n)[:max(1, n // 3)])
        tgt = [int(v) for v in rs.permutation(n)[:max(1, n // 2)]]
        kws.append({"sources": src, "targets": tgt})
        kws.append({"nsi": False})
        for kw in kws:
            workers = sorted(set([1, 2, 3, n - 1, n, n + 1, n + 2] +
                                 [int(v) for v in rs.randint(1, n + 3, size=2 if quick else 6)]))
            for j, nw in enumerate(w for w in workers if w >= 1):
                yield {"kind": "pool", "graph": g, "kwargs": kw, "pool": "fake", "n_workers": nw,
                       "seed": int(rs.randint(0, 2 ** 31)), "silence_level": j % 4}
        if gi < (1 if quick else 3):
            for sl in ((2,) if quick else ((0, 3) if gi == 0 else (1,))):
                yield {"kind": "pool", "graph": g, "kwargs": kws[gi % len(kws)], "pool": "spawn",
                       "silence_level": sl}


def gen_kernels(rs, tier):
    quick = tier == "quick"
    kernels = ["_mpi_newman_betweenness", "_mpi_nsi_newman_betweenness",
               "_mpi_nsi_arenas_betweenness", "_nsi_betweenness"]
    arenas_opts = [{"exclude_neighbors": True, "stopping_mode": "neighbors"},
                   {"exclude_neighbors": False, "stopping_mode": "neighbors"},
                   {"exclude_neighbors": True, "stopping_mode": "twinness"},
                   {"exclude_neighbors": False, "stopping_mode": "twinness"}]

    def opts_for(kern, n, i):
        if kern == "_mpi_nsi_arenas_betweenness":
            return arenas_opts[i % 4]
        if kern == "_nsi_betweenness":
            return {"is_source": [int(v) for v in (rs.random_sample(n) < 0.7)],
                    "target_order": [int(v) for v in rs.permutation(n)]}
        return None

    # exhaustive: every contiguous partition of the node range for connected graphs, n <= Nex
    Nex = 5 if quick else 7
    for n in range(2, Nex + 1):
        for gi in range(2):
            _, edges = make_graph(rs, [n], p_extra=0.3, shuffle=True)
            for ki, kern in enumerate(kernels):
                seed = int(rs.randint(0, 2 ** 31))
                o = opts_for(kern, n, gi + n)
                for ci, cuts in enumerate(D.compositions(n)):
                    yield {"kind": "kernel", "kernel": kern, "n": n, "edges": edges, "seed": seed,
                           "V": ["random", "kirchhoff"][gi], "cuts": cuts, "opts": o,
                           "definition": ci == 0}
    # random partitions of larger node ranges
    for it in range(12 if quick else 40):
        n = int(rs.randint(8, 26 if quick else 45))
        _, edges = make_graph(rs, [n], p_extra=0.15)
        for ki, kern in enumerate(kernels):
            if kern == "_mpi_nsi_arenas_betweenness" and n > 25:
                continue        # ~50 ms per node and chunk call: keep the Python kernel to n <= 25
            seed = int(rs.randint(0, 2 ** 31))
            o = opts_for(kern, n, it)
            cutsets = [list(range(n + 1)),                       # one node per chunk
                       [0, 1, n], [0, n - 1, n]]
            for _ in range(2 if quick else 5):
                m = int(rs.randint(1, n))
                cutsets.append([0] + sorted(int(c) for c in rs.choice(np.arange(1, n), size=m,
                                                                      replace=False)) + [n])
            step = int(np.ceil(n / max(1, int(np.ceil(0.1 * n)))))
            cutsets.append(sorted(set(list(range(0, n, step)) + [n])))      # the master's chunking
            for ci, cuts in enumerate(cutsets):
                yield {"kind": "kernel", "kernel": kern, "n": n, "edges": edges, "seed": seed,
                       "V": ["random", "kirchhoff"][it % 2], "cuts": cuts, "opts": o,
                       "definition": ci == 0 and n <= 30}


SCOPE = (
    "Measures newman_betweenness, nsi_newman_betweenness (add_local_ends on/off), "
    "nsi_arenas_betweenness (exclude_neighbors on/off, stopping_mode neighbors/twinness) on "
    "undirected graphs with 1..4 connected components (sizes 1..61, quick: ..41; one to three "
    "graphs with a component > 100 nodes so that the number of MPI nodes changes the chunking; "
    "component sizes not divisible by the step; node labels shuffled so components interleave), "
    "node weights in [0.5,2.5]; pyunicorn.utils.mpi replaced in process (two transports: patched "
    "submit_call/get_result with protocol book-keeping, or the library's own master code over a "
    "fake communicator); MPI nodes 2, 3, N+2, threshold values and random values in 2..N+2, every "
    "value 2..N+2 for small graphs; call-to-worker assignment least-load / round-robin / random / "
    "single worker; result availability eager / lazy / others-first / reverse / random, and every "
    "completion priority order for 2..3 (thorough: ..4) parts; silence_level 0..3 with stdout "
    "captured; arguments and results pickled as MPI would.  nsi_betweenness with parallelize=True "
    "through an in-process pool with 1..N+2 workers and random evaluation order of the batches "
    "(all nodes / source+target subsets / nsi=False) and through the real spawn pool (1 case "
    "quick, 4 thorough).  Chunk kernels _mpi_newman_betweenness, _mpi_nsi_newman_betweenness, "
    "Network._mpi_nsi_arenas_betweenness, _nsi_betweenness called directly: every contiguous "
    "partition of the node range for connected graphs with 2..5 (thorough 2..7) nodes, random "
    "partitions incl. one-node chunks and the master's own chunking for 8..25 (..44; the Python "
    "Arenas kernel ..25) nodes, V "
    "random or the padded inverse reduced Kirchhoff matrix.  Tolerance 1e-9 relative to the "
    "largest serial value (partial sums are re-associated; chunk slices are otherwise copied).")
RULE = (
    "one evaluation = one distributed/pool run of one measure under one schedule compared with the "
    "serial result, or one kernel partition compared with the single-chunk call (plus serial runs "
    "per silence level, counted but never non-trivial).  Key = (graph, measure, options, MPI nodes, "
    "transport, assignment, policy, seed/priority, silence level) resp. (kernel, graph, inputs "
    "seed, cut points).  Non-trivial: distributed runs whose largest component is cut into at "
    "least two chunks (component size > 10); pool runs with at least two workers and two targets; "
    "kernel partitions with at least two chunks on a graph with a link.")


def main():
    args = parse_args()
    rep = Report(PROP, args, SCOPE, RULE)
    try:
        import pyunicorn.core.network  # noqa
        from pyunicorn.utils import mpi
        if mpi.available:
            print("a real MPI environment is active; the stand-in needs a serial process",
                  file=sys.stderr)
            sys.exit(3)
    except SystemExit:
        raise
    except Exception as e:      # noqa
        print("cannot import pyunicorn: %r" % (e,), file=sys.stderr)
        sys.exit(3)

    if args.replay:
        with open(args.replay) as f:
            doc = json.load(f)
        run_witness(rep, doc["witness"] if "witness" in doc else doc)
        rep.finish()
        return

    rs = np.random.RandomState(args.seed)
    budget = 55 if args.tier == "quick" else 560
    stages = [("kernels", gen_kernels(rs, args.tier), 0.30),
              ("small-all-sizes", gen_small_all_sizes(rs, args.tier), 0.40),
              ("pool", gen_pool(rs, args.tier), 0.55),
              ("distributed", gen_distributed(rs, args.tier), 1.0)]
    for name, gen, frac in stages:
        for wit in gen:
            if rep.elapsed() > budget * frac:
                rep.skip("time budget of stage '%s' reached; remaining cases of the stage not run" % name)
                break
            try:
                run_witness(rep, wit)
            except Exception as e:      # noqa
                rep.fail("harness/internal-error", wit,
                         "%s: %s" % (type(e).__name__, traceback.format_exc()[-500:]))
    rep.finish()


if __name__ == "__main__":
    main()
