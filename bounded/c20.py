#!/usr/bin/env python
"""C20 - compiled kernels never touch memory outside their arrays (bounded stand-in).

Drives every public entry point of pyunicorn that reaches a compiled kernel of
pyunicorn.{core,climate,funcnet,timeseries}._ext.numerics over array shapes with each
dimension in {0,1,2,3,small random}, N != T, more nodes than samples, and the dtypes the
Python wrappers convert (float64/float32/int64/bool, complex where it is rejected).

Two modes, chosen by the environment (not by --tier):

* sanitizer mode (LD_PRELOAD contains libclang_rt.asan): pyunicorn on PYTHONPATH is an
  AddressSanitizer+UBSan build.  Every case runs in a child process; a child that ends with
  exit code 77 / a signal / a sanitizer report on stderr is a failure `<entrypoint>/asan`.
* plain mode: same cases, also in child processes (so a crash cannot take the report down).
  Failures: `<entrypoint>/crash` (child died) and `<entrypoint>/foreign-memory`: every case is
  evaluated four times - inputs as exact-size fresh arrays and as slices of larger buffers filled
  with +1e30 / -1e30 (ints: +-max/3, bool: True/False), each after spraying the malloc free
  lists with the +1e30 / -1e30 bit pattern - and the two runs of one layout must agree
  (ints exactly, floats rtol 1e-5 / atol 1e-6, NaN==NaN; a mismatch must reproduce once).
  A result that depends on the poison was computed from memory outside the arrays.

A Python exception is an allowed rejection in both modes.  A per-case watchdog (SIGALRM with
default action) turns a hang into `skipped: timeout ...`; a hang is not a C20 violation (the drivers
avoid the argument ranges for which kernels are known to loop for ever: knn >= samples, no admissible
rewiring/swap, resampling from a distribution without mass).

Process layout: parent -> up to 8 children (`--cases-file`), each a supervisor that imports pyunicorn
once and forks a worker for its share of the cases; a worker killed by a sanitizer report, a signal or
the watchdog is replaced by a fresh fork that continues behind the fatal case, so each death costs
milliseconds and is attributed to the case (and the public call, `@@C20 STEP` markers on stderr) it
happened in.  In plain mode every case ends with flush_heap(), which pushes numpy's privately cached
blocks through free() so that glibc reports a damaged malloc header inside the guilty case.

Check names: `<Class.method>/asan` (sanitizer mode), `<Class.method>/crash`, `<Class.method>/foreign-memory`
(plain mode).  Two case families have a label of their own because they fail on the tree at the time of
writing (genuine C20 violations, reported, not papered over):
  * `RainfallClimateNetwork.spearman_corr(mask.shape!=anomaly.shape)` - the public method hands a mask smaller
    than `anomaly` to the raw-pointer kernel (heap-buffer-overflow READ in _spearman_corr);
  * `Surrogates.test_mutual_information(n_bins=0)` - histogram arrays of extent 0 are indexed with n_bins-1 = -1
    and 0 (heap-buffer-overflow READ+WRITE in _test_mutual_information_fast; plain build: glibc abort).

Sensitivity (scratch copies, both modes): caught `i*m+t` in _spearman_corr; removed index guard in
ResNetwork.vertex_current_flow_betweenness; `k <= n_samples` in the C histogram loop; removed surrogates
shape check in test_pearson_correlation (plain mode: only by one case); `j<=N` in the ECFB loop;
`p_mi = mi + i*n_time`; `surrogates + j*N`; hist2d allocated int32 but read as long*; spearman_rho allocated
(tmax,tmax); `boundscheck: False` in setup.py (caught at >20 entry points).

Exact recipe (verified with Debian clang 14.0.6; build ~25 s with -j4):

    rsync -a --exclude .git /repo/ /tmp/c20/asan/
    cd /tmp/c20/asan
    find src -name 'numerics*.so' -delete; find src -path '*_ext*' -name numerics.c -delete; rm -rf build
    CC=clang LDSHARED='clang -shared' \
      CFLAGS='-fsanitize=address,undefined -fno-sanitize-recover=undefined -fno-omit-frame-pointer -g -O1' \
      LDFLAGS='-fsanitize=address,undefined' /venv/bin/python setup.py build_ext --inplace -j4
    cd /verif
    PYTHONPATH=/tmp/c20/asan/src:/verif \
      LD_PRELOAD=$(clang -print-file-name=libclang_rt.asan-x86_64.so) \
      ASAN_OPTIONS=detect_leaks=0:abort_on_error=0:halt_on_error=1:exitcode=77 \
      .venv/bin/python bounded/c20.py --tier thorough --seed 0 --out /tmp/c20_asan.json
    rm -rf /tmp/c20

Plain mode:  cd /verif && PYTHONPATH=/verif .venv/bin/python bounded/c20.py --tier quick --seed 0 --out /tmp/c20.json
One case:    ... bounded/c20.py --tier quick --seed 0 --case '<case name>[;<case name>...]'   (prints the worker's JSON lines)
Some entries:... bounded/c20.py --tier quick --seed 0 --only Surrogates --out ...       (development aid)
Replay:      ... bounded/c20.py --replay FILE   (FILE: JSON with a `witness` as emitted in a failure)

Not driven: the MPI branch of (nsi_)newman_betweenness (mpi.available is False here; the serial
branch calls the same kernels with start_i=0, end_i=N).
"""
import argparse
import json
import os
import signal
import subprocess
import sys
import tempfile
import time
from concurrent.futures import ThreadPoolExecutor

import numpy as np

sys.path.insert(0, os.path.dirname(os.path.dirname(os.path.abspath(__file__))))
from bounded.common import parse_args, Report, jsonable  # noqa: E402

PROP = "C20"
MARK = "@@C20 "
SAN = "asan" in os.environ.get("LD_PRELOAD", "")
WORKERS = 8
BATCH = 24
CASE_LIMIT_S = 60 if SAN else 15        # per-case watchdog inside the child
SAN_WORDS = ("AddressSanitizer", "runtime error:", "UndefinedBehaviorSanitizer", "LeakSanitizer")

ENTRIES = {}        # entry name -> (driver, generator)


def entry(name, gen):
    def deco(fn):
        ENTRIES[name] = (fn, gen)
        return fn
    return deco


# ----------------------------------------------------------------------------- inputs

def gen(rng, shape, dt, fl="rand"):
    """Deterministic test data.  fl: rand | const (first column/entry constant) | nan | big."""
    shape = tuple(int(s) for s in shape)
    if dt == "bool":
        return rng.random_sample(shape) < 0.5
    if dt.startswith("int"):
        return rng.randint(-3, 4, size=shape).astype(dt)
    if dt == "complex128":
        return (rng.standard_normal(shape) + 1j * rng.standard_normal(shape)).astype(dt)
    a = rng.standard_normal(shape).astype(dt)
    if a.size:
        if fl == "const":
            a[...] = 1.5
        elif fl == "const1":
            a.reshape(a.shape[0], -1)[:, 0] = 1.5
        elif fl == "nan":
            a.flat[a.size // 2] = np.nan
        elif fl == "big":
            a *= a.dtype.type(1e30)
        elif fl == "ties":
            a = np.round(a).astype(dt)
    return a


def poison_value(dtype, sign):
    dtype = np.dtype(dtype)
    if dtype.kind == "b":
        return sign > 0
    if dtype.kind in "iu":
        return sign * (np.iinfo(dtype).max // 3) if dtype.kind == "i" else np.iinfo(dtype).max // 3
    return sign * 1e30


class Mk:
    """Materialise a logical input array: exact-size fresh C array, or a slice of a poisoned buffer."""

    def __init__(self, layout, sign):
        self.layout, self.sign = layout, sign

    def __call__(self, a):
        a = np.asarray(a)
        if self.layout == "exact" or a.ndim == 0:
            return np.array(a, copy=True, order="C")
        pad = 2
        big = np.empty(tuple(s + 2 * pad for s in a.shape), dtype=a.dtype)
        big[...] = poison_value(a.dtype, self.sign)
        v = big[tuple(slice(pad, pad + s) for s in a.shape)]
        v[...] = a
        return v


_SPRAY_SIZES = list(range(1, 130)) + [160, 192, 256, 384, 512, 768, 1024, 2048, 4096, 16384]


def spray(sign):
    """Fill freed heap chunks (numpy's small-block cache and malloc's bins) with the bit pattern of
    float32(+-1e30), so that whatever a kernel reads beyond a freshly allocated array differs
    between the two runs of a case."""
    val = np.float32(sign * 1e30)
    keep = []
    for _ in range(3):
        for n in _SPRAY_SIZES:
            keep.append(np.full(n, val, dtype=np.float32))
    del keep


_FLUSH_SIZES = sorted(set(range(0, 129)) | set(range(128, 513, 4)) | set(range(512, 1025, 8)))


def flush_heap():
    """numpy parks up to 7 freed data blocks per byte size < 1024 in a private cache, so a block whose
    malloc header was damaged by an out-of-bounds write may not reach free() for a long time.  Taking 16
    blocks of every small size and dropping them again (a list is emptied from its end) pushes every
    parked block through free(), where glibc aborts on a damaged header - inside the guilty case."""
    keep = []
    for n in _FLUSH_SIZES:
        for _ in range(16):
            keep.append(np.empty(n, dtype=np.uint8))
    del keep


# ----------------------------------------------------------------------------- results

def canon(v, depth=0):
    """Nested, copy-made, comparable form of a result."""
    if isinstance(v, np.ndarray):
        return ("arr", np.array(v, copy=True))
    if isinstance(v, (np.generic,)):
        return ("arr", np.array(v))
    if isinstance(v, (bool, int, float, complex)):
        return ("arr", np.array(v))
    if v is None or isinstance(v, str):
        return ("lit", v)
    if isinstance(v, dict):
        return ("seq", [canon(v[k], depth + 1) for k in sorted(v, key=str)])
    if isinstance(v, (list, tuple)):
        if depth < 6:
            return ("seq", [canon(x, depth + 1) for x in v])
        return ("lit", repr(v))
    adj = getattr(v, "adjacency", None)
    if isinstance(adj, np.ndarray):
        return ("arr", np.array(adj, copy=True))
    return ("lit", type(v).__name__)


def same(a, b):
    if a[0] != b[0]:
        return False
    if a[0] == "lit":
        return a[1] == b[1]
    if a[0] == "seq":
        return len(a[1]) == len(b[1]) and all(same(x, y) for x, y in zip(a[1], b[1]))
    x, y = a[1], b[1]
    if x.shape != y.shape or x.dtype != y.dtype:
        return False
    if x.dtype.kind in "fc":
        with np.errstate(all="ignore"):
            return bool(np.allclose(x, y, rtol=1e-5, atol=1e-6, equal_nan=True))
    if x.dtype.kind == "O":
        return repr(x.tolist()) == repr(y.tolist())
    return bool(np.array_equal(x, y))


def brief(c):
    if c[0] == "arr":
        x = c[1]
        return "%s%s %s" % (x.dtype, list(x.shape), np.array2string(x.ravel()[:6], precision=4))
    if c[0] == "seq":
        return "[" + ", ".join(brief(x) for x in c[1][:3]) + (" ..." if len(c[1]) > 3 else "") + "]"
    return repr(c[1])


FAILED = object()


def mark(text):
    os.write(2, (MARK + text + "\n").encode())


class Ctx:
    """Collects the outcome of every public call of one run of one case."""

    def __init__(self):
        self.out = {}       # label -> list of ('ok', canon) | ('exc', type name)

    def call(self, label, fn, *a, **k):
        mark("STEP " + label)
        try:
            v = fn(*a, **k)
        except (KeyboardInterrupt, SystemExit):
            raise
        except BaseException as e:      # noqa: B902 - every Python exception is an allowed rejection
            self.out.setdefault(label, []).append(("exc", type(e).__name__))
            return FAILED
        self.out.setdefault(label, []).append(("ok", canon(v)))
        return v


def seed_all(s):
    import random
    random.seed(s)
    np.random.seed(s % (2 ** 32))


def run_once(case, layout, sign):
    fn = ENTRIES[case["entry"]][0]
    p = case["params"]
    ctx = Ctx()
    seed_all(p.get("ds", 0) + 12345)
    if not SAN:
        spray(sign)
    rng = np.random.RandomState(p.get("ds", 0))
    fn(p, Mk(layout, sign), rng, ctx)
    return ctx.out


def compare_runs(o1, o2):
    """Return list of (label, text) where two runs of the same layout disagree."""
    bad = []
    for label in sorted(set(o1) | set(o2)):
        r1, r2 = o1.get(label, []), o2.get(label, [])
        if len(r1) != len(r2):
            bad.append((label, "number of calls %d vs %d" % (len(r1), len(r2))))
            continue
        for (k1, v1), (k2, v2) in zip(r1, r2):
            if k1 != k2:
                bad.append((label, "%s vs %s" % (k1 if k1 == "ok" else v1, k2 if k2 == "ok" else v2)))
            elif k1 == "exc":
                if v1 != v2:
                    bad.append((label, "%s vs %s" % (v1, v2)))
            elif not same(v1, v2):
                bad.append((label, "+poison: %s | -poison: %s" % (brief(v1), brief(v2))))
    return bad


def child_case(case):
    """Evaluate one case (all its runs); returns the JSON-able record for the parent."""
    layouts = ("exact", "pad")
    rec = {"name": case["name"], "entry": case["entry"], "labels": {}, "mismatch": []}
    outs = {}
    for layout in layouts:
        for sign in ((1,) if SAN else (1, -1)):
            outs[(layout, sign)] = run_once(case, layout, sign)
    for (layout, sign), o in outs.items():
        for label, rs in o.items():
            d = rec["labels"].setdefault(label, {"ok": 0, "exc": {}})
            for k, v in rs:
                if k == "ok":
                    d["ok"] += 1
                else:
                    d["exc"][v] = d["exc"].get(v, 0) + 1
    if not SAN:
        flush_heap()
        for layout in layouts:
            bad = compare_runs(outs[(layout, 1)], outs[(layout, -1)])
            if bad:     # must reproduce
                again = compare_runs(run_once(case, layout, 1), run_once(case, layout, -1))
                labels2 = {lab for lab, _ in again}
                for lab, text in bad:
                    if lab in labels2:
                        rec["mismatch"].append({"label": lab, "layout": layout, "text": text[:400]})
    return rec


def worker(cases, start, real_out, prog_fd):
    """Runs cases[start:] in a forked process; progress goes to prog_fd, records to real_out."""
    signal.signal(signal.SIGALRM, signal.SIG_DFL)       # default action: the watchdog kills this worker
    for i in range(start, len(cases)):
        case = cases[i]
        os.write(prog_fd, b"B %d\n" % i)
        mark("BEGIN " + case["name"])
        signal.alarm(CASE_LIMIT_S)
        t0 = time.time()
        try:
            rec = child_case(case)
        except (KeyboardInterrupt, SystemExit):
            raise
        except BaseException as e:      # noqa: B902 - a bug of this harness, surfaced as skipped
            import traceback
            rec = {"name": case["name"], "entry": case["entry"], "labels": {}, "mismatch": [],
                   "driver_error": "%r | %s" % (e, traceback.format_exc()[-500:])}
        signal.alarm(0)
        rec["t"] = round(time.time() - t0, 4)
        mark("END " + case["name"])
        real_out.write(json.dumps(rec) + "\n")
        real_out.flush()
        os.write(prog_fd, b"E %d\n" % i)


def child_main(cases):
    """Supervisor: imports pyunicorn once, then forks a worker that runs the cases; a worker killed by a
    sanitizer report / signal / watchdog is replaced by a fresh fork that continues behind the fatal case."""
    try:
        import pyunicorn  # noqa: F401
        from pyunicorn import core, climate, funcnet, timeseries  # noqa: F401
    except BaseException as e:      # noqa: B902
        sys.stderr.write("C20 harness: cannot import pyunicorn: %r\n" % (e,))
        sys.exit(3)
    real_out = os.fdopen(os.dup(1), "w")
    devnull = open(os.devnull, "w")
    os.dup2(devnull.fileno(), 1)
    sys.stdout = devnull
    import warnings
    warnings.filterwarnings("ignore")
    np.seterr(all="ignore")
    start = 0
    while start < len(cases):
        r, w = os.pipe()
        sys.stderr.flush()
        pid = os.fork()
        if pid == 0:
            os.close(r)
            code = 0
            try:
                worker(cases, start, real_out, w)
            except SystemExit as e:
                code = e.code if isinstance(e.code, int) else 1
            except BaseException:       # noqa: B902
                import traceback
                traceback.print_exc()
                code = 3
            os._exit(code)
        os.close(w)
        prog = b""
        while True:
            chunk = os.read(r, 65536)
            if not chunk:
                break
            prog += chunk
        os.close(r)
        _, status = os.waitpid(pid, 0)
        rc = -os.WTERMSIG(status) if os.WIFSIGNALED(status) else os.WEXITSTATUS(status)
        begun = [int(x[2:]) for x in prog.decode().split("\n") if x.startswith("B ")]
        ended = {int(x[2:]) for x in prog.decode().split("\n") if x.startswith("E ")}
        if rc == 0 and begun and begun[-1] == len(cases) - 1 and begun[-1] in ended:
            break
        cur = next((i for i in begun if i not in ended), None)
        if cur is None:
            sys.stderr.write("C20 harness: worker ended with rc=%s outside a case\n" % rc)
            sys.exit(3 if rc in (0, 3) else 4)
        real_out.write(json.dumps({"name": cases[cur]["name"], "entry": cases[cur]["entry"],
                                   "worker_rc": rc}) + "\n")
        real_out.flush()
        start = cur + 1
    sys.exit(0)


# ----------------------------------------------------------------------------- parent side

def san_excerpt(text):
    """The informative part of a sanitizer report."""
    lines = text.splitlines()
    keep = []
    for i, ln in enumerate(lines):
        if any(w in ln for w in SAN_WORDS) or "SUMMARY:" in ln:
            keep.append(ln.strip())
            for nxt in lines[i + 1:i + 4]:
                if nxt.lstrip().startswith(("READ", "WRITE", "#0", "#1")) or "located" in nxt:
                    keep.append(nxt.strip())
    for ln in lines:
        if "is located" in ln and ln.strip() not in keep:
            keep.append(ln.strip())
    if not keep:
        keep = [ln for ln in lines if not ln.startswith(MARK)][-6:]
    return " | ".join(keep)[:590]


def split_stderr(err):
    """-> (segments: name -> {'text','step','ended'}, order of names)"""
    segs, order, cur = {}, [], None
    for ln in err.splitlines():
        if ln.startswith(MARK):
            kind, _, rest = ln[len(MARK):].partition(" ")
            if kind == "BEGIN":
                cur = rest
                order.append(cur)
                segs[cur] = {"text": [], "step": None, "ended": False}
            elif kind == "STEP" and cur is not None:
                segs[cur]["step"] = rest
            elif kind == "END" and cur is not None:
                segs[cur]["ended"] = True
                cur = None
        elif cur is not None:
            segs[cur]["text"].append(ln)
    for s in segs.values():
        s["text"] = "\n".join(s["text"])
    return segs, order


def spawn(cases, extra_env=None):
    with tempfile.NamedTemporaryFile("w", suffix=".json", delete=False) as f:
        json.dump(cases, f)
        path = f.name
    env = dict(os.environ)
    env.update({"OPENBLAS_NUM_THREADS": "1", "OMP_NUM_THREADS": "1", "MKL_NUM_THREADS": "1",
                "PYTHONHASHSEED": "0"})
    limit = 120 + CASE_LIMIT_S + (8 if SAN else 2) * len(cases)
    t0 = time.time()
    try:
        pr = subprocess.run([sys.executable, os.path.abspath(__file__), "--cases-file", path],
                            stdout=subprocess.PIPE, stderr=subprocess.PIPE, env=env, timeout=limit,
                            cwd=tempfile.gettempdir())
        rc, out, err = pr.returncode, pr.stdout, pr.stderr
    except subprocess.TimeoutExpired as e:
        rc, out, err = -signal.SIGALRM, e.stdout or b"", e.stderr or b""
    finally:
        os.unlink(path)
    return rc, out.decode("utf-8", "replace"), err.decode("utf-8", "replace"), time.time() - t0


def run_batch(cases):
    """Run cases in child processes; restart behind a case that killed its child.
    -> list of records: child records plus {'name','entry','died':{rc,step,detail}} / {'timeout':..}"""
    records, pending = [], list(cases)
    while pending:
        rc, out, err, _ = spawn(pending)
        if rc == 3:
            return [{"harness_error": err[-800:]}]
        done = {}
        for ln in out.splitlines():
            try:
                r = json.loads(ln)
                done[r["name"]] = r
            except ValueError:
                pass
        segs, order = split_stderr(err)
        for c in pending:
            if c["name"] in done:
                r = done[c["name"]]
                seg = segs.get(c["name"], {"text": "", "step": None})
                if "worker_rc" in r:                        # the forked worker died in this case
                    r["rc"], r["step"] = r["worker_rc"], seg["step"]
                    if r["rc"] == -signal.SIGALRM:
                        r["timeout"] = True
                    else:
                        r["died"] = (san_excerpt(seg["text"]) if seg["text"].strip()
                                     else "worker ended with rc=%s" % r["rc"])
                elif any(w in seg["text"] for w in SAN_WORDS):      # recoverable report, worker survived
                    r["san_report"] = san_excerpt(seg["text"])
                records.append(r)
        if rc == 0 and all(c["name"] in done for c in pending):
            break
        cur = next((n for n in order if n not in done), None)
        if cur is None:
            return records + [{"harness_error": "child rc=%s without a running case: %s" % (rc, err[-600:])}]
        seg = segs[cur]
        c = next(x for x in pending if x["name"] == cur)
        rec = {"name": cur, "entry": c["entry"], "step": seg["step"], "rc": rc}
        if rc == -signal.SIGALRM:
            rec["timeout"] = True
        else:
            rec["died"] = san_excerpt(seg["text"]) if seg["text"].strip() else "child ended with rc=%s" % rc
        records.append(rec)
        idx = [x["name"] for x in pending].index(cur)
        pending = [x for x in pending[idx + 1:] if x["name"] not in done]
    return records


def case_name(entry_name, params):
    return entry_name + "[" + ",".join("%s=%s" % (k, json.dumps(params[k], separators=(",", ":")))
                                       for k in sorted(params)) + "]"


def build_cases(tier, seed):
    cases, seen = [], set()
    for i, (name, (_, generator)) in enumerate(ENTRIES.items()):
        for rep in range(5 if tier == "thorough" else 1):       # thorough: five draws of the random sizes
            rng = np.random.RandomState((seed * 1000003 + i * 7919 + rep * 104729 + 17) % (2 ** 32))
            for params in generator(tier, rng):
                params = jsonable(params)
                params.setdefault("ds", int(rng.randint(0, 2 ** 31 - 1)))
                nm = case_name(name, {k: v for k, v in params.items() if k != "ds"})
                if nm in seen:
                    continue
                seen.add(nm)
                cases.append({"name": nm, "entry": name, "params": params})
    return cases


def instrumented():
    """Is the pyunicorn found on the path an ASan build? (looks for __asan_init in the .so)"""
    import importlib.util
    try:
        spec = importlib.util.find_spec("pyunicorn")
        root = os.path.dirname(spec.origin)
        import glob
        sos = glob.glob(os.path.join(root, "*", "_ext", "numerics*.so"))
        return bool(sos) and all(b"__asan_init" in open(s, "rb").read() for s in sos), root
    except Exception as e:      # noqa: B902
        return False, repr(e)


def parent_main(args, only=None):
    inst, root = instrumented()
    mode = "sanitizer (ASan+UBSan)" if SAN else "plain"
    scope = ("mode=%s, pyunicorn at %s (instrumented extensions: %s); every public entry point reaching "
             "core/climate/funcnet/timeseries _ext.numerics kernels (%d entry drivers); each array dimension in "
             "{0,1,2,3,random 4..9%s}; all (T,N) pairs incl. N>T; dtypes float64/float32/int64/bool (+complex, "
             "NaN, constant, 1e30-scaled, tied data on selected shapes); out-of-range/negative node indices, "
             "mismatched companion shapes, n_bins/knn/tau/dim/delay in {0,1,2,3,..}; inputs as exact arrays and as "
             "slices of poisoned buffers. %s" % (
                 mode, root, inst, len(ENTRIES), ", random 10..20" if args.tier == "thorough" else "",
                 "Failure = exit 77 / signal / sanitizer report of the child." if SAN else
                 "Failure = child crash, or result differing between +1e30 and -1e30 poisoned surroundings "
                 "(ints exact, floats rtol 1e-5 atol 1e-6, reproduced twice)."))
    rule = ("cases are generated per entry point from the seed (np.random.RandomState); a case is a (entry point, "
            "shape/dtype/argument) tuple, distinct by its name; it counts as non-trivial when at least one public "
            "call of it returned a value (was not rejected by a Python exception). evaluations = public calls made.")
    rep = Report(PROP, args, scope, rule)
    if SAN and not inst:
        rep.skip("LD_PRELOAD has the ASan runtime but the pyunicorn extensions on PYTHONPATH are not instrumented")
    if only is not None:
        cases = only
    else:
        cases = build_cases(args.tier, args.seed)
    # interleave entries over batches so that slow entries spread out
    nb = max(1, min(WORKERS, (len(cases) + BATCH - 1) // BATCH))
    batches = [cases[i::nb] for i in range(nb)]
    by_name = {c["name"]: c for c in cases}
    with ThreadPoolExecutor(max_workers=WORKERS) as ex:
        results = list(ex.map(run_batch, batches))
    harness_errors = []
    if os.environ.get("C20_PROFILE"):
        prof = {}
        for recs in results:
            for r in recs:
                if "t" in r:
                    e = prof.setdefault(r["entry"], [0, 0.0])
                    e[0] += 1
                    e[1] += r["t"]
        for k, (n, t) in sorted(prof.items(), key=lambda kv: -kv[1][1]):
            sys.stderr.write("%8.2fs %5d  %s\n" % (t, n, k))
    for recs in results:
        for r in recs:
            if "harness_error" in r:
                harness_errors.append(r["harness_error"])
                continue
            c = by_name[r["name"]]
            wit = {"case": c["name"], "entry": c["entry"], "params": c["params"]}
            if r.get("timeout"):
                rep.case(None, nontrivial=False)
                rep.skip("timeout (>%ds, hang; not a memory violation) in %s at %s" % (
                    CASE_LIMIT_S, r["name"], r.get("step")))
                continue
            if "died" in r:
                rep.case(None, nontrivial=False)
                ep = r.get("step") or r["entry"]
                rep.fail("%s/%s" % (ep, "asan" if SAN else "crash"), wit, "rc=%s: %s" % (r["rc"], r["died"]))
                continue
            if "driver_error" in r:
                rep.skip("driver-error in %s: %s" % (r["name"], r["driver_error"]))
                continue
            ncalls = sum(d["ok"] + sum(d["exc"].values()) for d in r["labels"].values())
            anyok = any(d["ok"] for d in r["labels"].values())
            for _ in range(max(ncalls - 1, 0)):
                rep.case(None, nontrivial=False)
            rep.case(r["name"], nontrivial=anyok,
                     sample={"case": r["name"], "outcome": {k: ("ok" if d["ok"] else "/".join(d["exc"]))
                                                            for k, d in r["labels"].items()}})
            if "san_report" in r:
                rep.fail("%s/asan" % r["entry"], wit, r["san_report"])
            for m in r["mismatch"]:
                rep.fail("%s/foreign-memory" % m["label"], wit, "layout=%s: %s" % (m["layout"], m["text"]))
    if harness_errors:
        sys.stderr.write("C20 harness cannot run: %s\n" % harness_errors[0])
        rep.skip("harness error: " + harness_errors[0][:300])
        rep.finish()
        sys.exit(3)
    rep.finish()
    sys.exit(0)


# ----------------------------------------------------------------------------- case generators' helpers

DTS = ("float64", "float32", "int64", "bool")


def dims(tier, rng):
    d = [0, 1, 2, 3, int(rng.randint(4, 10))]
    if tier == "thorough":
        d += [int(rng.randint(4, 10)), int(rng.randint(10, 21))]
    return d


def pairs(tier, rng):
    d = dims(tier, rng)
    return [(a, b) for a in d for b in d]


def some_shapes(tier, rng):
    """a few (T, N) shapes for the dtype / data-flavour sweeps: N<T, N>T, tiny."""
    r, s = int(rng.randint(4, 10)), int(rng.randint(4, 10))
    out = [(r, 3), (3, r), (2, 2), (r, s + 1 if s == r else s)]
    if tier == "thorough":
        out += [(int(rng.randint(10, 21)), 5), (5, int(rng.randint(10, 21))), (1, r), (r, 1)]
    return out


def graph(rng, N, dens, directed=False):
    A = (rng.random_sample((N, N)) < dens).astype(np.int8)
    if N:
        np.fill_diagonal(A, 0)
    if not directed:
        A = np.triu(A, 1)
        A = A + A.T
    return A.astype(np.int8)


_CACHE = {}


def _mi_net():
    if "mi" not in _CACHE:
        from pyunicorn import climate
        _CACHE["mi"] = climate.MutualInfoClimateNetwork(
            climate.ClimateData.SmallTestData(), threshold=0.2, winter_only=False, silence_level=3)
    return _CACHE["mi"]


def _rain_net():
    if "rain" not in _CACHE:
        from pyunicorn import climate
        _CACHE["rain"] = climate.RainfallClimateNetwork(
            climate.ClimateData.SmallTestData(), threshold=0.2, silence_level=3)
    return _CACHE["rain"]


def _climate_data(p, mk, rng, ctx):
    from pyunicorn import climate, core
    T, N = p["T"], p["N"]
    grid = ctx.call("GeoGrid.__init__", core.GeoGrid, time_seq=np.arange(T, dtype=float),
                    lat_seq=np.linspace(-80, 80, N), lon_seq=np.linspace(-170, 170, N), silence_level=3)
    if grid is FAILED:
        return FAILED
    obs = mk(gen(rng, (T, N), p["dt"], p.get("fl", "rand")))
    return ctx.call("ClimateData.__init__", climate.ClimateData, observable=obs, grid=grid,
                    time_cycle=p.get("tc", 1), silence_level=3)


# ----------------------------------------------------------------------------- climate

def g_shape_dt(tier, rng):
    for T, N in pairs(tier, rng):
        yield {"T": T, "N": N, "dt": "float64"}
    for T, N in some_shapes(tier, rng):
        for dt in DTS[1:]:
            yield {"T": T, "N": N, "dt": dt}
        for fl in ("const", "const1", "nan", "big", "ties"):
            yield {"T": T, "N": N, "dt": "float64", "fl": fl}
        yield {"T": T, "N": N, "dt": "float32", "fl": "big"}


@entry("MutualInfoClimateNetwork.calculate_similarity_measure", g_shape_dt)
def _e_mi_sim(p, mk, rng, ctx):
    a = mk(gen(rng, (p["T"], p["N"]), p["dt"], p.get("fl", "rand")))
    net = _mi_net()
    ctx.call("MutualInfoClimateNetwork.calculate_similarity_measure", net.calculate_similarity_measure, a)
    if p["T"] == 3:
        ctx.call("MutualInfoClimateNetwork.mutual_information", net.mutual_information, a, dump=False)


def g_climate_ctor(tier, rng):
    for T, N in pairs(tier, rng):
        for tc in ((1,) if tier == "quick" else (1, 2)):
            yield {"T": T, "N": N, "dt": "float64", "tc": tc}
    for T, N in some_shapes(tier, rng):
        for dt in DTS[1:]:
            yield {"T": T, "N": N, "dt": dt, "tc": 1}
        yield {"T": T, "N": N, "dt": "float64", "tc": 1, "fl": "const1"}
        yield {"T": T, "N": N, "dt": "float64", "tc": T if T else 1, "wo": True}


@entry("MutualInfoClimateNetwork.__init__", g_climate_ctor)
def _e_mi_ctor(p, mk, rng, ctx):
    from pyunicorn import climate
    cd = _climate_data(p, mk, rng, ctx)
    if cd is FAILED:
        return
    ctx.call("MutualInfoClimateNetwork.__init__",
             lambda: (lambda n: (n.adjacency, n.similarity_measure()))(climate.MutualInfoClimateNetwork(
                 cd, threshold=0.1, winter_only=p.get("wo", False), silence_level=3)))


@entry("RainfallClimateNetwork.__init__", g_climate_ctor)
def _e_rain_ctor(p, mk, rng, ctx):
    from pyunicorn import climate
    cd = _climate_data(p, mk, rng, ctx)
    if cd is FAILED:
        return
    ev = (0, 1) if not p.get("wo") else (0.25, 1)
    ctx.call("RainfallClimateNetwork.__init__",
             lambda: (lambda n: (n.adjacency, n.similarity_measure()))(climate.RainfallClimateNetwork(
                 cd, threshold=0.1, event_threshold=ev, silence_level=3)))


def g_spearman(tier, rng):
    for m, T in pairs(tier, rng):
        yield {"m": m, "T": T, "dt": "float64", "mdt": "bool"}
    for T, m in some_shapes(tier, rng):
        for dt in DTS[1:]:
            yield {"m": m, "T": T, "dt": dt, "mdt": "bool"}
        for mdt in ("int8", "int64", "float64"):
            yield {"m": m, "T": T, "dt": "float64", "mdt": mdt}
        for fl in ("nan", "ties", "const"):
            yield {"m": m, "T": T, "dt": "float64", "mdt": "bool", "fl": fl}


@entry("RainfallClimateNetwork.spearman_corr", g_spearman)
def _e_spearman(p, mk, rng, ctx):
    m, T = p["m"], p["T"]
    mask = mk(gen(rng, (m, T), p["mdt"]))
    an = mk(gen(rng, (m, T), p["dt"], p.get("fl", "rand")))
    ctx.call("RainfallClimateNetwork.spearman_corr", _rain_net().spearman_corr, mask, an)
    if T == 3 or m == 3:
        ctx.call("RainfallClimateNetwork.rank_time_series", _rain_net().rank_time_series, an)
        ctx.call("RainfallClimateNetwork.calculate_top_events", _rain_net().calculate_top_events,
                 np.abs(an.astype(float)), (0, 1))


def g_spearman_mask(tier, rng):
    for T, m in some_shapes(tier, rng):
        for dm, dT in ((-1, 0), (0, -1), (1, 0), (0, 1), (-1, -1)):
            if m + dm >= 0 and T + dT >= 0:
                yield {"m": m, "T": T, "mm": m + dm, "mT": T + dT}
        yield {"m": m, "T": T, "mm": T, "mT": m}
        yield {"m": m, "T": T, "mm": 0, "mT": 0}


@entry("RainfallClimateNetwork.spearman_corr(mask.shape!=anomaly.shape)", g_spearman_mask)
def _e_spearman_mask(p, mk, rng, ctx):
    mask = mk(gen(rng, (p["mm"], p["mT"]), "bool"))
    an = mk(gen(rng, (p["m"], p["T"]), "float64"))
    ctx.call("RainfallClimateNetwork.spearman_corr(mask.shape!=anomaly.shape)",
             _rain_net().spearman_corr, mask, an)


# ----------------------------------------------------------------------------- core: Network

def g_cliq(tier, rng):
    for N in dims(tier, rng) + [int(rng.randint(6, 11))]:
        for order in (4, 5):
            for dens in (0.5, 0.9):
                yield {"N": N, "order": order, "dens": dens, "dt": "int8"}
    for dt in ("int64", "bool", "float64", "uint8"):
        yield {"N": 7, "order": 4, "dens": 0.8, "dt": dt}
        yield {"N": 6, "order": 5, "dens": 0.9, "dt": dt}
    yield {"N": 6, "order": 4, "dens": 0.8, "dt": "int8", "dir": True}


@entry("Network.local_cliquishness", g_cliq)
def _e_cliq(p, mk, rng, ctx):
    from pyunicorn import core
    A = mk(graph(rng, p["N"], p["dens"], p.get("dir", False)).astype(p["dt"]))
    net = ctx.call("Network.__init__", core.Network, adjacency=A, directed=p.get("dir", False), silence_level=3)
    if net is FAILED:
        return
    ctx.call("Network.local_cliquishness", net.local_cliquishness, p["order"])


def _node_sel(kind, N, rng):
    if kind == "none":
        return None
    if kind == "empty":
        return []
    if kind == "one":
        return [0]
    if kind == "half":
        return list(range(0, N, 2))
    if kind == "oob":
        return [0, N]
    if kind == "neg":
        return [-1]
    if kind == "dup":
        return [0, 0, max(N - 1, 0)]
    raise KeyError(kind)


def g_nsibetw(tier, rng):
    kinds = ("none", "empty", "one", "half", "oob", "neg", "dup")
    for N in dims(tier, rng):
        for dens in (0.3, 0.8):
            yield {"N": N, "dens": dens, "src": "none", "tgt": "none", "wdt": "float64"}
        for k in kinds[1:]:
            yield {"N": N, "dens": 0.5, "src": k, "tgt": "none", "wdt": "float64"}
            yield {"N": N, "dens": 0.5, "src": "none", "tgt": k, "wdt": "float64"}
    for wdt in ("float32", "int64", "bool"):
        yield {"N": 6, "dens": 0.5, "src": "half", "tgt": "none", "wdt": wdt}
    yield {"N": 5, "dens": 0.5, "src": "none", "tgt": "none", "wdt": "float64", "dir": True}


@entry("Network.nsi_betweenness", g_nsibetw)
def _e_nsibetw(p, mk, rng, ctx):
    from pyunicorn import core
    N = p["N"]
    A = mk(graph(rng, N, p["dens"], p.get("dir", False)))
    w = mk((np.abs(gen(rng, (N,), p["wdt"])) + 1).astype(p["wdt"]))
    net = ctx.call("Network.__init__", core.Network, adjacency=A, node_weights=w,
                   directed=p.get("dir", False), silence_level=3)
    if net is FAILED:
        return
    src, tgt = _node_sel(p["src"], N, rng), _node_sel(p["tgt"], N, rng)
    ctx.call("Network.nsi_betweenness", net.nsi_betweenness, sources=src, targets=tgt)
    ctx.call("Network.interregional_betweenness", net.interregional_betweenness, sources=src, targets=tgt)
    ctx.call("Network.nsi_interregional_betweenness", net.nsi_interregional_betweenness, src, tgt)


def g_newman(tier, rng):
    for N in dims(tier, rng) + [int(rng.randint(5, 9))]:
        for dens in (0.25, 0.6, 1.0):
            yield {"N": N, "dens": dens, "wdt": "float64"}
    for wdt in ("float32", "int64"):
        yield {"N": 6, "dens": 0.6, "wdt": wdt}


@entry("Network.newman_betweenness", g_newman)
def _e_newman(p, mk, rng, ctx):
    from pyunicorn import core
    N = p["N"]
    A = mk(graph(rng, N, p["dens"]))
    w = mk((np.abs(gen(rng, (N,), p["wdt"])) + 1).astype(p["wdt"]))
    net = ctx.call("Network.__init__", core.Network, adjacency=A, node_weights=w, silence_level=3)
    if net is FAILED:
        return
    ctx.call("Network.newman_betweenness", net.newman_betweenness)
    ctx.call("Network.nsi_newman_betweenness", net.nsi_newman_betweenness)
    ctx.call("Network.nsi_newman_betweenness", net.nsi_newman_betweenness, add_local_ends=True)


# ----------------------------------------------------------------------------- core: spatial / interacting / grids / resistive

def _rewire_feasible(A, edges, degree):
    """Is there an ordered pair of stored edges the geomodel kernels accept (eps huge)?  Otherwise the
    kernel's `while i < iterations` never ends - a hang, which is not C20's subject."""
    E = len(edges)
    for e1 in range(E):
        s, t = edges[e1]
        for e2 in range(E):
            k, l = edges[e2]
            if len({s, t, k, l}) == 4 and A[s, l] == 0 and A[t, k] == 0:
                if degree is None or (degree[s] == degree[k] and degree[t] == degree[l]):
                    return True
    return False


def g_rewire(tier, rng):
    for N in dims(tier, rng) + [int(rng.randint(6, 10))]:
        for model in ("I", "II", "III"):
            for it in (0, 1, 3):
                yield {"N": N, "model": model, "it": it, "dens": 0.4, "dD": 0, "ddt": "float64"}
    for model in ("I", "II", "III"):
        for dD in (-1, 1, -3):
            yield {"N": 7, "model": model, "it": 2, "dens": 0.4, "dD": dD, "ddt": "float64"}
        for ddt in ("float32", "int64", "bool"):
            yield {"N": 7, "model": model, "it": 2, "dens": 0.4, "dD": 0, "ddt": ddt}
        yield {"N": 7, "model": model, "it": -1, "dens": 0.4, "dD": 0, "ddt": "float64"}


@entry("SpatialNetwork.randomly_rewire_geomodel", g_rewire)
def _e_rewire(p, mk, rng, ctx):
    from pyunicorn import core
    N = p["N"]
    A = graph(rng, N, p["dens"])
    grid = ctx.call("Grid.__init__", core.Grid, time_seq=np.arange(3.), space_seq=mk(gen(rng, (2, N), "float64")),
                    silence_level=3)
    if grid is FAILED:
        return
    net = ctx.call("SpatialNetwork.__init__", core.SpatialNetwork, grid=grid, adjacency=mk(A), silence_level=3)
    if net is FAILED:
        return
    M = max(N + p["dD"], 0)
    D = np.abs(gen(rng, (M, M), p["ddt"]))
    D = mk((D + D.T).astype(p["ddt"]) if p["ddt"] != "bool" else D)
    it = p["it"]
    if it > 0:
        edges = np.array(net.graph.get_edgelist()).reshape(-1, 2)
        deg = net.degree() if p["model"] == "III" else None
        if not _rewire_feasible(np.asarray(net.adjacency), edges, deg):
            it = 0
    label = "SpatialNetwork.randomly_rewire_geomodel_" + p["model"]
    r = ctx.call(label, getattr(net, "randomly_rewire_geomodel_" + p["model"]), D, it, 1e9)
    if r is not FAILED:
        ctx.call(label + ":adjacency", lambda: net.adjacency)


def _lists(kind, N):
    h = N // 2
    return {
        "split": (list(range(h)), list(range(h, N))),
        "empty1": ([], list(range(N))),
        "empty2": (list(range(N)), []),
        "both-empty": ([], []),
        "overlap": (list(range(N)), list(range(N))),
        "oob": (list(range(h)), list(range(h, N)) + [N]),
        "oob1": ([N + 2] + list(range(h)), list(range(h, N))),
        "neg": ([-1] + list(range(h)), list(range(h, N))),
        "neg2": (list(range(h)), [-2] + list(range(h, N))),
        "dup": (list(range(h)) * 2, list(range(h, N)) * 2),
    }[kind]


LISTKINDS = ("split", "empty1", "empty2", "both-empty", "overlap", "oob", "oob1", "neg", "neg2", "dup")


def g_cross(tier, rng):
    for N in dims(tier, rng) + [int(rng.randint(6, 11))]:
        for dens in (0.4, 0.9):
            yield {"N": N, "dens": dens, "lk": "split", "wdt": "float64"}
        for lk in LISTKINDS[1:]:
            yield {"N": N, "dens": 0.6, "lk": lk, "wdt": "float64"}
    for wdt in ("float32", "int64", "bool"):
        yield {"N": 7, "dens": 0.6, "lk": "split", "wdt": wdt}
    yield {"N": 6, "dens": 0.6, "lk": "split", "wdt": "float64", "dir": True}


@entry("InteractingNetworks.cross_measures", g_cross)
def _e_cross(p, mk, rng, ctx):
    from pyunicorn import core
    N = p["N"]
    A = mk(graph(rng, N, p["dens"], p.get("dir", False)))
    w = mk((np.abs(gen(rng, (N,), p["wdt"])) + 1).astype(p["wdt"]))
    net = ctx.call("InteractingNetworks.__init__", core.InteractingNetworks, adjacency=A, node_weights=w,
                   directed=p.get("dir", False), silence_level=3)
    if net is FAILED:
        return
    l1, l2 = _lists(p["lk"], N)
    for m in ("cross_transitivity", "nsi_cross_transitivity", "cross_local_clustering",
              "nsi_cross_local_clustering"):
        ctx.call("InteractingNetworks." + m, getattr(net, m), l1, l2)


def g_crosslinks(tier, rng):
    for N in dims(tier, rng) + [int(rng.randint(6, 11))]:
        for lk in ("split", "empty1", "both-empty", "overlap", "oob", "neg", "dup"):
            for how in ("null", "dens", "num", "num-big", "num-neg"):
                yield {"N": N, "dens": 0.5, "lk": lk, "how": how}
            for sw in (0, 1, 2.5):
                yield {"N": N, "dens": 0.5, "lk": lk, "sw": sw}


@entry("InteractingNetworks.random_cross_links", g_crosslinks)
def _e_crosslinks(p, mk, rng, ctx):
    from pyunicorn import core
    N = p["N"]
    A = mk(graph(rng, N, p["dens"]))
    net = ctx.call("InteractingNetworks.__init__", core.InteractingNetworks, adjacency=A, silence_level=3)
    if net is FAILED:
        return
    l1, l2 = _lists(p["lk"], N)
    IN = core.InteractingNetworks
    if "how" in p:
        kw = {"null": {}, "dens": {"cross_link_density": 0.5}, "num": {"number_cross_links": 2},
              "num-big": {"number_cross_links": 10 ** 6}, "num-neg": {"number_cross_links": -3}}[p["how"]]
        ctx.call("InteractingNetworks.RandomlySetCrossLinks", IN.RandomlySetCrossLinks, net, l1, l2, **kw)
    else:
        sw = p["sw"]
        if sw:
            # the kernel's `while True` needs an admissible swap, else it never ends (hang, not C20)
            try:
                cA = net.cross_adjacency(l1, l2)
                links = np.transpose(np.nonzero(cA))
                ok = any(not (cA[a, d] or cA[c, b]) for a, b in links for c, d in links)
            except Exception:       # noqa: B902
                ok = True           # the call below is going to raise for the same reason
            if not ok:
                sw = 0
        ctx.call("InteractingNetworks.RandomlyRewireCrossLinks", IN.RandomlyRewireCrossLinks, net, l1, l2, sw)


def g_grid(tier, rng):
    for N in dims(tier, rng):
        for nd in (0, 1, 2, 3):
            yield {"N": N, "nd": nd, "dt": "float64"}
    for dt in DTS[1:]:
        yield {"N": 5, "nd": 2, "dt": dt}
    yield {"N": 5, "nd": 2, "dt": "float64", "fl": "big"}
    yield {"N": 5, "nd": 2, "dt": "float64", "fl": "nan"}


@entry("Grid.euclidean_distance", g_grid)
def _e_grid(p, mk, rng, ctx):
    from pyunicorn import core
    sp = mk(gen(rng, (p["nd"], p["N"]), p["dt"], p.get("fl", "rand")))
    g = ctx.call("Grid.__init__", core.Grid, time_seq=np.arange(4.), space_seq=sp, silence_level=3)
    if g is FAILED:
        return
    ctx.call("Grid.euclidean_distance", g.euclidean_distance)


def g_geogrid(tier, rng):
    for N in dims(tier, rng):
        for dN in (0, -1, 1):
            yield {"N": N, "dN": dN, "dt": "float64"}
    for dt in DTS[1:]:
        yield {"N": 5, "dN": 0, "dt": dt}
    yield {"N": 5, "dN": 0, "dt": "float64", "fl": "nan"}
    yield {"N": 5, "dN": 0, "dt": "float64", "fl": "big"}


@entry("GeoGrid.angular_distance", g_geogrid)
def _e_geogrid(p, mk, rng, ctx):
    from pyunicorn import core
    N = p["N"]
    lat = mk((gen(rng, (N,), p["dt"], p.get("fl", "rand")) * (30 if p["dt"].startswith("float") else 1)
              ).astype(p["dt"]))
    lon = mk((gen(rng, (max(N + p["dN"], 0),), p["dt"]) * (60 if p["dt"].startswith("float") else 1)
              ).astype(p["dt"]))
    g = ctx.call("GeoGrid.__init__", core.GeoGrid, time_seq=np.arange(4.), lat_seq=lat, lon_seq=lon,
                 silence_level=3)
    if g is FAILED:
        return
    ctx.call("GeoGrid.angular_distance", g.angular_distance)


def g_res(tier, rng):
    for N in dims(tier, rng) + [int(rng.randint(5, 9))]:
        for dens in (0.5, 1.0):
            yield {"N": N, "dens": dens, "dt": "float64"}
    for dt in ("float32", "int64", "bool", "complex128"):
        yield {"N": 5, "dens": 0.7, "dt": dt}
    yield {"N": 5, "dens": 0.7, "dt": "float64", "rs": -1}
    yield {"N": 5, "dens": 0.7, "dt": "float64", "rs": 1}


@entry("ResNetwork.current_flow_betweenness", g_res)
def _e_res(p, mk, rng, ctx):
    from pyunicorn import core
    N = p["N"]
    A = graph(rng, N, p["dens"])
    M = max(N + p.get("rs", 0), 0)
    R = np.abs(gen(rng, (M, M), "float64")) + 1
    R = R + R.T
    if M == N:
        R = R * A
    R = mk(R.astype(p["dt"]))
    net = ctx.call("ResNetwork.__init__", core.ResNetwork, R, adjacency=mk(A), silence_level=3)
    if net is FAILED:
        return
    for i in sorted({-2, -1, 0, 1, N - 1, N, N + 1, N + 7, N * N}):
        ctx.call("ResNetwork.vertex_current_flow_betweenness", net.vertex_current_flow_betweenness, i)
    ctx.call("ResNetwork.edge_current_flow_betweenness", net.edge_current_flow_betweenness)


# ----------------------------------------------------------------------------- funcnet

def g_cc(tier, rng):
    for T, N in pairs(tier, rng):
        for tau in sorted({0, 1, 2, max(T - 1, 0), T, T + 1}):
            if tier == "quick" and tau > 2 and tau not in (T - 1, T):
                continue
            yield {"T": T, "N": N, "tau": tau, "dt": "float64"}
    for T, N in some_shapes(tier, rng):
        for dt in DTS[1:]:
            yield {"T": T, "N": N, "tau": 1, "dt": dt}
        for fl in ("const", "const1", "big", "nan"):
            yield {"T": T, "N": N, "tau": 1, "dt": "float64", "fl": fl}
    yield {"T": 6, "N": 3, "tau": -1, "dt": "float64"}
    yield {"T": 200, "N": 2, "tau": 130, "dt": "float64"}      # lag does not fit int8 (finding #18)


@entry("CouplingAnalysis.cross_correlation", g_cc)
def _e_cc(p, mk, rng, ctx):
    from pyunicorn import funcnet
    data = mk(gen(rng, (p["T"], p["N"]), p["dt"], p.get("fl", "rand")))
    ca = ctx.call("CouplingAnalysis.__init__", funcnet.CouplingAnalysis, data, silence_level=3)
    if ca is FAILED:
        return
    r = ctx.call("CouplingAnalysis.cross_correlation[max]", ca.cross_correlation, tau_max=p["tau"], lag_mode="max")
    ctx.call("CouplingAnalysis.cross_correlation[all]", ca.cross_correlation, tau_max=p["tau"], lag_mode="all")
    if r is not FAILED:
        ctx.call("CouplingAnalysis.symmetrize_by_absmax", ca.symmetrize_by_absmax, r[0], r[1])


def g_symm(tier, rng):
    for N in dims(tier, rng):
        for dS, dL in ((0, 0), (-1, 0), (0, -1), (1, 1), (-1, -1)):
            if N + dS >= 0 and N + dL >= 0:
                yield {"N": N, "S": N + dS, "L": N + dL, "sdt": "float64", "ldt": "int8"}
    for sdt, ldt in (("float32", "int64"), ("int64", "int8"), ("bool", "bool"), ("float64", "float64")):
        yield {"N": 4, "S": 4, "L": 4, "sdt": sdt, "ldt": ldt}
    yield {"N": 4, "S": 4, "L": 4, "sdt": "float64", "ldt": "int8", "rect": True}


@entry("CouplingAnalysis.symmetrize_by_absmax", g_symm)
def _e_symm(p, mk, rng, ctx):
    from pyunicorn import funcnet
    ca = ctx.call("CouplingAnalysis.__init__", funcnet.CouplingAnalysis,
                  mk(gen(rng, (5, p["N"]), "float64")), silence_level=3)
    if ca is FAILED:
        return
    S = mk(gen(rng, (p["S"], p["S"] - (1 if p.get("rect") else 0)), p["sdt"]))
    L = mk(gen(rng, (p["L"], p["L"]), p["ldt"]))
    ctx.call("CouplingAnalysis.symmetrize_by_absmax", ca.symmetrize_by_absmax, S, L)


def g_knn(tier, rng):
    Ts = [0, 1, 2, 3, 4, int(rng.randint(6, 13))] + ([int(rng.randint(13, 31))] if tier == "thorough" else [])
    for T in Ts:
        for N in (1, 2, 3) if tier == "quick" else (0, 1, 2, 3, 5):
            for tau in (0, 1, 2):
                for knn in (1, 2, 3):
                    yield {"T": T, "N": N, "tau": tau, "knn": knn, "past": 1, "dt": "float64"}
    for dt in DTS[1:]:
        yield {"T": 9, "N": 2, "tau": 1, "knn": 2, "past": 1, "dt": dt}
    for past in (0, 2, 3):
        yield {"T": 10, "N": 2, "tau": 1, "knn": 2, "past": past, "dt": "float64"}
    yield {"T": 10, "N": 2, "tau": 1, "knn": 2, "past": 1, "dt": "float64", "fl": "ties"}
    yield {"T": 10, "N": 2, "tau": 1, "knn": 2, "past": 1, "dt": "float64", "fl": "const1"}


@entry("CouplingAnalysis.knn_estimators", g_knn)
def _e_knn(p, mk, rng, ctx):
    from pyunicorn import funcnet
    T, tau, knn, past = p["T"], p["tau"], p["knn"], p["past"]
    data = mk(gen(rng, (T, p["N"]), p["dt"], p.get("fl", "rand")))
    ca = ctx.call("CouplingAnalysis.__init__", funcnet.CouplingAnalysis, data, silence_level=3)
    if ca is FAILED:
        return
    # _get_nearest_neighbors loops for ever unless 1 <= k < number of samples (hang, not C20): keep to that
    if knn < T - tau:
        for lm in ("max", "all"):
            ctx.call("CouplingAnalysis.mutual_information[knn]", ca.mutual_information,
                     tau_max=tau, estimator="knn", knn=knn, lag_mode=lm)
    else:
        ctx.call("CouplingAnalysis.mutual_information[gauss]", ca.mutual_information,
                 tau_max=tau, estimator="gauss", lag_mode="max")
    if knn < T - tau - past:
        for cm in ("ity", "mit"):
            ctx.call("CouplingAnalysis.information_transfer[knn]", ca.information_transfer,
                     tau_max=tau, estimator="knn", knn=knn, past=past, cond_mode=cm, lag_mode="all")
    else:
        ctx.call("CouplingAnalysis.information_transfer[gauss]", ca.information_transfer,
                 tau_max=tau, estimator="gauss", past=past, lag_mode="max")


def g_gnn(tier, rng):
    for T in dims(tier, rng):
        for dim in (0, 1, 2, 3, 4):
            for k in (1, 2, 3):
                if k < T:       # k >= T (and k = 0) never terminates
                    yield {"T": T, "dim": dim, "k": k, "xyz": "01", "std": True, "dt": "float64"}
    for xyz in ("0", "1", "012", "0012", "0112", "10", "02", "22"):
        yield {"T": 7, "dim": len(xyz), "k": 2, "xyz": xyz, "std": True, "dt": "float64"}
        yield {"T": 7, "dim": 4, "k": 2, "xyz": xyz, "std": False, "dt": "float64"}
    for dt in DTS[1:]:
        yield {"T": 7, "dim": 2, "k": 2, "xyz": "01", "std": True, "dt": dt}
        yield {"T": 7, "dim": 2, "k": 2, "xyz": "01", "std": False, "dt": dt}
    yield {"T": 7, "dim": 2, "k": -1, "xyz": "01", "std": True, "dt": "float64"}
    yield {"T": 7, "dim": 3, "k": 2, "xyz": "012", "std": True, "dt": "float64", "fl": "ties"}


@entry("CouplingAnalysis.get_nearest_neighbors", g_gnn)
def _e_gnn(p, mk, rng, ctx):
    from pyunicorn import funcnet
    arr = mk(gen(rng, (p["dim"], p["T"]), p["dt"], p.get("fl", "rand")))
    xyz = np.array([int(c) for c in p["xyz"]])
    ctx.call("CouplingAnalysis.get_nearest_neighbors", funcnet.CouplingAnalysis.get_nearest_neighbors,
             array=arr, xyz=xyz, k=p["k"], standardize=p["std"])


# ----------------------------------------------------------------------------- timeseries

def _series(rng, T, d, dt, fl="rand", nan_at=()):
    a = gen(rng, (T,) if d == 0 else (T, d), dt, fl)
    if len(nan_at) and a.dtype.kind == "f" and T:
        for i in nan_at:
            if i < T:
                a[i] = np.nan
    return a


RP_MODES = (("threshold", 0.8), ("threshold", 0.0), ("threshold_std", 0.5), ("recurrence_rate", 0.3),
            ("local_recurrence_rate", 0.3), ("adaptive_neighborhood_size", 2))


def g_rp(tier, rng):
    ds = dims(tier, rng)
    for T in ds:
        for d in (0, 1, 2, 3):
            for mi, (mode, val) in enumerate(RP_MODES):
                if tier == "quick" and d in (1, 3) and mi not in (0, 5):
                    continue
                yield {"T": T, "d": d, "mode": mode, "val": val, "metric": ("supremum", "euclidean", "manhattan")[mi % 3],
                       "dt": "float64"}
    r = ds[4]
    for metric in ("supremum", "euclidean", "manhattan"):
        for T in (1, 2, 3, r):
            for dim, tau in ((1, 1), (2, 1), (3, 2), (2, 0), (0, 1), (3, T), (T + 1, 1)):
                yield {"T": T, "d": 0, "mode": "threshold", "val": 0.8, "metric": metric, "dt": "float64",
                       "dim": dim, "tau": tau}
    for T in (0, 1, 2, 3, r):
        for mv in (True,):
            for sp in (False, True):
                yield {"T": T, "d": 0, "mode": "threshold", "val": 0.8, "metric": "supremum", "dt": "float64",
                       "mv": mv, "sparse": sp, "nan": [1, T - 1]}
                yield {"T": T, "d": 2, "mode": "threshold", "val": 0.8, "metric": "supremum", "dt": "float64",
                       "mv": mv, "sparse": sp, "nan": []}
        yield {"T": T, "d": 0, "mode": "threshold", "val": 0.8, "metric": "supremum", "dt": "float64",
               "sparse": True}
        yield {"T": T, "d": 0, "mode": "recurrence_rate", "val": 0.3, "metric": "supremum", "dt": "float64",
               "mv": True, "nan": [0]}
        yield {"T": T, "d": 0, "mode": "adaptive_neighborhood_size", "val": T + 2, "metric": "supremum",
               "dt": "float64"}
        yield {"T": T, "d": 0, "mode": "threshold", "val": 0.8, "metric": "supremum", "dt": "float64", "norm": True}
    for dt in DTS[1:]:
        yield {"T": r, "d": 2, "mode": "threshold", "val": 0.8, "metric": "supremum", "dt": dt}
    for fl in ("const", "ties", "big"):
        yield {"T": r, "d": 0, "mode": "adaptive_neighborhood_size", "val": 2, "metric": "supremum",
               "dt": "float64", "fl": fl}
        yield {"T": r, "d": 0, "mode": "threshold", "val": 0.8, "metric": "supremum", "dt": "float64", "fl": fl}


@entry("RecurrencePlot", g_rp)
def _e_rp(p, mk, rng, ctx):
    from pyunicorn import timeseries
    ts = mk(_series(rng, p["T"], p["d"], p["dt"], p.get("fl", "rand"), p.get("nan", ())))
    kw = {p["mode"]: p["val"]}
    if "dim" in p:
        kw.update(dim=p["dim"], tau=p["tau"])
    rp = ctx.call("RecurrencePlot.__init__[%s]" % p["mode"], timeseries.RecurrencePlot, ts, metric=p["metric"],
                  normalize=p.get("norm", False), missing_values=p.get("mv", False),
                  sparse_rqa=p.get("sparse", False), silence_level=3, **kw)
    if rp is FAILED:
        return
    ctx.call("RecurrencePlot.recurrence_matrix", rp.recurrence_matrix)
    for m in ("diagline_dist", "vertline_dist", "white_vertline_dist", "recurrence_rate", "rqa_summary"):
        ctx.call("RecurrencePlot." + m, getattr(rp, m))
    for M in (0, 5):
        ctx.call("RecurrencePlot.resample_diagline_dist", rp.resample_diagline_dist, M)
        ctx.call("RecurrencePlot.resample_vertline_dist", rp.resample_vertline_dist, M)
    for md in (0, 1, 7, -2):
        ctx.call("RecurrencePlot.twins", rp.twins, min_dist=md)
    ctx.call("RecurrencePlot.twin_surrogates", rp.twin_surrogates, n_surrogates=2, min_dist=1)
    ctx.call("RecurrencePlot.twin_surrogates", rp.twin_surrogates, n_surrogates=0, min_dist=0)


def g_rp_setters(tier, rng):
    for T in dims(tier, rng):
        for what in ("R-small", "R-big", "R-rect", "R-int64", "R-bool", "R-float", "emb-short", "emb-long",
                     "emb-wide", "order-perm", "order-oob", "order-neg", "order-short", "order-long",
                     "mv-short", "mv-long"):
            yield {"T": T, "what": what}


@entry("RecurrencePlot(public attributes replaced)", g_rp_setters)
def _e_rp_setters(p, mk, rng, ctx):
    """R, embedding and missing_value_indices are public attributes / setters; order is an argument."""
    from pyunicorn import timeseries
    T, what = p["T"], p["what"]
    ts = mk(_series(rng, T, 0, "float64"))
    mv = what.startswith("mv")
    rp = ctx.call("RecurrencePlot.__init__[threshold]", timeseries.RecurrencePlot, ts, threshold=0.8,
                  missing_values=mv, silence_level=3)
    if rp is FAILED:
        return
    if what.startswith("order"):
        order = {"order-perm": rng.permutation(T), "order-oob": np.arange(T) + 1, "order-neg": np.arange(T) - 1,
                 "order-short": np.arange(max(T - 1, 0)), "order-long": np.arange(T + 2) % max(T, 1)}[what]
        ctx.call("RecurrencePlot.set_adaptive_neighborhood_size", rp.set_adaptive_neighborhood_size, 2,
                 order=mk(order))
        ctx.call("RecurrencePlot.recurrence_matrix", rp.recurrence_matrix)
        return
    if what.startswith("R-"):
        n = {"R-small": max(T - 1, 0), "R-big": T + 2}.get(what, T)
        R = gen(rng, (n, n - 1 if what == "R-rect" and n else n), "bool")
        R = R.astype({"R-int64": "int64", "R-bool": "bool", "R-float": "float64"}.get(what, "int8"))
        ctx.call("RecurrencePlot.R=", setattr, rp, "R", mk(R))
    elif what.startswith("emb"):
        shape = {"emb-short": (max(T - 1, 0), 1), "emb-long": (T + 2, 1), "emb-wide": (T, 3)}[what]
        ctx.call("RecurrencePlot.embedding=", setattr, rp, "embedding", mk(gen(rng, shape, "float64")))
        rp.sparse_rqa = what == "emb-wide"
    else:
        n = max(T - 1, 0) if what == "mv-short" else T + 2
        rp.missing_value_indices = mk(gen(rng, (n,), "bool"))
    for m in ("diagline_dist", "vertline_dist", "white_vertline_dist", "recurrence_rate"):
        ctx.call("RecurrencePlot." + m, getattr(rp, m))
    ctx.call("RecurrencePlot.twins", rp.twins, min_dist=0)
    ctx.call("RecurrencePlot.twin_surrogates", rp.twin_surrogates, n_surrogates=1, min_dist=0)


def g_rp_static(tier, rng):
    for T in dims(tier, rng):
        for dim in (0, 1, 2, 3):
            for tau in (0, 1, 2, -1):
                yield {"f": "embed", "T": T, "dim": dim, "tau": tau, "dt": "float64", "col": tau == 1}
        for d in (0, 1, 2, 3):
            for M in (0, 1, 4):
                yield {"f": "boot", "T": T, "d": d, "M": M, "metric": ("supremum", "euclidean", "manhattan")[d % 3],
                       "dt": "float64"}
        for M in (0, 1, 5):
            yield {"f": "rej", "T": T, "M": M, "dt": "int64"}
    for dt in DTS[1:]:
        yield {"f": "embed", "T": 6, "dim": 2, "tau": 1, "dt": dt, "col": False}
        yield {"f": "boot", "T": 6, "d": 2, "M": 3, "metric": "supremum", "dt": dt}
    for dt in ("float64", "float32"):
        yield {"f": "rej", "T": 6, "M": 4, "dt": dt}
    yield {"f": "boot", "T": 6, "d": 2, "M": -1, "metric": "supremum", "dt": "float64"}
    yield {"f": "rej", "T": 6, "M": -1, "dt": "int64"}


@entry("RecurrencePlot(static methods)", g_rp_static)
def _e_rp_static(p, mk, rng, ctx):
    from pyunicorn import timeseries
    RP = timeseries.RecurrencePlot
    if p["f"] == "embed":
        ts = mk(gen(rng, (p["T"], 1) if p["col"] else (p["T"],), p["dt"]))
        ctx.call("RecurrencePlot.embed_time_series", RP.embed_time_series, ts, p["dim"], p["tau"])
    elif p["f"] == "boot":
        emb = mk(gen(rng, (p["T"], p["d"]), p["dt"]))
        ctx.call("RecurrencePlot.bootstrap_distance_matrix", RP.bootstrap_distance_matrix, emb, p["metric"], p["M"])
    else:
        dist = np.abs(gen(rng, (p["T"],), p["dt"]))
        if dist.size:
            dist[0] = 2            # a distribution without mass never terminates (hang, not C20)
        ctx.call("RecurrencePlot.rejection_sampling", RP.rejection_sampling, mk(dist.astype(p["dt"])), p["M"])


def g_crp(tier, rng):
    ds = dims(tier, rng)
    for Tx in ds:
        for Ty in ds:
            yield {"Tx": Tx, "Ty": Ty, "dx": 0, "dy": 0, "metric": "supremum", "mode": "threshold", "dt": "float64"}
    for metric in ("supremum", "euclidean", "manhattan"):
        for mode in ("threshold", "recurrence_rate"):
            for dx, dy in ((1, 1), (2, 2), (3, 3), (2, 3), (3, 2), (0, 2)):
                yield {"Tx": ds[4], "Ty": 3, "dx": dx, "dy": dy, "metric": metric, "mode": mode, "dt": "float64"}
            for dim, tau in ((2, 1), (3, 2), (0, 1), (2, 0), (5, 3)):
                yield {"Tx": ds[4], "Ty": 4, "dx": 0, "dy": 0, "metric": metric, "mode": mode, "dt": "float64",
                       "dim": dim, "tau": tau}
    for dt in DTS[1:]:
        yield {"Tx": 5, "Ty": 3, "dx": 2, "dy": 2, "metric": "supremum", "mode": "threshold", "dt": dt}


@entry("CrossRecurrencePlot", g_crp)
def _e_crp(p, mk, rng, ctx):
    from pyunicorn import timeseries
    x = mk(_series(rng, p["Tx"], p["dx"], p["dt"]))
    y = mk(_series(rng, p["Ty"], p["dy"], p["dt"]))
    kw = {p["mode"]: 0.8 if p["mode"] == "threshold" else 0.3}
    if "dim" in p:
        kw.update(dim=p["dim"], tau=p["tau"])
    c = ctx.call("CrossRecurrencePlot.__init__[%s]" % p["metric"], timeseries.CrossRecurrencePlot, x, y,
                 metric=p["metric"], silence_level=3, **kw)
    if c is FAILED:
        return
    ctx.call("CrossRecurrencePlot.recurrence_matrix", c.recurrence_matrix)
    ctx.call("CrossRecurrencePlot.cross_recurrence_rate", c.cross_recurrence_rate)
    for m in ("manhattan", "euclidean", "supremum"):
        ctx.call("CrossRecurrencePlot.distance_matrix", c.distance_matrix, m)


def g_derived(tier, rng):
    ds = dims(tier, rng)
    for T in ds:
        for cls in ("RecurrenceNetwork", "JointRecurrencePlot", "JointRecurrenceNetwork",
                    "InterSystemRecurrenceNetwork"):
            for d in (0, 2):
                yield {"cls": cls, "T": T, "Ty": T, "d": d, "lag": 0}
        yield {"cls": "JointRecurrencePlot", "T": T, "Ty": T, "d": 0, "lag": 1}
        yield {"cls": "JointRecurrencePlot", "T": T, "Ty": T, "d": 0, "lag": -1}
        yield {"cls": "JointRecurrencePlot", "T": T, "Ty": T + 1, "d": 0, "lag": 0}
        yield {"cls": "JointRecurrenceNetwork", "T": T, "Ty": T, "d": 0, "lag": T}
        yield {"cls": "InterSystemRecurrenceNetwork", "T": T, "Ty": T + 2, "d": 0, "lag": 0}
        yield {"cls": "InterSystemRecurrenceNetwork", "T": T, "Ty": 1, "d": 2, "lag": 0}


@entry("derived recurrence classes", g_derived)
def _e_derived(p, mk, rng, ctx):
    from pyunicorn import timeseries
    x = mk(_series(rng, p["T"], p["d"], "float64"))
    y = mk(_series(rng, p["Ty"], p["d"], "float64"))
    cls = p["cls"]
    C = getattr(timeseries, cls)
    if cls == "RecurrenceNetwork":
        o = ctx.call(cls + ".__init__", C, x, threshold=0.8, silence_level=3)
    elif cls.startswith("Joint"):
        o = ctx.call(cls + ".__init__", C, x, y, threshold=(0.8, 0.8), lag=p["lag"], silence_level=3)
    else:
        o = ctx.call(cls + ".__init__", C, x, y, threshold=(0.8, 0.8, 0.8), silence_level=3)
    if o is FAILED:
        return
    if cls.endswith("Plot"):
        ctx.call(cls + ".recurrence_matrix", o.recurrence_matrix)
        ctx.call(cls + ".diagline_dist", o.diagline_dist)
        ctx.call(cls + ".vertline_dist", o.vertline_dist)
    else:
        ctx.call(cls + ".adjacency", lambda: o.adjacency)


def g_surr_test(tier, rng):
    for N, T in pairs(tier, rng):
        for nb in ((32,) if tier == "quick" else (32, 2)):
            yield {"N": N, "T": T, "sN": N, "sT": T, "nb": nb, "dt": "float64"}
    for T, N in some_shapes(tier, rng):
        for nb in (0, 1, 2, 3, -1):
            yield {"N": N, "T": T, "sN": N, "sT": T, "nb": nb, "dt": "float64"}
        for dN, dT in ((-1, 0), (0, -1), (1, 0), (0, 1), (-1, 1)):
            yield {"N": N, "T": T, "sN": max(N + dN, 0), "sT": max(T + dT, 0), "nb": 4, "dt": "float64"}
        yield {"N": N, "T": T, "sN": T, "sT": N, "nb": 4, "dt": "float64"}
        yield {"N": N, "T": T, "sN": N * T, "sT": 1, "nb": 4, "dt": "float64"}
        yield {"N": N, "T": T, "sN": 0, "sT": 0, "nb": 4, "dt": "float64"}
        for dt in DTS[1:]:
            yield {"N": N, "T": T, "sN": N, "sT": T, "nb": 4, "dt": dt}
        for fl in ("const", "nan", "big", "ties"):
            yield {"N": N, "T": T, "sN": N, "sT": T, "nb": 4, "dt": "float64", "fl": fl}


@entry("Surrogates.test_matrices", g_surr_test)
def _e_surr_test(p, mk, rng, ctx):
    from pyunicorn import timeseries
    S = timeseries.Surrogates
    o = mk(gen(rng, (p["N"], p["T"]), p["dt"], p.get("fl", "rand")))
    s = mk(gen(rng, (p["sN"], p["sT"]), p["dt"]))
    ctx.call("Surrogates.test_pearson_correlation", S.test_pearson_correlation, o, s)
    ctx.call("Surrogates.test_mutual_information" + ("(n_bins=0)" if p["nb"] == 0 else ""),
             S.test_mutual_information, o, s, n_bins=p["nb"])


def g_surr(tier, rng):
    for N, T in pairs(tier, rng):
        for dim, delay in ((1, 1), (2, 1), (3, 2)) if tier == "quick" else ((1, 1), (2, 1), (3, 2), (2, 2), (1, 0)):
            yield {"N": N, "T": T, "dim": dim, "delay": delay, "dt": "float64"}
    for T, N in some_shapes(tier, rng):
        for dim, delay in ((0, 1), (2, 0), (2, -1), (T, 1), (T + 1, 1), (2, T)):
            yield {"N": N, "T": T, "dim": dim, "delay": delay, "dt": "float64"}
        for dt in DTS[1:]:
            yield {"N": N, "T": T, "dim": 2, "delay": 1, "dt": dt}
        for fl in ("const", "ties"):
            yield {"N": N, "T": T, "dim": 2, "delay": 1, "dt": "float64", "fl": fl}


@entry("Surrogates.twin_surrogates", g_surr)
def _e_surr(p, mk, rng, ctx):
    from pyunicorn import timeseries
    S = timeseries.Surrogates
    data = mk(gen(rng, (p["N"], p["T"]), p["dt"], p.get("fl", "rand")))
    emb = ctx.call("Surrogates.embed_time_series_array", S.embed_time_series_array, data, p["dim"], p["delay"],
                   silence_level=3)
    if emb is not FAILED and emb.shape[0]:
        ctx.call("Surrogates.recurrence_plot", S.recurrence_plot, mk(emb[0]), 0.8, silence_level=3)
    s = ctx.call("Surrogates.__init__", S, data, silence_level=3)
    if s is FAILED:
        return
    for md in (7, 0):
        ctx.call("Surrogates.twin_surrogates", s.twin_surrogates, p["dim"], p["delay"], 0.8, min_dist=md)
    if emb is not FAILED:
        # public embedding setter, then twins() on an embedding that need not match original_data
        for shape in (emb.shape, (emb.shape[0] + 1, max(emb.shape[1] - 1, 0), emb.shape[2])):
            s2 = S(data, silence_level=3)
            s2.embedding = mk(gen(rng, shape, "float64"))
            ctx.call("Surrogates.twins", s2.twins, 0.8, min_dist=1)


def g_vg(tier, rng):
    for T in dims(tier, rng):
        for hor in (False, True):
            for mv in (False, True):
                yield {"T": T, "hor": hor, "mv": mv, "tim": "none", "dt": "float64"}
        for tim in ("ok", "short", "long", "equal", "desc"):
            yield {"T": T, "hor": False, "mv": False, "tim": tim, "dt": "float64"}
            yield {"T": T, "hor": False, "mv": True, "tim": tim, "dt": "float64"}
    for dt in DTS[1:]:
        yield {"T": 7, "hor": False, "mv": False, "tim": "none", "dt": dt}
        yield {"T": 7, "hor": True, "mv": False, "tim": "none", "dt": dt}
    for fl in ("const", "ties", "big"):
        yield {"T": 7, "hor": False, "mv": False, "tim": "none", "dt": "float64", "fl": fl}
        yield {"T": 7, "hor": True, "mv": False, "tim": "none", "dt": "float64", "fl": fl}
    yield {"T": 6, "hor": False, "mv": False, "tim": "none", "dt": "float64", "two_d": True}


@entry("VisibilityGraph", g_vg)
def _e_vg(p, mk, rng, ctx):
    from pyunicorn import timeseries
    T = p["T"]
    ts = gen(rng, (T, 1) if p.get("two_d") else (T,), p["dt"], p.get("fl", "rand"))
    if p["mv"] and ts.dtype.kind == "f" and T > 2:
        ts[T // 2] = np.nan
    tim = {"none": None, "ok": np.cumsum(rng.random_sample(T) + 0.1), "short": np.arange(max(T - 1, 0), dtype=float),
           "long": np.arange(T + 2, dtype=float), "equal": np.ones(T), "desc": -np.arange(T, dtype=float)}[p["tim"]]
    vg = ctx.call("VisibilityGraph.__init__[%s]" % ("horizontal" if p["hor"] else "natural"),
                  timeseries.VisibilityGraph, mk(ts), timings=None if tim is None else mk(tim),
                  missing_values=p["mv"], horizontal=p["hor"], silence_level=3)
    if vg is FAILED:
        return
    ctx.call("VisibilityGraph.adjacency", lambda: vg.adjacency)
    ctx.call("VisibilityGraph.retarded_local_clustering", vg.retarded_local_clustering)
    ctx.call("VisibilityGraph.advanced_local_clustering", vg.advanced_local_clustering)


# ----------------------------------------------------------------------------- main

def main():
    ap = argparse.ArgumentParser(add_help=False)
    ap.add_argument("--case", default=None)
    ap.add_argument("--cases-file", default=None)
    ap.add_argument("--only", default=None, help="development aid: keep entries whose name contains this")
    own, rest = ap.parse_known_args()
    if own.cases_file:                                   # child of the parent below
        with open(own.cases_file) as f:
            child_main(json.load(f))
    args = parse_args(rest)
    if own.case:                                         # one named case, in this process
        cases = [c for c in build_cases(args.tier, args.seed) if c["name"] in own.case.split(";")]
        if not cases:
            sys.stderr.write("no such case for tier=%s seed=%d\n" % (args.tier, args.seed))
            sys.exit(3)
        child_main(cases)
    only = None
    if args.replay:
        with open(args.replay) as f:
            w = json.load(f)
        w = w.get("witness", w)
        if w.get("entry") not in ENTRIES:
            sys.stderr.write("replay: unknown entry %r\n" % (w.get("entry"),))
            sys.exit(3)
        only = [{"name": w.get("case") or case_name(w["entry"], w["params"]), "entry": w["entry"],
                 "params": w["params"]}]
    if own.only and only is None:
        only = [c for c in build_cases(args.tier, args.seed) if own.only in c["entry"]]
    parent_main(args, only)


if __name__ == "__main__":
    main()
