#!/usr/bin/env python
"""C20 - compiled kernels never touch memory outside their arrays (bounded stand-in).

Drives every public entry point of pyunicorn that reaches a compiled kernel of
pyunicorn.{core,climate,funcnet,timeseries}._ext.numerics over array shapes with each
dimension in {0,1,2,3,small random}, N != T, more nodes than samples, and the dtypes the
Python wrappers convert (float64/float32/int64/bool, complex where it is rejected).

Two modes, chosen by the environment (not by --tier):

* sanitizer mode (LD_PRELOAD contains libclang_rt.asan): pyunicorn on PYTHONPATH is an
  AddressSanitizer+UBSan build.  Every case runs in a child process; a child that ends with
  exit code 77 / a signal / a sanitizer report on stderr is a failure `<entrypoint>/asan`.
* plain mode: same cases, also in child processes (so a crash cannot take the report down).
  Failures: `<entrypoint>/crash` (child died) and `<entrypoint>/foreign-memory`: every case is
  evaluated four times - inputs as exact-size fresh arrays and as slices of larger buffers filled
  with +1e30 / -1e30 (ints: +-max/3, bool: True/False), each after spraying the malloc free
  lists with the +1e30 / -1e30 bit pattern - and the two runs of one layout must agree
  (ints exactly, floats rtol 1e-5 / atol 1e-6, NaN==NaN; a mismatch must reproduce once).
  A result that depends on the poison was computed from memory outside the arrays.

A Python exception is an allowed rejection in both modes.  A per-case watchdog (SIGALRM with
default action) turns a hang into `skipped: timeout ...`; a hang is not a C20 violation (the drivers
avoid the argument ranges for which kernels are known to loop for ever: knn >= samples, no admissible
rewiring/swap, resampling from a distribution without mass).

Process layout: parent -> up to 8 children (`--cases-file`), each a supervisor that imports pyunicorn
once and forks a worker for its share of the cases; a worker killed by a sanitizer report, a signal or
the watchdog is replaced by a fresh fork that continues behind the fatal case, so each death costs
milliseconds and is attributed to the case (and the public call, `@@C20 STEP` markers on stderr) it
happened in.  In plain mode every case ends with flush_heap(), which pushes numpy's privately cached
blocks through free() so that glibc reports a damaged malloc header inside the guilty case.

Size ladders and histories (both modes, section "size ladders and call histories" below): every public entry point
that reaches a raw-pointer C routine - RainfallClimateNetwork.spearman_corr / constructor, MutualInfoClimateNetwork
constructor / calculate_similarity_measure / mutual_information / set_winter_only, Surrogates.test_pearson_correlation /
test_mutual_information / test_threshold_significance (+ original_distribution), ResNetwork.vertex_ / edge_current_flow_
betweenness - and CouplingAnalysis.cross_correlation / get_nearest_neighbors / mutual_information[knn] (+ information_
transfer[knn]) is driven
  (1) with one size parameter (time steps, nodes, bins, realizations, histogram bins, lags, neighbours) on the ladder
      1,2,3,7,8,9,31,32,33,255,256,257,1023,1024,1025,2047,2048,2049,4095,4096,4097,8191,8193 (capped where the output is
      quadratic: <= 2049 nodes / bins, <= 1025 nodes for network constructors and O(N^3) kernels, <= 257 for the O(N^4)
      edge betweenness; quick tier: lower caps, 2047/2048/8191 dropped on some ladders, 1023..1025 and 4095..4097 always
      kept for time steps) while the other dimensions stay at 2-3, and
  (2) through histories of 2-7 calls in ONE interpreter with growing, shrinking, equal and zigzag sizes, on the same
      object where the API allows it (one network object for spearman_corr / calculate_similarity_measure /
      mutual_information, set_winter_only toggles on one MutualInfoClimateNetwork, update_resistances on one ResNetwork,
      one CouplingAnalysis / Surrogates object) and on fresh objects sharing the module state.
Each such case starts in a fresh fork of the supervisor (pyunicorn imported, nothing called), every result is compared
with a NumPy reference of the documented estimator (specs/c20_sizes.py; float32 kernels rtol 1e-5..2e-4, current flow
rtol 1e-3, nearest-neighbour counts exact, knn MI atol 2e-3; shape / finite only for information_transfer[knn] and
original_distribution), the malloc free lists are sprayed before and flushed after every step.  Checks:
`<entry>/size-ladder-crash`, `<entry>/history-crash` (child died: signal / glibc abort; witness = all sizes of the case),
`<entry>/size-ladder-value`, `<entry>/history-value` (result differs from the reference); sanitizer mode: `<entry>/asan`.
A step that ends in a Python exception is an allowed rejection; a watchdog timeout is reported under `skipped`.
Sensitivity of this part: seeded C20-c (fixed stack scratch in _spearman_corr, wrong switch-over) 40 failures, C20-d
(mutual_information work arrays cached without the record length) 29; own edits: `double row[1024]` used for n_time < 4096
in _test_pearson_correlation_fast (caught from 2047 samples on; 1025 stays inside the frame and is invisible without
ASan), histograms of _test_mutual_information cached per N (stale n_bins), `float Ri[128]` used for N <= 256 in
_vertex_current_flow_betweenness_fast (caught at 255/256) - all reported.

Check names: `<Class.method>/asan` (sanitizer mode), `<Class.method>/crash`, `<Class.method>/foreign-memory`
(plain mode).  Two case families have a label of their own because they fail on the tree at the time of
writing (genuine C20 violations, reported, not papered over):
  * `RainfallClimateNetwork.spearman_corr(mask.shape!=anomaly.shape)` - the public method hands a mask smaller
    than `anomaly` to the raw-pointer kernel (heap-buffer-overflow READ in _spearman_corr);
  * `Surrogates.test_mutual_information(n_bins=0)` - histogram arrays of extent 0 are indexed with n_bins-1 = -1
    and 0 (heap-buffer-overflow READ+WRITE in _test_mutual_information_fast; plain build: glibc abort).

Sensitivity (scratch copies, both modes): caught `i*m+t` in _spearman_corr; removed index guard in
ResNetwork.vertex_current_flow_betweenness; `k <= n_samples` in the C histogram loop; removed surrogates
shape check in test_pearson_correlation (plain mode: only by one case); `j<=N` in the ECFB loop;
`p_mi = mi + i*n_time`; `surrogates + j*N`; hist2d allocated int32 but read as long*; spearman_rho allocated
(tmax,tmax); `boundscheck: False` in setup.py (caught at >20 entry points).

Exact recipe (verified with Debian clang 14.0.6; build ~25 s with -j4):

    rsync -a --exclude .git /repo/ /tmp/c20/asan/
    cd /tmp/c20/asan
    find src -name 'numerics*.so' -delete; find src -path '*_ext*' -name numerics.c -delete; rm -rf build
    CC=clang LDSHARED='clang -shared' \
      CFLAGS='-fsanitize=address,undefined -fno-sanitize-recover=undefined -fno-omit-frame-pointer -g -O1' \
      LDFLAGS='-fsanitize=address,undefined' /venv/bin/python setup.py build_ext --inplace -j4
    cd /verif
    PYTHONPATH=/tmp/c20/asan/src:/verif \
      LD_PRELOAD=$(clang -print-file-name=libclang_rt.asan-x86_64.so) \
      ASAN_OPTIONS=detect_leaks=0:abort_on_error=0:halt_on_error=1:exitcode=77 \
      .venv/bin/python bounded/c20.py --tier thorough --seed 0 --out /tmp/c20_asan.json
    rm -rf /tmp/c20

Plain mode:  cd /verif && PYTHONPATH=/verif .venv/bin/python bounded/c20.py --tier quick --seed 0 --out /tmp/c20.json
One case:    ... bounded/c20.py --tier quick --seed 0 --case '<case name>[;<case name>...]'   (prints the worker's JSON lines)
Some entries:... bounded/c20.py --tier quick --seed 0 --only Surrogates --out ...       (development aid)
Replay:      ... bounded/c20.py --replay FILE   (FILE: JSON with a `witness` as emitted in a failure)

Not driven: the MPI branch of (nsi_)newman_betweenness (mpi.available is False here; the serial
branch calls the same kernels with start_i=0, end_i=N).
"""
import argparse
import json
import os
import signal
import subprocess
import sys
import tempfile
import time
from concurrent.futures import ThreadPoolExecutor

import numpy as np

sys.path.insert(0, os.path.dirname(os.path.dirname(os.path.abspath(__file__))))
from bounded.common import parse_args, Report, jsonable  # noqa: E402

PROP = "C20"
MARK = "@@C20 "
SAN = "asan" in os.environ.get("LD_PRELOAD", "")
WORKERS = 8
BATCH = 24
CASE_LIMIT_S = 60 if SAN else 15        # per-case watchdog inside the child
SIZED_LIMIT_S = 240 if SAN else 20      # ... for the size-ladder / history cases (thorough tier: x4)
SAN_WORDS = ("AddressSanitizer", "runtime error:", "UndefinedBehaviorSanitizer", "LeakSanitizer")

ENTRIES = {}        # entry name -> (driver, generator)


def entry(name, gen):
    def deco(fn):
        ENTRIES[name] = (fn, gen)
        return fn
    return deco


# ----------------------------------------------------------------------------- inputs

def gen(rng, shape, dt, fl="rand"):
    """Deterministic test data.  fl: rand | const (first column/entry constant) | nan | big."""
    shape = tuple(int(s) for s in shape)
    if dt == "bool":
        return rng.random_sample(shape) < 0.5
    if dt.startswith("int"):
        return rng.randint(-3, 4, size=shape).astype(dt)
    if dt == "complex128":
        return (rng.standard_normal(shape) + 1j * rng.standard_normal(shape)).astype(dt)
    a = rng.standard_normal(shape).astype(dt)
    if a.size:
        if fl == "const":
            a[...] = 1.5
        elif fl == "const1":
            a.reshape(a.shape[0], -1)[:, 0] = 1.5
        elif fl == "nan":
            a.flat[a.size // 2] = np.nan
        elif fl == "big":
            a *= a.dtype.type(1e30)
        elif fl == "ties":
            a = np.round(a).astype(dt)
    return a


def poison_value(dtype, sign):
    dtype = np.dtype(dtype)
    if dtype.kind == "b":
        return sign > 0
    if dtype.kind in "iu":
        return sign * (np.iinfo(dtype).max // 3) if dtype.kind == "i" else np.iinfo(dtype).max // 3
    return sign * 1e30


class Mk:
    """Materialise a logical input array: exact-size fresh C array, or a slice of a poisoned buffer."""

    def __init__(self, layout, sign):
        self.layout, self.sign = layout, sign

    def __call__(self, a):
        a = np.asarray(a)
        if self.layout == "exact" or a.ndim == 0:
            return np.array(a, copy=True, order="C")
        pad = 2
        big = np.empty(tuple(s + 2 * pad for s in a.shape), dtype=a.dtype)
        big[...] = poison_value(a.dtype, self.sign)
        v = big[tuple(slice(pad, pad + s) for s in a.shape)]
        v[...] = a
        return v


_SPRAY_SIZES = list(range(1, 130)) + [160, 192, 256, 384, 512, 768, 1024, 2048, 4096, 16384]


def spray(sign):
    """Fill freed heap chunks (numpy's small-block cache and malloc's bins) with the bit pattern of
    float32(+-1e30), so that whatever a kernel reads beyond a freshly allocated array differs
    between the two runs of a case."""
    val = np.float32(sign * 1e30)
    keep = []
    for _ in range(3):
        for n in _SPRAY_SIZES:
            keep.append(np.full(n, val, dtype=np.float32))
    del keep


_FLUSH_SIZES = sorted(set(range(0, 129)) | set(range(128, 513, 4)) | set(range(512, 1025, 8)))


def flush_heap():
    """numpy parks up to 7 freed data blocks per byte size < 1024 in a private cache, so a block whose
    malloc header was damaged by an out-of-bounds write may not reach free() for a long time.  Taking 16
    blocks of every small size and dropping them again (a list is emptied from its end) pushes every
    parked block through free(), where glibc aborts on a damaged header - inside the guilty case."""
    keep = []
    for n in _FLUSH_SIZES:
        for _ in range(16):
            keep.append(np.empty(n, dtype=np.uint8))
    del keep


# ----------------------------------------------------------------------------- results

def canon(v, depth=0):
    """Nested, copy-made, comparable form of a result."""
    if isinstance(v, np.ndarray):
        return ("arr", np.array(v, copy=True))
    if isinstance(v, (np.generic,)):
        return ("arr", np.array(v))
    if isinstance(v, (bool, int, float, complex)):
        return ("arr", np.array(v))
    if v is None or isinstance(v, str):
        return ("lit", v)
    if isinstance(v, dict):
        return ("seq", [canon(v[k], depth + 1) for k in sorted(v, key=str)])
    if isinstance(v, (list, tuple)):
        if depth < 6:
            return ("seq", [canon(x, depth + 1) for x in v])
        return ("lit", repr(v))
    adj = getattr(v, "adjacency", None)
    if isinstance(adj, np.ndarray):
        return ("arr", np.array(adj, copy=True))
    return ("lit", type(v).__name__)


def same(a, b):
    if a[0] != b[0]:
        return False
    if a[0] == "lit":
        return a[1] == b[1]
    if a[0] == "seq":
        return len(a[1]) == len(b[1]) and all(same(x, y) for x, y in zip(a[1], b[1]))
    x, y = a[1], b[1]
    if x.shape != y.shape or x.dtype != y.dtype:
        return False
    if x.dtype.kind in "fc":
        with np.errstate(all="ignore"):
            return bool(np.allclose(x, y, rtol=1e-5, atol=1e-6, equal_nan=True))
    if x.dtype.kind == "O":
        return repr(x.tolist()) == repr(y.tolist())
    return bool(np.array_equal(x, y))


def brief(c):
    if c[0] == "arr":
        x = c[1]
        return "%s%s %s" % (x.dtype, list(x.shape), np.array2string(x.ravel()[:6], precision=4))
    if c[0] == "seq":
        return "[" + ", ".join(brief(x) for x in c[1][:3]) + (" ..." if len(c[1]) > 3 else "") + "]"
    return repr(c[1])


FAILED = object()


def mark(text):
    os.write(2, (MARK + text + "\n").encode())


class Ctx:
    """Collects the outcome of every public call of one run of one case."""

    def __init__(self):
        self.out = {}       # label -> list of ('ok', canon) | ('exc', type name)

    def call(self, label, fn, *a, **k):
        mark("STEP " + label)
        try:
            v = fn(*a, **k)
        except (KeyboardInterrupt, SystemExit):
            raise
        except BaseException as e:      # noqa: B902 - every Python exception is an allowed rejection
            self.out.setdefault(label, []).append(("exc", type(e).__name__))
            return FAILED
        self.out.setdefault(label, []).append(("ok", canon(v)))
        return v


def seed_all(s):
    import random
    random.seed(s)
    np.random.seed(s % (2 ** 32))


def run_once(case, layout, sign):
    fn = ENTRIES[case["entry"]][0]
    p = case["params"]
    ctx = Ctx()
    seed_all(p.get("ds", 0) + 12345)
    if not SAN:
        spray(sign)
    rng = np.random.RandomState(p.get("ds", 0))
    fn(p, Mk(layout, sign), rng, ctx)
    return ctx.out


def compare_runs(o1, o2):
    """Return list of (label, text) where two runs of the same layout disagree."""
    bad = []
    for label in sorted(set(o1) | set(o2)):
        r1, r2 = o1.get(label, []), o2.get(label, [])
        if len(r1) != len(r2):
            bad.append((label, "number of calls %d vs %d" % (len(r1), len(r2))))
            continue
        for (k1, v1), (k2, v2) in zip(r1, r2):
            if k1 != k2:
                bad.append((label, "%s vs %s" % (k1 if k1 == "ok" else v1, k2 if k2 == "ok" else v2)))
            elif k1 == "exc":
                if v1 != v2:
                    bad.append((label, "%s vs %s" % (v1, v2)))
            elif not same(v1, v2):
                bad.append((label, "+poison: %s | -poison: %s" % (brief(v1), brief(v2))))
    return bad


def child_case(case):
    """Evaluate one case (all its runs); returns the JSON-able record for the parent."""
    if case.get("kind"):
        return sized_case(case)
    layouts = ("exact", "pad")
    rec = {"name": case["name"], "entry": case["entry"], "labels": {}, "mismatch": []}
    outs = {}
    for layout in layouts:
        for sign in ((1,) if SAN else (1, -1)):
            outs[(layout, sign)] = run_once(case, layout, sign)
    for (layout, sign), o in outs.items():
        for label, rs in o.items():
            d = rec["labels"].setdefault(label, {"ok": 0, "exc": {}})
            for k, v in rs:
                if k == "ok":
                    d["ok"] += 1
                else:
                    d["exc"][v] = d["exc"].get(v, 0) + 1
    if not SAN:
        flush_heap()
        for layout in layouts:
            bad = compare_runs(outs[(layout, 1)], outs[(layout, -1)])
            if bad:     # must reproduce
                again = compare_runs(run_once(case, layout, 1), run_once(case, layout, -1))
                labels2 = {lab for lab, _ in again}
                for lab, text in bad:
                    if lab in labels2:
                        rec["mismatch"].append({"label": lab, "layout": layout, "text": text[:400]})
    return rec


def worker(cases, start, real_out, prog_fd):
    """Runs cases[start:] in a forked process; progress goes to prog_fd, records to real_out."""
    signal.signal(signal.SIGALRM, signal.SIG_DFL)       # default action: the watchdog kills this worker
    for i in range(start, len(cases)):
        case = cases[i]
        if case.get("kind") and i != start:
            return                                  # sized cases start in a fresh fork of the supervisor
        os.write(prog_fd, b"B %d\n" % i)
        mark("BEGIN " + case["name"])
        signal.alarm(int(case.get("limit", SIZED_LIMIT_S)) if case.get("kind") else CASE_LIMIT_S)
        t0 = time.time()
        try:
            rec = child_case(case)
        except (KeyboardInterrupt, SystemExit):
            raise
        except BaseException as e:      # noqa: B902 - a bug of this harness, surfaced as skipped
            import traceback
            rec = {"name": case["name"], "entry": case["entry"], "labels": {}, "mismatch": [],
                   "driver_error": "%r | %s" % (e, traceback.format_exc()[-500:])}
        signal.alarm(0)
        rec["t"] = round(time.time() - t0, 4)
        mark("END " + case["name"])
        real_out.write(json.dumps(rec) + "\n")
        real_out.flush()
        os.write(prog_fd, b"E %d\n" % i)
        if case.get("kind"):
            return                                  # ... and leave no state behind


def child_main(cases):
    """Supervisor: imports pyunicorn once, then forks a worker that runs the cases; a worker killed by a
    sanitizer report / signal / watchdog is replaced by a fresh fork that continues behind the fatal case."""
    try:
        import pyunicorn  # noqa: F401
        from pyunicorn import core, climate, funcnet, timeseries  # noqa: F401
    except BaseException as e:      # noqa: B902
        sys.stderr.write("C20 harness: cannot import pyunicorn: %r\n" % (e,))
        sys.exit(3)
    real_out = os.fdopen(os.dup(1), "w")
    devnull = open(os.devnull, "w")
    os.dup2(devnull.fileno(), 1)
    sys.stdout = devnull
    import warnings
    warnings.filterwarnings("ignore")
    np.seterr(all="ignore")
    start = 0
    while start < len(cases):
        r, w = os.pipe()
        sys.stderr.flush()
        pid = os.fork()
        if pid == 0:
            os.close(r)
            code = 0
            try:
                worker(cases, start, real_out, w)
            except SystemExit as e:
                code = e.code if isinstance(e.code, int) else 1
            except BaseException:       # noqa: B902
                import traceback
                traceback.print_exc()
                code = 3
            os._exit(code)
        os.close(w)
        prog = b""
        while True:
            chunk = os.read(r, 65536)
            if not chunk:
                break
            prog += chunk
        os.close(r)
        _, status = os.waitpid(pid, 0)
        rc = -os.WTERMSIG(status) if os.WIFSIGNALED(status) else os.WEXITSTATUS(status)
        begun = [int(x[2:]) for x in prog.decode().split("\n") if x.startswith("B ")]
        ended = {int(x[2:]) for x in prog.decode().split("\n") if x.startswith("E ")}
        if rc == 0 and begun and begun[-1] == len(cases) - 1 and begun[-1] in ended:
            break
        cur = next((i for i in begun if i not in ended), None)
        if cur is None and rc == 0 and begun:        # the worker stopped at the border of a sized case
            start = begun[-1] + 1
            continue
        if cur is None:
            sys.stderr.write("C20 harness: worker ended with rc=%s outside a case\n" % rc)
            sys.exit(3 if rc in (0, 3) else 4)
        real_out.write(json.dumps({"name": cases[cur]["name"], "entry": cases[cur]["entry"],
                                   "worker_rc": rc}) + "\n")
        real_out.flush()
        start = cur + 1
    sys.exit(0)


# ----------------------------------------------------------------------------- parent side

def san_excerpt(text):
    """The informative part of a sanitizer report."""
    lines = text.splitlines()
    keep = []
    for i, ln in enumerate(lines):
        if any(w in ln for w in SAN_WORDS) or "SUMMARY:" in ln:
            keep.append(ln.strip())
            for nxt in lines[i + 1:i + 4]:
                if nxt.lstrip().startswith(("READ", "WRITE", "#0", "#1")) or "located" in nxt:
                    keep.append(nxt.strip())
    for ln in lines:
        if "is located" in ln and ln.strip() not in keep:
            keep.append(ln.strip())
    if not keep:
        keep = [ln for ln in lines if not ln.startswith(MARK)][-6:]
    return " | ".join(keep)[:590]


def split_stderr(err):
    """-> (segments: name -> {'text','step','ended'}, order of names)"""
    segs, order, cur = {}, [], None
    for ln in err.splitlines():
        if ln.startswith(MARK):
            kind, _, rest = ln[len(MARK):].partition(" ")
            if kind == "BEGIN":
                cur = rest
                order.append(cur)
                segs[cur] = {"text": [], "step": None, "ended": False}
            elif kind == "STEP" and cur is not None:
                segs[cur]["step"] = rest
            elif kind == "END" and cur is not None:
                segs[cur]["ended"] = True
                cur = None
        elif cur is not None:
            segs[cur]["text"].append(ln)
    for s in segs.values():
        s["text"] = "\n".join(s["text"])
    return segs, order


def spawn(cases, extra_env=None):
    with tempfile.NamedTemporaryFile("w", suffix=".json", delete=False) as f:
        json.dump(cases, f)
        path = f.name
    env = dict(os.environ)
    env.update({"OPENBLAS_NUM_THREADS": "1", "OMP_NUM_THREADS": "1", "MKL_NUM_THREADS": "1",
                "PYTHONHASHSEED": "0"})
    limit = 120 + CASE_LIMIT_S + (8 if SAN else 2) * len(cases)
    if any(c.get("kind") for c in cases):
        limit = 120 + max(c.get("limit", SIZED_LIMIT_S) for c in cases) + (40 if SAN else 10) * len(cases)
    t0 = time.time()
    try:
        pr = subprocess.run([sys.executable, os.path.abspath(__file__), "--cases-file", path],
                            stdout=subprocess.PIPE, stderr=subprocess.PIPE, env=env, timeout=limit,
                            cwd=tempfile.gettempdir())
        rc, out, err = pr.returncode, pr.stdout, pr.stderr
    except subprocess.TimeoutExpired as e:
        rc, out, err = -signal.SIGALRM, e.stdout or b"", e.stderr or b""
    finally:
        os.unlink(path)
    return rc, out.decode("utf-8", "replace"), err.decode("utf-8", "replace"), time.time() - t0


def run_batch(cases):
    """Run cases in child processes; restart behind a case that killed its child.
    -> list of records: child records plus {'name','entry','died':{rc,step,detail}} / {'timeout':..}"""
    records, pending = [], list(cases)
    while pending:
        rc, out, err, _ = spawn(pending)
        if rc == 3:
            return [{"harness_error": err[-800:]}]
        done = {}
        for ln in out.splitlines():
            try:
                r = json.loads(ln)
                done[r["name"]] = r
            except ValueError:
                pass
        segs, order = split_stderr(err)
        for c in pending:
            if c["name"] in done:
                r = done[c["name"]]
                seg = segs.get(c["name"], {"text": "", "step": None})
                if "worker_rc" in r:                        # the forked worker died in this case
                    r["rc"], r["step"] = r["worker_rc"], seg["step"]
                    if r["rc"] == -signal.SIGALRM:
                        r["timeout"] = True
                    else:
                        r["died"] = (san_excerpt(seg["text"]) if seg["text"].strip()
                                     else "worker ended with rc=%s" % r["rc"])
                elif any(w in seg["text"] for w in SAN_WORDS):      # recoverable report, worker survived
                    r["san_report"] = san_excerpt(seg["text"])
                records.append(r)
        if rc == 0 and all(c["name"] in done for c in pending):
            break
        cur = next((n for n in order if n not in done), None)
        if cur is None:
            return records + [{"harness_error": "child rc=%s without a running case: %s" % (rc, err[-600:])}]
        seg = segs[cur]
        c = next(x for x in pending if x["name"] == cur)
        rec = {"name": cur, "entry": c["entry"], "step": seg["step"], "rc": rc}
        if rc == -signal.SIGALRM:
            rec["timeout"] = True
        else:
            rec["died"] = san_excerpt(seg["text"]) if seg["text"].strip() else "child ended with rc=%s" % rc
        records.append(rec)
        idx = [x["name"] for x in pending].index(cur)
        pending = [x for x in pending[idx + 1:] if x["name"] not in done]
    return records


def case_name(entry_name, params):
    return entry_name + "[" + ",".join("%s=%s" % (k, json.dumps(params[k], separators=(",", ":")))
                                       for k in sorted(params)) + "]"


def build_cases(tier, seed):
    cases, seen = [], set()
    for i, (name, (_, generator)) in enumerate(ENTRIES.items()):
        for rep in range(5 if tier == "thorough" else 1):       # thorough: five draws of the random sizes
            rng = np.random.RandomState((seed * 1000003 + i * 7919 + rep * 104729 + 17) % (2 ** 32))
            for params in generator(tier, rng):
                params = jsonable(params)
                params.setdefault("ds", int(rng.randint(0, 2 ** 31 - 1)))
                nm = case_name(name, {k: v for k, v in params.items() if k != "ds"})
                if nm in seen:
                    continue
                seen.add(nm)
                cases.append({"name": nm, "entry": name, "params": params})
    return cases


def instrumented():
    """Is the pyunicorn found on the path an ASan build? (looks for __asan_init in the .so)"""
    import importlib.util
    try:
        spec = importlib.util.find_spec("pyunicorn")
        root = os.path.dirname(spec.origin)
        import glob
        sos = glob.glob(os.path.join(root, "*", "_ext", "numerics*.so"))
        return bool(sos) and all(b"__asan_init" in open(s, "rb").read() for s in sos), root
    except Exception as e:      # noqa: B902
        return False, repr(e)


def parent_main(args, only=None):
    inst, root = instrumented()
    mode = "sanitizer (ASan+UBSan)" if SAN else "plain"
    scope = ("mode=%s, pyunicorn at %s (instrumented extensions: %s); every public entry point reaching "
             "core/climate/funcnet/timeseries _ext.numerics kernels (%d entry drivers); each array dimension in "
             "{0,1,2,3,random 4..9%s}; all (T,N) pairs incl. N>T; dtypes float64/float32/int64/bool (+complex, "
             "NaN, constant, 1e30-scaled, tied data on selected shapes); out-of-range/negative node indices, "
             "mismatched companion shapes, n_bins/knn/tau/dim/delay in {0,1,2,3,..}; inputs as exact arrays and as "
             "slices of poisoned buffers. %s" % (
                 mode, root, inst, len(ENTRIES), ", random 10..20" if args.tier == "thorough" else "",
                 "Failure = exit 77 / signal / sanitizer report of the child." if SAN else
                 "Failure = child crash, or result differing between +1e30 and -1e30 poisoned surroundings "
                 "(ints exact, floats rtol 1e-5 atol 1e-6, reproduced twice)."))
    scope += (" PLUS size ladders and call histories for the %d entry points that reach raw-pointer C routines or "
              "CouplingAnalysis kernels: one size parameter in {1,2,3,7,8,9,31,32,33,255,256,257,1023,1024,1025,2047,2048,"
              "2049,4095,4096,4097,8191,8193} (capped for quadratic outputs / O(N^3+) kernels, see docstring), other "
              "dimensions 2-3; histories of 2-7 calls with growing/shrinking/equal sizes in one interpreter on the same "
              "and on fresh objects; each case in a fresh forked interpreter, results compared with NumPy references "
              "(float32 kernels rtol 1e-5..2e-4, current flow 1e-3, neighbour counts exact); failure = child death or "
              "reference mismatch." % len(SIZED))
    rule = ("cases are generated per entry point from the seed (np.random.RandomState); a case is a (entry point, "
            "shape/dtype/argument) tuple, distinct by its name; it counts as non-trivial when at least one public "
            "call of it returned a value (was not rejected by a Python exception). evaluations = public calls made. "
            "A ladder / history case is an (entry point, sequence of sizes) tuple with seeded continuous (tie-free) data; "
            "it counts as non-trivial when at least one result of it was compared with the reference.")
    rep = Report(PROP, args, scope, rule)
    if SAN and not inst:
        rep.skip("LD_PRELOAD has the ASan runtime but the pyunicorn extensions on PYTHONPATH are not instrumented")
    if only is not None:
        cases = only
    else:
        cases = build_cases(args.tier, args.seed) + build_sized_cases(args.tier, args.seed)
    base = [c for c in cases if not c.get("kind")]
    szd = sorted((c for c in cases if c.get("kind")), key=sized_cost, reverse=True)
    # interleave entries over batches so that slow entries spread out; the sized cases (heaviest first) are dealt
    # into more, smaller batches that the 8 runner threads take one after the other
    nb = max(1, min(WORKERS, (len(base) + BATCH - 1) // BATCH))
    ns = max(1, min(3 * WORKERS, (len(szd) + 7) // 8))
    batches = [b for b in [szd[i::ns] for i in range(ns)] + [base[i::nb] for i in range(nb)] if b]
    by_name = {c["name"]: c for c in cases}
    with ThreadPoolExecutor(max_workers=WORKERS) as ex:
        results = list(ex.map(run_batch, batches))
    harness_errors = []
    if os.environ.get("C20_PROFILE"):
        prof = {}
        for recs in results:
            for r in recs:
                if "t" in r:
                    e = prof.setdefault(r["entry"], [0, 0.0])
                    e[0] += 1
                    e[1] += r["t"]
        for k, (n, t) in sorted(prof.items(), key=lambda kv: -kv[1][1]):
            sys.stderr.write("%8.2fs %5d  %s\n" % (t, n, k))
    for recs in results:
        for r in recs:
            if "harness_error" in r:
                harness_errors.append(r["harness_error"])
                continue
            c = by_name[r["name"]]
            wit = {"case": c["name"], "entry": c["entry"], "params": c["params"]}
            kind = c.get("kind")
            if kind:
                wit["kind"] = kind
            kname = {"ladder": "size-ladder", "history": "history"}.get(kind)
            if r.get("timeout"):
                rep.case(None, nontrivial=False)
                rep.skip("timeout (>%ds, hang; not a memory violation) in %s at %s" % (
                    c.get("limit", SIZED_LIMIT_S) if kind else CASE_LIMIT_S, r["name"], r.get("step")))
                continue
            if "died" in r and kind:
                rep.case(None, nontrivial=False)
                rep.fail("%s/%s" % (c["entry"], "asan" if SAN else kname + "-crash"), wit,
                         "child interpreter died, rc=%s, in %s: %s" % (r["rc"], r.get("step"), r["died"]))
                continue
            if "died" in r:
                rep.case(None, nontrivial=False)
                ep = r.get("step") or r["entry"]
                rep.fail("%s/%s" % (ep, "asan" if SAN else "crash"), wit, "rc=%s: %s" % (r["rc"], r["died"]))
                continue
            if "driver_error" in r:
                rep.skip("driver-error in %s: %s" % (r["name"], r["driver_error"]))
                continue
            ncalls = sum(d["ok"] + sum(d["exc"].values()) for d in r["labels"].values())
            anyok = any(d["ok"] for d in r["labels"].values()) and (not kind or r.get("compared", 0) > 0)
            for _ in range(max(ncalls - 1, 0)):
                rep.case(None, nontrivial=False)
            rep.case(r["name"], nontrivial=anyok,
                     sample={"case": r["name"], "outcome": {k: ("ok" if d["ok"] else "/".join(d["exc"]))
                                                            for k, d in r["labels"].items()}})
            if "san_report" in r:
                rep.fail("%s/asan" % r["entry"], wit, r["san_report"])
            for m in r["mismatch"]:
                if kind:
                    rep.fail("%s/%s-value" % (c["entry"], kname), wit, "%s, step %d, sizes %s: %s" % (
                        m["label"], m["step"], json.dumps(m["sizes"], sort_keys=True), m["text"]))
                else:
                    rep.fail("%s/foreign-memory" % m["label"], wit, "layout=%s: %s" % (m["layout"], m["text"]))
    if harness_errors:
        sys.stderr.write("C20 harness cannot run: %s\n" % harness_errors[0])
        rep.skip("harness error: " + harness_errors[0][:300])
        rep.finish()
        sys.exit(3)
    rep.finish()
    sys.exit(0)


# ----------------------------------------------------------------------------- case generators' helpers

DTS = ("float64", "float32", "int64", "bool")


def dims(tier, rng):
    d = [0, 1, 2, 3, int(rng.randint(4, 10))]
    if tier == "thorough":
        d += [int(rng.randint(4, 10)), int(rng.randint(10, 21))]
    return d


def pairs(tier, rng):
    d = dims(tier, rng)
    return [(a, b) for a in d for b in d]


def some_shapes(tier, rng):
    """a few (T, N) shapes for the dtype / data-flavour sweeps: N<T, N>T, tiny."""
    r, s = int(rng.randint(4, 10)), int(rng.randint(4, 10))
    out = [(r, 3), (3, r), (2, 2), (r, s + 1 if s == r else s)]
    if tier == "thorough":
        out += [(int(rng.randint(10, 21)), 5), (5, int(rng.randint(10, 21))), (1, r), (r, 1)]
    return out


def graph(rng, N, dens, directed=False):
    A = (rng.random_sample((N, N)) < dens).astype(np.int8)
    if N:
        np.fill_diagonal(A, 0)
    if not directed:
        A = np.triu(A, 1)
        A = A + A.T
    return A.astype(np.int8)


_CACHE = {}


def _mi_net():
    if "mi" not in _CACHE:
        from pyunicorn import climate
        _CACHE["mi"] = climate.MutualInfoClimateNetwork(
            climate.ClimateData.SmallTestData(), threshold=0.2, winter_only=False, silence_level=3)
    return _CACHE["mi"]


def _rain_net():
    if "rain" not in _CACHE:
        from pyunicorn import climate
        _CACHE["rain"] = climate.RainfallClimateNetwork(
            climate.ClimateData.SmallTestData(), threshold=0.2, silence_level=3)
    return _CACHE["rain"]


def _climate_data(p, mk, rng, ctx):
    from pyunicorn import climate, core
    T, N = p["T"], p["N"]
    grid = ctx.call("GeoGrid.__init__", core.GeoGrid, time_seq=np.arange(T, dtype=float),
                    lat_seq=np.linspace(-80, 80, N), lon_seq=np.linspace(-170, 170, N), silence_level=3)
    if grid is FAILED:
        return FAILED
    obs = mk(gen(rng, (T, N), p["dt"], p.get("fl", "rand")))
    return ctx.call("ClimateData.__init__", climate.ClimateData, observable=obs, grid=grid,
                    time_cycle=p.get("tc", 1), silence_level=3)


# ----------------------------------------------------------------------------- climate

def g_shape_dt(tier, rng):
    for T, N in pairs(tier, rng):
        yield {"T": T, "N": N, "dt": "float64"}
    for T, N in some_shapes(tier, rng):
        for dt in DTS[1:]:
            yield {"T": T, "N": N, "dt": dt}
        for fl in ("const", "const1", "nan", "big", "ties"):
            yield {"T": T, "N": N, "dt": "float64", "fl": fl}
        yield {"T": T, "N": N, "dt": "float32", "fl": "big"}


@entry("MutualInfoClimateNetwork.calculate_similarity_measure", g_shape_dt)
def _e_mi_sim(p, mk, rng, ctx):
    a = mk(gen(rng, (p["T"], p["N"]), p["dt"], p.get("fl", "rand")))
    net = _mi_net()
    ctx.call("MutualInfoClimateNetwork.calculate_similarity_measure", net.calculate_similarity_measure, a)
    if p["T"] == 3:
        ctx.call("MutualInfoClimateNetwork.mutual_information", net.mutual_information, a, dump=False)


def g_climate_ctor(tier, rng):
    for T, N in pairs(tier, rng):
        for tc in ((1,) if tier == "quick" else (1, 2)):
            yield {"T": T, "N": N, "dt": "float64", "tc": tc}
    for T, N in some_shapes(tier, rng):
        for dt in DTS[1:]:
            yield {"T": T, "N": N, "dt": dt, "tc": 1}
        yield {"T": T, "N": N, "dt": "float64", "tc": 1, "fl": "const1"}
        yield {"T": T, "N": N, "dt": "float64", "tc": T if T else 1, "wo": True}


@entry("MutualInfoClimateNetwork.__init__", g_climate_ctor)
def _e_mi_ctor(p, mk, rng, ctx):
    from pyunicorn import climate
    cd = _climate_data(p, mk, rng, ctx)
    if cd is FAILED:
        return
    ctx.call("MutualInfoClimateNetwork.__init__",
             lambda: (lambda n: (n.adjacency, n.similarity_measure()))(climate.MutualInfoClimateNetwork(
                 cd, threshold=0.1, winter_only=p.get("wo", False), silence_level=3)))


@entry("RainfallClimateNetwork.__init__", g_climate_ctor)
def _e_rain_ctor(p, mk, rng, ctx):
    from pyunicorn import climate
    cd = _climate_data(p, mk, rng, ctx)
    if cd is FAILED:
        return
    ev = (0, 1) if not p.get("wo") else (0.25, 1)
    ctx.call("RainfallClimateNetwork.__init__",
             lambda: (lambda n: (n.adjacency, n.similarity_measure()))(climate.RainfallClimateNetwork(
                 cd, threshold=0.1, event_threshold=ev, silence_level=3)))


def g_spearman(tier, rng):
    for m, T in pairs(tier, rng):
        yield {"m": m, "T": T, "dt": "float64", "mdt": "bool"}
    for T, m in some_shapes(tier, rng):
        for dt in DTS[1:]:
            yield {"m": m, "T": T, "dt": dt, "mdt": "bool"}
        for mdt in ("int8", "int64", "float64"):
            yield {"m": m, "T": T, "dt": "float64", "mdt": mdt}
        for fl in ("nan", "ties", "const"):
            yield {"m": m, "T": T, "dt": "float64", "mdt": "bool", "fl": fl}


@entry("RainfallClimateNetwork.spearman_corr", g_spearman)
def _e_spearman(p, mk, rng, ctx):
    m, T = p["m"], p["T"]
    mask = mk(gen(rng, (m, T), p["mdt"]))
    an = mk(gen(rng, (m, T), p["dt"], p.get("fl", "rand")))
    ctx.call("RainfallClimateNetwork.spearman_corr", _rain_net().spearman_corr, mask, an)
    if T == 3 or m == 3:
        ctx.call("RainfallClimateNetwork.rank_time_series", _rain_net().rank_time_series, an)
        ctx.call("RainfallClimateNetwork.calculate_top_events", _rain_net().calculate_top_events,
                 np.abs(an.astype(float)), (0, 1))


def g_spearman_mask(tier, rng):
    for T, m in some_shapes(tier, rng):
        for dm, dT in ((-1, 0), (0, -1), (1, 0), (0, 1), (-1, -1)):
            if m + dm >= 0 and T + dT >= 0:
                yield {"m": m, "T": T, "mm": m + dm, "mT": T + dT}
        yield {"m": m, "T": T, "mm": T, "mT": m}
        yield {"m": m, "T": T, "mm": 0, "mT": 0}


@entry("RainfallClimateNetwork.spearman_corr(mask.shape!=anomaly.shape)", g_spearman_mask)
def _e_spearman_mask(p, mk, rng, ctx):
    mask = mk(gen(rng, (p["mm"], p["mT"]), "bool"))
    an = mk(gen(rng, (p["m"], p["T"]), "float64"))
    ctx.call("RainfallClimateNetwork.spearman_corr(mask.shape!=anomaly.shape)",
             _rain_net().spearman_corr, mask, an)


# ----------------------------------------------------------------------------- core: Network

def g_cliq(tier, rng):
    for N in dims(tier, rng) + [int(rng.randint(6, 11))]:
        for order in (4, 5):
            for dens in (0.5, 0.9):
                yield {"N": N, "order": order, "dens": dens, "dt": "int8"}
    for dt in ("int64", "bool", "float64", "uint8"):
        yield {"N": 7, "order": 4, "dens": 0.8, "dt": dt}
        yield {"N": 6, "order": 5, "dens": 0.9, "dt": dt}
    yield {"N": 6, "order": 4, "dens": 0.8, "dt": "int8", "dir": True}


@entry("Network.local_cliquishness", g_cliq)
def _e_cliq(p, mk, rng, ctx):
    from pyunicorn import core
    A = mk(graph(rng, p["N"], p["dens"], p.get("dir", False)).astype(p["dt"]))
    net = ctx.call("Network.__init__", core.Network, adjacency=A, directed=p.get("dir", False), silence_level=3)
    if net is FAILED:
        return
    ctx.call("Network.local_cliquishness", net.local_cliquishness, p["order"])


def _node_sel(kind, N, rng):
    if kind == "none":
        return None
    if kind == "empty":
        return []
    if kind == "one":
        return [0]
    if kind == "half":
        return list(range(0, N, 2))
    if kind == "oob":
        return [0, N]
    if kind == "neg":
        return [-1]
    if kind == "dup":
        return [0, 0, max(N - 1, 0)]
    raise KeyError(kind)


def g_nsibetw(tier, rng):
    kinds = ("none", "empty", "one", "half", "oob", "neg", "dup")
    for N in dims(tier, rng):
        for dens in (0.3, 0.8):
            yield {"N": N, "dens": dens, "src": "none", "tgt": "none", "wdt": "float64"}
        for k in kinds[1:]:
            yield {"N": N, "dens": 0.5, "src": k, "tgt": "none", "wdt": "float64"}
            yield {"N": N, "dens": 0.5, "src": "none", "tgt": k, "wdt": "float64"}
    for wdt in ("float32", "int64", "bool"):
        yield {"N": 6, "dens": 0.5, "src": "half", "tgt": "none", "wdt": wdt}
    yield {"N": 5, "dens": 0.5, "src": "none", "tgt": "none", "wdt": "float64", "dir": True}


@entry("Network.nsi_betweenness", g_nsibetw)
def _e_nsibetw(p, mk, rng, ctx):
    from pyunicorn import core
    N = p["N"]
    A = mk(graph(rng, N, p["dens"], p.get("dir", False)))
    w = mk((np.abs(gen(rng, (N,), p["wdt"])) + 1).astype(p["wdt"]))
    net = ctx.call("Network.__init__", core.Network, adjacency=A, node_weights=w,
                   directed=p.get("dir", False), silence_level=3)
    if net is FAILED:
        return
    src, tgt = _node_sel(p["src"], N, rng), _node_sel(p["tgt"], N, rng)
    ctx.call("Network.nsi_betweenness", net.nsi_betweenness, sources=src, targets=tgt)
    ctx.call("Network.interregional_betweenness", net.interregional_betweenness, sources=src, targets=tgt)
    ctx.call("Network.nsi_interregional_betweenness", net.nsi_interregional_betweenness, src, tgt)


def g_newman(tier, rng):
    for N in dims(tier, rng) + [int(rng.randint(5, 9))]:
        for dens in (0.25, 0.6, 1.0):
            yield {"N": N, "dens": dens, "wdt": "float64"}
    for wdt in ("float32", "int64"):
        yield {"N": 6, "dens": 0.6, "wdt": wdt}


@entry("Network.newman_betweenness", g_newman)
def _e_newman(p, mk, rng, ctx):
    from pyunicorn import core
    N = p["N"]
    A = mk(graph(rng, N, p["dens"]))
    w = mk((np.abs(gen(rng, (N,), p["wdt"])) + 1).astype(p["wdt"]))
    net = ctx.call("Network.__init__", core.Network, adjacency=A, node_weights=w, silence_level=3)
    if net is FAILED:
        return
    ctx.call("Network.newman_betweenness", net.newman_betweenness)
    ctx.call("Network.nsi_newman_betweenness", net.nsi_newman_betweenness)
    ctx.call("Network.nsi_newman_betweenness", net.nsi_newman_betweenness, add_local_ends=True)


# ----------------------------------------------------------------------------- core: spatial / interacting / grids / resistive

def _rewire_feasible(A, edges, degree):
    """Is there an ordered pair of stored edges the geomodel kernels accept (eps huge)?  Otherwise the
    kernel's `while i < iterations` never ends - a hang, which is not C20's subject."""
    E = len(edges)
    for e1 in range(E):
        s, t = edges[e1]
        for e2 in range(E):
            k, l = edges[e2]
            if len({s, t, k, l}) == 4 and A[s, l] == 0 and A[t, k] == 0:
                if degree is None or (degree[s] == degree[k] and degree[t] == degree[l]):
                    return True
    return False


def g_rewire(tier, rng):
    for N in dims(tier, rng) + [int(rng.randint(6, 10))]:
        for model in ("I", "II", "III"):
            for it in (0, 1, 3):
                yield {"N": N, "model": model, "it": it, "dens": 0.4, "dD": 0, "ddt": "float64"}
    for model in ("I", "II", "III"):
        for dD in (-1, 1, -3):
            yield {"N": 7, "model": model, "it": 2, "dens": 0.4, "dD": dD, "ddt": "float64"}
        for ddt in ("float32", "int64", "bool"):
            yield {"N": 7, "model": model, "it": 2, "dens": 0.4, "dD": 0, "ddt": ddt}
        yield {"N": 7, "model": model, "it": -1, "dens": 0.4, "dD": 0, "ddt": "float64"}


@entry("SpatialNetwork.randomly_rewire_geomodel", g_rewire)
def _e_rewire(p, mk, rng, ctx):
    from pyunicorn import core
    N = p["N"]
    A = graph(rng, N, p["dens"])
    grid = ctx.call("Grid.__init__", core.Grid, time_seq=np.arange(3.), space_seq=mk(gen(rng, (2, N), "float64")),
                    silence_level=3)
    if grid is FAILED:
        return
    net = ctx.call("SpatialNetwork.__init__", core.SpatialNetwork, grid=grid, adjacency=mk(A), silence_level=3)
    if net is FAILED:
        return
    M = max(N + p["dD"], 0)
    D = np.abs(gen(rng, (M, M), p["ddt"]))
    D = mk((D + D.T).astype(p["ddt"]) if p["ddt"] != "bool" else D)
    it = p["it"]
    if it > 0:
        edges = np.array(net.graph.get_edgelist()).reshape(-1, 2)
        deg = net.degree() if p["model"] == "III" else None
        if not _rewire_feasible(np.asarray(net.adjacency), edges, deg):
            it = 0
    label = "SpatialNetwork.randomly_rewire_geomodel_" + p["model"]
    r = ctx.call(label, getattr(net, "randomly_rewire_geomodel_" + p["model"]), D, it, 1e9)
    if r is not FAILED:
        ctx.call(label + ":adjacency", lambda: net.adjacency)


def _lists(kind, N):
    h = N // 2
    return {
        "split": (list(range(h)), list(range(h, N))),
        "empty1": ([], list(range(N))),
        "empty2": (list(range(N)), []),
        "both-empty": ([], []),
        "overlap": (list(range(N)), list(range(N))),
        "oob": (list(range(h)), list(range(h, N)) + [N]),
        "oob1": ([N + 2] + list(range(h)), list(range(h, N))),
        "neg": ([-1] + list(range(h)), list(range(h, N))),
        "neg2": (list(range(h)), [-2] + list(range(h, N))),
        "dup": (list(range(h)) * 2, list(range(h, N)) * 2),
    }[kind]


LISTKINDS = ("split", "empty1", "empty2", "both-empty", "overlap", "oob", "oob1", "neg", "neg2", "dup")


def g_cross(tier, rng):
    for N in dims(tier, rng) + [int(rng.randint(6, 11))]:
        for dens in (0.4, 0.9):
            yield {"N": N, "dens": dens, "lk": "split", "wdt": "float64"}
        for lk in LISTKINDS[1:]:
            yield {"N": N, "dens": 0.6, "lk": lk, "wdt": "float64"}
    for wdt in ("float32", "int64", "bool"):
        yield {"N": 7, "dens": 0.6, "lk": "split", "wdt": wdt}
    yield {"N": 6, "dens": 0.6, "lk": "split", "wdt": "float64", "dir": True}


@entry("InteractingNetworks.cross_measures", g_cross)
def _e_cross(p, mk, rng, ctx):
    from pyunicorn import core
    N = p["N"]
    A = mk(graph(rng, N, p["dens"], p.get("dir", False)))
    w = mk((np.abs(gen(rng, (N,), p["wdt"])) + 1).astype(p["wdt"]))
    net = ctx.call("InteractingNetworks.__init__", core.InteractingNetworks, adjacency=A, node_weights=w,
                   directed=p.get("dir", False), silence_level=3)
    if net is FAILED:
        return
    l1, l2 = _lists(p["lk"], N)
    for m in ("cross_transitivity", "nsi_cross_transitivity", "cross_local_clustering",
              "nsi_cross_local_clustering"):
        ctx.call("InteractingNetworks." + m, getattr(net, m), l1, l2)


def g_crosslinks(tier, rng):
    for N in dims(tier, rng) + [int(rng.randint(6, 11))]:
        for lk in ("split", "empty1", "both-empty", "overlap", "oob", "neg", "dup"):
            for how in ("null", "dens", "num", "num-big", "num-neg"):
                yield {"N": N, "dens": 0.5, "lk": lk, "how": how}
            for sw in (0, 1, 2.5):
                yield {"N": N, "dens": 0.5, "lk": lk, "sw": sw}


@entry("InteractingNetworks.random_cross_links", g_crosslinks)
def _e_crosslinks(p, mk, rng, ctx):
    from pyunicorn import core
    N = p["N"]
    A = mk(graph(rng, N, p["dens"]))
    net = ctx.call("InteractingNetworks.__init__", core.InteractingNetworks, adjacency=A, silence_level=3)
    if net is FAILED:
        return
    l1, l2 = _lists(p["lk"], N)
    IN = core.InteractingNetworks
    if "how" in p:
        kw = {"null": {}, "dens": {"cross_link_density": 0.5}, "num": {"number_cross_links": 2},
              "num-big": {"number_cross_links": 10 ** 6}, "num-neg": {"number_cross_links": -3}}[p["how"]]
        ctx.call("InteractingNetworks.RandomlySetCrossLinks", IN.RandomlySetCrossLinks, net, l1, l2, **kw)
    else:
        sw = p["sw"]
        if sw:
            # the kernel's `while True` needs an admissible swap, else it never ends (hang, not C20)
            try:
                cA = net.cross_adjacency(l1, l2)
                links = np.transpose(np.nonzero(cA))
                ok = any(not (cA[a, d] or cA[c, b]) for a, b in links for c, d in links)
            except Exception:       # noqa: B902
                ok = True           # the call below is going to raise for the same reason
            if not ok:
                sw = 0
        ctx.call("InteractingNetworks.RandomlyRewireCrossLinks", IN.RandomlyRewireCrossLinks, net, l1, l2, sw)


def g_grid(tier, rng):
    for N in dims(tier, rng):
        for nd in (0, 1, 2, 3):
            yield {"N": N, "nd": nd, "dt": "float64"}
    for dt in DTS[1:]:
        yield {"N": 5, "nd": 2, "dt": dt}
    yield {"N": 5, "nd": 2, "dt": "float64", "fl": "big"}
    yield {"N": 5, "nd": 2, "dt": "float64", "fl": "nan"}


@entry("Grid.euclidean_distance", g_grid)
def _e_grid(p, mk, rng, ctx):
    from pyunicorn import core
    sp = mk(gen(rng, (p["nd"], p["N"]), p["dt"], p.get("fl", "rand")))
    g = ctx.call("Grid.__init__", core.Grid, time_seq=np.arange(4.), space_seq=sp, silence_level=3)
    if g is FAILED:
        return
    ctx.call("Grid.euclidean_distance", g.euclidean_distance)


def g_geogrid(tier, rng):
    for N in dims(tier, rng):
        for dN in (0, -1, 1):
            yield {"N": N, "dN": dN, "dt": "float64"}
    for dt in DTS[1:]:
        yield {"N": 5, "dN": 0, "dt": dt}
    yield {"N": 5, "dN": 0, "dt": "float64", "fl": "nan"}
    yield {"N": 5, "dN": 0, "dt": "float64", "fl": "big"}


@entry("GeoGrid.angular_distance", g_geogrid)
def _e_geogrid(p, mk, rng, ctx):
    from pyunicorn import core
    N = p["N"]
    lat = mk((gen(rng, (N,), p["dt"], p.get("fl", "rand")) * (30 if p["dt"].startswith("float") else 1)
              ).astype(p["dt"]))
    lon = mk((gen(rng, (max(N + p["dN"], 0),), p["dt"]) * (60 if p["dt"].startswith("float") else 1)
              ).astype(p["dt"]))
    g = ctx.call("GeoGrid.__init__", core.GeoGrid, time_seq=np.arange(4.), lat_seq=lat, lon_seq=lon,
                 silence_level=3)
    if g is FAILED:
        return
    ctx.call("GeoGrid.angular_distance", g.angular_distance)


def g_res(tier, rng):
    for N in dims(tier, rng) + [int(rng.randint(5, 9))]:
        for dens in (0.5, 1.0):
            yield {"N": N, "dens": dens, "dt": "float64"}
    for dt in ("float32", "int64", "bool", "complex128"):
        yield {"N": 5, "dens": 0.7, "dt": dt}
    yield {"N": 5, "dens": 0.7, "dt": "float64", "rs": -1}
    yield {"N": 5, "dens": 0.7, "dt": "float64", "rs": 1}


@entry("ResNetwork.current_flow_betweenness", g_res)
def _e_res(p, mk, rng, ctx):
    from pyunicorn import core
    N = p["N"]
    A = graph(rng, N, p["dens"])
    M = max(N + p.get("rs", 0), 0)
    R = np.abs(gen(rng, (M, M), "float64")) + 1
    R = R + R.T
    if M == N:
        R = R * A
    R = mk(R.astype(p["dt"]))
    net = ctx.call("ResNetwork.__init__", core.ResNetwork, R, adjacency=mk(A), silence_level=3)
    if net is FAILED:
        return
    for i in sorted({-2, -1, 0, 1, N - 1, N, N + 1, N + 7, N * N}):
        ctx.call("ResNetwork.vertex_current_flow_betweenness", net.vertex_current_flow_betweenness, i)
    ctx.call("ResNetwork.edge_current_flow_betweenness", net.edge_current_flow_betweenness)


# ----------------------------------------------------------------------------- funcnet

def g_cc(tier, rng):
    for T, N in pairs(tier, rng):
        for tau in sorted({0, 1, 2, max(T - 1, 0), T, T + 1}):
            if tier == "quick" and tau > 2 and tau not in (T - 1, T):
                continue
            yield {"T": T, "N": N, "tau": tau, "dt": "float64"}
    for T, N in some_shapes(tier, rng):
        for dt in DTS[1:]:
            yield {"T": T, "N": N, "tau": 1, "dt": dt}
        for fl in ("const", "const1", "big", "nan"):
            yield {"T": T, "N": N, "tau": 1, "dt": "float64", "fl": fl}
    yield {"T": 6, "N": 3, "tau": -1, "dt": "float64"}
    yield {"T": 200, "N": 2, "tau": 130, "dt": "float64"}      # lag does not fit int8 (finding #18)


@entry("CouplingAnalysis.cross_correlation", g_cc)
def _e_cc(p, mk, rng, ctx):
    from pyunicorn import funcnet
    data = mk(gen(rng, (p["T"], p["N"]), p["dt"], p.get("fl", "rand")))
    ca = ctx.call("CouplingAnalysis.__init__", funcnet.CouplingAnalysis, data, silence_level=3)
    if ca is FAILED:
        return
    r = ctx.call("CouplingAnalysis.cross_correlation[max]", ca.cross_correlation, tau_max=p["tau"], lag_mode="max")
    ctx.call("CouplingAnalysis.cross_correlation[all]", ca.cross_correlation, tau_max=p["tau"], lag_mode="all")
    if r is not FAILED:
        ctx.call("CouplingAnalysis.symmetrize_by_absmax", ca.symmetrize_by_absmax, r[0], r[1])


def g_symm(tier, rng):
    for N in dims(tier, rng):
        for dS, dL in ((0, 0), (-1, 0), (0, -1), (1, 1), (-1, -1)):
            if N + dS >= 0 and N + dL >= 0:
                yield {"N": N, "S": N + dS, "L": N + dL, "sdt": "float64", "ldt": "int8"}
    for sdt, ldt in (("float32", "int64"), ("int64", "int8"), ("bool", "bool"), ("float64", "float64")):
        yield {"N": 4, "S": 4, "L": 4, "sdt": sdt, "ldt": ldt}
    yield {"N": 4, "S": 4, "L": 4, "sdt": "float64", "ldt": "int8", "rect": True}


@entry("CouplingAnalysis.symmetrize_by_absmax", g_symm)
def _e_symm(p, mk, rng, ctx):
    from pyunicorn import funcnet
    ca = ctx.call("CouplingAnalysis.__init__", funcnet.CouplingAnalysis,
                  mk(gen(rng, (5, p["N"]), "float64")), silence_level=3)
    if ca is FAILED:
        return
    S = mk(gen(rng, (p["S"], p["S"] - (1 if p.get("rect") else 0)), p["sdt"]))
    L = mk(gen(rng, (p["L"], p["L"]), p["ldt"]))
    ctx.call("CouplingAnalysis.symmetrize_by_absmax", ca.symmetrize_by_absmax, S, L)


def g_knn(tier, rng):
    Ts = [0, 1, 2, 3, 4, int(rng.randint(6, 13))] + ([int(rng.randint(13, 31))] if tier == "thorough" else [])
    for T in Ts:
        for N in (1, 2, 3) if tier == "quick" else (0, 1, 2, 3, 5):
            for tau in (0, 1, 2):
                for knn in (1, 2, 3):
                    yield {"T": T, "N": N, "tau": tau, "knn": knn, "past": 1, "dt": "float64"}
    for dt in DTS[1:]:
        yield {"T": 9, "N": 2, "tau": 1, "knn": 2, "past": 1, "dt": dt}
    for past in (0, 2, 3):
        yield {"T": 10, "N": 2, "tau": 1, "knn": 2, "past": past, "dt": "float64"}
    yield {"T": 10, "N": 2, "tau": 1, "knn": 2, "past": 1, "dt": "float64", "fl": "ties"}
    yield {"T": 10, "N": 2, "tau": 1, "knn": 2, "past": 1, "dt": "float64", "fl": "const1"}


@entry("CouplingAnalysis.knn_estimators", g_knn)
def _e_knn(p, mk, rng, ctx):
    from pyunicorn import funcnet
    T, tau, knn, past = p["T"], p["tau"], p["knn"], p["past"]
    data = mk(gen(rng, (T, p["N"]), p["dt"], p.get("fl", "rand")))
    ca = ctx.call("CouplingAnalysis.__init__", funcnet.CouplingAnalysis, data, silence_level=3)
    if ca is FAILED:
        return
    # _get_nearest_neighbors loops for ever unless 1 <= k < number of samples (hang, not C20): keep to that
    if knn < T - tau:
        for lm in ("max", "all"):
            ctx.call("CouplingAnalysis.mutual_information[knn]", ca.mutual_information,
                     tau_max=tau, estimator="knn", knn=knn, lag_mode=lm)
    else:
        ctx.call("CouplingAnalysis.mutual_information[gauss]", ca.mutual_information,
                 tau_max=tau, estimator="gauss", lag_mode="max")
    if knn < T - tau - past:
        for cm in ("ity", "mit"):
            ctx.call("CouplingAnalysis.information_transfer[knn]", ca.information_transfer,
                     tau_max=tau, estimator="knn", knn=knn, past=past, cond_mode=cm, lag_mode="all")
    else:
        ctx.call("CouplingAnalysis.information_transfer[gauss]", ca.information_transfer,
                 tau_max=tau, estimator="gauss", past=past, lag_mode="max")


def g_gnn(tier, rng):
    for T in dims(tier, rng):
        for dim in (0, 1, 2, 3, 4):
            for k in (1, 2, 3):
                if k < T:       # k >= T (and k = 0) never terminates
                    yield {"T": T, "dim": dim, "k": k, "xyz": "01", "std": True, "dt": "float64"}
    for xyz in ("0", "1", "012", "0012", "0112", "10", "02", "22"):
        yield {"T": 7, "dim": len(xyz), "k": 2, "xyz": xyz, "std": True, "dt": "float64"}
        yield {"T": 7, "dim": 4, "k": 2, "xyz": xyz, "std": False, "dt": "float64"}
    for dt in DTS[1:]:
        yield {"T": 7, "dim": 2, "k": 2, "xyz": "01", "std": True, "dt": dt}
        yield {"T": 7, "dim": 2, "k": 2, "xyz": "01", "std": False, "dt": dt}
    yield {"T": 7, "dim": 2, "k": -1, "xyz": "01", "std": True, "dt": "float64"}
    yield {"T": 7, "dim": 3, "k": 2, "xyz": "012", "std": True, "dt": "float64", "fl": "ties"}


@entry("CouplingAnalysis.get_nearest_neighbors", g_gnn)
def _e_gnn(p, mk, rng, ctx):
    from pyunicorn import funcnet
    arr = mk(gen(rng, (p["dim"], p["T"]), p["dt"], p.get("fl", "rand")))
    xyz = np.array([int(c) for c in p["xyz"]])
    ctx.call("CouplingAnalysis.get_nearest_neighbors", funcnet.CouplingAnalysis.get_nearest_neighbors,
             array=arr, xyz=xyz, k=p["k"], standardize=p["std"])


# ----------------------------------------------------------------------------- timeseries

def _series(rng, T, d, dt, fl="rand", nan_at=()):
    a = gen(rng, (T,) if d == 0 else (T, d), dt, fl)
    if len(nan_at) and a.dtype.kind == "f" and T:
        for i in nan_at:
            if i < T:
                a[i] = np.nan
    return a


RP_MODES = (("threshold", 0.8), ("threshold", 0.0), ("threshold_std", 0.5), ("recurrence_rate", 0.3),
            ("local_recurrence_rate", 0.3), ("adaptive_neighborhood_size", 2))


def g_rp(tier, rng):
    ds = dims(tier, rng)
    for T in ds:
        for d in (0, 1, 2, 3):
            for mi, (mode, val) in enumerate(RP_MODES):
                if tier == "quick" and d in (1, 3) and mi not in (0, 5):
                    continue
                yield {"T": T, "d": d, "mode": mode, "val": val, "metric": ("supremum", "euclidean", "manhattan")[mi % 3],
                       "dt": "float64"}
    r = ds[4]
    for metric in ("supremum", "euclidean", "manhattan"):
        for T in (1, 2, 3, r):
            for dim, tau in ((1, 1), (2, 1), (3, 2), (2, 0), (0, 1), (3, T), (T + 1, 1)):
                yield {"T": T, "d": 0, "mode": "threshold", "val": 0.8, "metric": metric, "dt": "float64",
                       "dim": dim, "tau": tau}
    for T in (0, 1, 2, 3, r):
        for mv in (True,):
            for sp in (False, True):
                yield {"T": T, "d": 0, "mode": "threshold", "val": 0.8, "metric": "supremum", "dt": "float64",
                       "mv": mv, "sparse": sp, "nan": [1, T - 1]}
                yield {"T": T, "d": 2, "mode": "threshold", "val": 0.8, "metric": "supremum", "dt": "float64",
                       "mv": mv, "sparse": sp, "nan": []}
        yield {"T": T, "d": 0, "mode": "threshold", "val": 0.8, "metric": "supremum", "dt": "float64",
               "sparse": True}
        yield {"T": T, "d": 0, "mode": "recurrence_rate", "val": 0.3, "metric": "supremum", "dt": "float64",
               "mv": True, "nan": [0]}
        yield {"T": T, "d": 0, "mode": "adaptive_neighborhood_size", "val": T + 2, "metric": "supremum",
               "dt": "float64"}
        yield {"T": T, "d": 0, "mode": "threshold", "val": 0.8, "metric": "supremum", "dt": "float64", "norm": True}
    for dt in DTS[1:]:
        yield {"T": r, "d": 2, "mode": "threshold", "val": 0.8, "metric": "supremum", "dt": dt}
    for fl in ("const", "ties", "big"):
        yield {"T": r, "d": 0, "mode": "adaptive_neighborhood_size", "val": 2, "metric": "supremum",
               "dt": "float64", "fl": fl}
        yield {"T": r, "d": 0, "mode": "threshold", "val": 0.8, "metric": "supremum", "dt": "float64", "fl": fl}


@entry("RecurrencePlot", g_rp)
def _e_rp(p, mk, rng, ctx):
    from pyunicorn import timeseries
    ts = mk(_series(rng, p["T"], p["d"], p["dt"], p.get("fl", "rand"), p.get("nan", ())))
    kw = {p["mode"]: p["val"]}
    if "dim" in p:
        kw.update(dim=p["dim"], tau=p["tau"])
    rp = ctx.call("RecurrencePlot.__init__[%s]" % p["mode"], timeseries.RecurrencePlot, ts, metric=p["metric"],
                  normalize=p.get("norm", False), missing_values=p.get("mv", False),
                  sparse_rqa=p.get("sparse", False), silence_level=3, **kw)
    if rp is FAILED:
        return
    ctx.call("RecurrencePlot.recurrence_matrix", rp.recurrence_matrix)
    for m in ("diagline_dist", "vertline_dist", "white_vertline_dist", "recurrence_rate", "rqa_summary"):
        ctx.call("RecurrencePlot." + m, getattr(rp, m))
    for M in (0, 5):
        ctx.call("RecurrencePlot.resample_diagline_dist", rp.resample_diagline_dist, M)
        ctx.call("RecurrencePlot.resample_vertline_dist", rp.resample_vertline_dist, M)
    for md in (0, 1, 7, -2):
        ctx.call("RecurrencePlot.twins", rp.twins, min_dist=md)
    ctx.call("RecurrencePlot.twin_surrogates", rp.twin_surrogates, n_surrogates=2, min_dist=1)
    ctx.call("RecurrencePlot.twin_surrogates", rp.twin_surrogates, n_surrogates=0, min_dist=0)


def g_rp_setters(tier, rng):
    for T in dims(tier, rng):
        for what in ("R-small", "R-big", "R-rect", "R-int64", "R-bool", "R-float", "emb-short", "emb-long",
                     "emb-wide", "order-perm", "order-oob", "order-neg", "order-short", "order-long",
                     "mv-short", "mv-long"):
            yield {"T": T, "what": what}


@entry("RecurrencePlot(public attributes replaced)", g_rp_setters)
def _e_rp_setters(p, mk, rng, ctx):
    """R, embedding and missing_value_indices are public attributes / setters; order is an argument."""
    from pyunicorn import timeseries
    T, what = p["T"], p["what"]
    ts = mk(_series(rng, T, 0, "float64"))
    mv = what.startswith("mv")
    rp = ctx.call("RecurrencePlot.__init__[threshold]", timeseries.RecurrencePlot, ts, threshold=0.8,
                  missing_values=mv, silence_level=3)
    if rp is FAILED:
        return
    if what.startswith("order"):
        order = {"order-perm": rng.permutation(T), "order-oob": np.arange(T) + 1, "order-neg": np.arange(T) - 1,
                 "order-short": np.arange(max(T - 1, 0)), "order-long": np.arange(T + 2) % max(T, 1)}[what]
        ctx.call("RecurrencePlot.set_adaptive_neighborhood_size", rp.set_adaptive_neighborhood_size, 2,
                 order=mk(order))
        ctx.call("RecurrencePlot.recurrence_matrix", rp.recurrence_matrix)
        return
    if what.startswith("R-"):
        n = {"R-small": max(T - 1, 0), "R-big": T + 2}.get(what, T)
        R = gen(rng, (n, n - 1 if what == "R-rect" and n else n), "bool")
        R = R.astype({"R-int64": "int64", "R-bool": "bool", "R-float": "float64"}.get(what, "int8"))
        ctx.call("RecurrencePlot.R=", setattr, rp, "R", mk(R))
    elif what.startswith("emb"):
        shape = {"emb-short": (max(T - 1, 0), 1), "emb-long": (T + 2, 1), "emb-wide": (T, 3)}[what]
        ctx.call("RecurrencePlot.embedding=", setattr, rp, "embedding", mk(gen(rng, shape, "float64")))
        rp.sparse_rqa = what == "emb-wide"
    else:
        n = max(T - 1, 0) if what == "mv-short" else T + 2
        rp.missing_value_indices = mk(gen(rng, (n,), "bool"))
    for m in ("diagline_dist", "vertline_dist", "white_vertline_dist", "recurrence_rate"):
        ctx.call("RecurrencePlot." + m, getattr(rp, m))
    ctx.call("RecurrencePlot.twins", rp.twins, min_dist=0)
    ctx.call("RecurrencePlot.twin_surrogates", rp.twin_surrogates, n_surrogates=1, min_dist=0)


def g_rp_static(tier, rng):
    for T in dims(tier, rng):
        for dim in (0, 1, 2, 3):
            for tau in (0, 1, 2, -1):
                yield {"f": "embed", "T": T, "dim": dim, "tau": tau, "dt": "float64", "col": tau == 1}
        for d in (0, 1, 2, 3):
            for M in (0, 1, 4):
                yield {"f": "boot", "T": T, "d": d, "M": M, "metric": ("supremum", "euclidean", "manhattan")[d % 3],
                       "dt": "float64"}
        for M in (0, 1, 5):
            yield {"f": "rej", "T": T, "M": M, "dt": "int64"}
    for dt in DTS[1:]:
        yield {"f": "embed", "T": 6, "dim": 2, "tau": 1, "dt": dt, "col": False}
        yield {"f": "boot", "T": 6, "d": 2, "M": 3, "metric": "supremum", "dt": dt}
    for dt in ("float64", "float32"):
        yield {"f": "rej", "T": 6, "M": 4, "dt": dt}
    yield {"f": "boot", "T": 6, "d": 2, "M": -1, "metric": "supremum", "dt": "float64"}
    yield {"f": "rej", "T": 6, "M": -1, "dt": "int64"}


@entry("RecurrencePlot(static methods)", g_rp_static)
def _e_rp_static(p, mk, rng, ctx):
    from pyunicorn import timeseries
    RP = timeseries.RecurrencePlot
    if p["f"] == "embed":
        ts = mk(gen(rng, (p["T"], 1) if p["col"] else (p["T"],), p["dt"]))
        ctx.call("RecurrencePlot.embed_time_series", RP.embed_time_series, ts, p["dim"], p["tau"])
    elif p["f"] == "boot":
        emb = mk(gen(rng, (p["T"], p["d"]), p["dt"]))
        ctx.call("RecurrencePlot.bootstrap_distance_matrix", RP.bootstrap_distance_matrix, emb, p["metric"], p["M"])
    else:
        dist = np.abs(gen(rng, (p["T"],), p["dt"]))
        if dist.size:
            dist[0] = 2            # a distribution without mass never terminates (hang, not C20)
        ctx.call("RecurrencePlot.rejection_sampling", RP.rejection_sampling, mk(dist.astype(p["dt"])), p["M"])


def g_crp(tier, rng):
    ds = dims(tier, rng)
    for Tx in ds:
        for Ty in ds:
            yield {"Tx": Tx, "Ty": Ty, "dx": 0, "dy": 0, "metric": "supremum", "mode": "threshold", "dt": "float64"}
    for metric in ("supremum", "euclidean", "manhattan"):
        for mode in ("threshold", "recurrence_rate"):
            for dx, dy in ((1, 1), (2, 2), (3, 3), (2, 3), (3, 2), (0, 2)):
                yield {"Tx": ds[4], "Ty": 3, "dx": dx, "dy": dy, "metric": metric, "mode": mode, "dt": "float64"}
            for dim, tau in ((2, 1), (3, 2), (0, 1), (2, 0), (5, 3)):
                yield {"Tx": ds[4], "Ty": 4, "dx": 0, "dy": 0, "metric": metric, "mode": mode, "dt": "float64",
                       "dim": dim, "tau": tau}
    for dt in DTS[1:]:
        yield {"Tx": 5, "Ty": 3, "dx": 2, "dy": 2, "metric": "supremum", "mode": "threshold", "dt": dt}


@entry("CrossRecurrencePlot", g_crp)
def _e_crp(p, mk, rng, ctx):
    from pyunicorn import timeseries
    x = mk(_series(rng, p["Tx"], p["dx"], p["dt"]))
    y = mk(_series(rng, p["Ty"], p["dy"], p["dt"]))
    kw = {p["mode"]: 0.8 if p["mode"] == "threshold" else 0.3}
    if "dim" in p:
        kw.update(dim=p["dim"], tau=p["tau"])
    c = ctx.call("CrossRecurrencePlot.__init__[%s]" % p["metric"], timeseries.CrossRecurrencePlot, x, y,
                 metric=p["metric"], silence_level=3, **kw)
    if c is FAILED:
        return
    ctx.call("CrossRecurrencePlot.recurrence_matrix", c.recurrence_matrix)
    ctx.call("CrossRecurrencePlot.cross_recurrence_rate", c.cross_recurrence_rate)
    for m in ("manhattan", "euclidean", "supremum"):
        ctx.call("CrossRecurrencePlot.distance_matrix", c.distance_matrix, m)


def g_derived(tier, rng):
    ds = dims(tier, rng)
    for T in ds:
        for cls in ("RecurrenceNetwork", "JointRecurrencePlot", "JointRecurrenceNetwork",
                    "InterSystemRecurrenceNetwork"):
            for d in (0, 2):
                yield {"cls": cls, "T": T, "Ty": T, "d": d, "lag": 0}
        yield {"cls": "JointRecurrencePlot", "T": T, "Ty": T, "d": 0, "lag": 1}
        yield {"cls": "JointRecurrencePlot", "T": T, "Ty": T, "d": 0, "lag": -1}
        yield {"cls": "JointRecurrencePlot", "T": T, "Ty": T + 1, "d": 0, "lag": 0}
        yield {"cls": "JointRecurrenceNetwork", "T": T, "Ty": T, "d": 0, "lag": T}
        yield {"cls": "InterSystemRecurrenceNetwork", "T": T, "Ty": T + 2, "d": 0, "lag": 0}
        yield {"cls": "InterSystemRecurrenceNetwork", "T": T, "Ty": 1, "d": 2, "lag": 0}


@entry("derived recurrence classes", g_derived)
def _e_derived(p, mk, rng, ctx):
    from pyunicorn import timeseries
    x = mk(_series(rng, p["T"], p["d"], "float64"))
    y = mk(_series(rng, p["Ty"], p["d"], "float64"))
    cls = p["cls"]
    C = getattr(timeseries, cls)
    if cls == "RecurrenceNetwork":
        o = ctx.call(cls + ".__init__", C, x, threshold=0.8, silence_level=3)
    elif cls.startswith("Joint"):
        o = ctx.call(cls + ".__init__", C, x, y, threshold=(0.8, 0.8), lag=p["lag"], silence_level=3)
    else:
        o = ctx.call(cls + ".__init__", C, x, y, threshold=(0.8, 0.8, 0.8), silence_level=3)
    if o is FAILED:
        return
    if cls.endswith("Plot"):
        ctx.call(cls + ".recurrence_matrix", o.recurrence_matrix)
        ctx.call(cls + ".diagline_dist", o.diagline_dist)
        ctx.call(cls + ".vertline_dist", o.vertline_dist)
    else:
        ctx.call(cls + ".adjacency", lambda: o.adjacency)


def g_surr_test(tier, rng):
    for N, T in pairs(tier, rng):
        for nb in ((32,) if tier == "quick" else (32, 2)):
            yield {"N": N, "T": T, "sN": N, "sT": T, "nb": nb, "dt": "float64"}
    for T, N in some_shapes(tier, rng):
        for nb in (0, 1, 2, 3, -1):
            yield {"N": N, "T": T, "sN": N, "sT": T, "nb": nb, "dt": "float64"}
        for dN, dT in ((-1, 0), (0, -1), (1, 0), (0, 1), (-1, 1)):
            yield {"N": N, "T": T, "sN": max(N + dN, 0), "sT": max(T + dT, 0), "nb": 4, "dt": "float64"}
        yield {"N": N, "T": T, "sN": T, "sT": N, "nb": 4, "dt": "float64"}
        yield {"N": N, "T": T, "sN": N * T, "sT": 1, "nb": 4, "dt": "float64"}
        yield {"N": N, "T": T, "sN": 0, "sT": 0, "nb": 4, "dt": "float64"}
        for dt in DTS[1:]:
            yield {"N": N, "T": T, "sN": N, "sT": T, "nb": 4, "dt": dt}
        for fl in ("const", "nan", "big", "ties"):
            yield {"N": N, "T": T, "sN": N, "sT": T, "nb": 4, "dt": "float64", "fl": fl}


@entry("Surrogates.test_matrices", g_surr_test)
def _e_surr_test(p, mk, rng, ctx):
    from pyunicorn import timeseries
    S = timeseries.Surrogates
    o = mk(gen(rng, (p["N"], p["T"]), p["dt"], p.get("fl", "rand")))
    s = mk(gen(rng, (p["sN"], p["sT"]), p["dt"]))
    ctx.call("Surrogates.test_pearson_correlation", S.test_pearson_correlation, o, s)
    ctx.call("Surrogates.test_mutual_information" + ("(n_bins=0)" if p["nb"] == 0 else ""),
             S.test_mutual_information, o, s, n_bins=p["nb"])


def g_surr(tier, rng):
    for N, T in pairs(tier, rng):
        for dim, delay in ((1, 1), (2, 1), (3, 2)) if tier == "quick" else ((1, 1), (2, 1), (3, 2), (2, 2), (1, 0)):
            yield {"N": N, "T": T, "dim": dim, "delay": delay, "dt": "float64"}
    for T, N in some_shapes(tier, rng):
        for dim, delay in ((0, 1), (2, 0), (2, -1), (T, 1), (T + 1, 1), (2, T)):
            yield {"N": N, "T": T, "dim": dim, "delay": delay, "dt": "float64"}
        for dt in DTS[1:]:
            yield {"N": N, "T": T, "dim": 2, "delay": 1, "dt": dt}
        for fl in ("const", "ties"):
            yield {"N": N, "T": T, "dim": 2, "delay": 1, "dt": "float64", "fl": fl}


@entry("Surrogates.twin_surrogates", g_surr)
def _e_surr(p, mk, rng, ctx):
    from pyunicorn import timeseries
    S = timeseries.Surrogates
    data = mk(gen(rng, (p["N"], p["T"]), p["dt"], p.get("fl", "rand")))
    emb = ctx.call("Surrogates.embed_time_series_array", S.embed_time_series_array, data, p["dim"], p["delay"],
                   silence_level=3)
    if emb is not FAILED and emb.shape[0]:
        ctx.call("Surrogates.recurrence_plot", S.recurrence_plot, mk(emb[0]), 0.8, silence_level=3)
    s = ctx.call("Surrogates.__init__", S, data, silence_level=3)
    if s is FAILED:
        return
    for md in (7, 0):
        ctx.call("Surrogates.twin_surrogates", s.twin_surrogates, p["dim"], p["delay"], 0.8, min_dist=md)
    if emb is not FAILED:
        # public embedding setter, then twins() on an embedding that need not match original_data
        for shape in (emb.shape, (emb.shape[0] + 1, max(emb.shape[1] - 1, 0), emb.shape[2])):
            s2 = S(data, silence_level=3)
            s2.embedding = mk(gen(rng, shape, "float64"))
            ctx.call("Surrogates.twins", s2.twins, 0.8, min_dist=1)


def g_vg(tier, rng):
    for T in dims(tier, rng):
        for hor in (False, True):
            for mv in (False, True):
                yield {"T": T, "hor": hor, "mv": mv, "tim": "none", "dt": "float64"}
        for tim in ("ok", "short", "long", "equal", "desc"):
            yield {"T": T, "hor": False, "mv": False, "tim": tim, "dt": "float64"}
            yield {"T": T, "hor": False, "mv": True, "tim": tim, "dt": "float64"}
    for dt in DTS[1:]:
        yield {"T": 7, "hor": False, "mv": False, "tim": "none", "dt": dt}
        yield {"T": 7, "hor": True, "mv": False, "tim": "none", "dt": dt}
    for fl in ("const", "ties", "big"):
        yield {"T": 7, "hor": False, "mv": False, "tim": "none", "dt": "float64", "fl": fl}
        yield {"T": 7, "hor": True, "mv": False, "tim": "none", "dt": "float64", "fl": fl}
    yield {"T": 6, "hor": False, "mv": False, "tim": "none", "dt": "float64", "two_d": True}


@entry("VisibilityGraph", g_vg)
def _e_vg(p, mk, rng, ctx):
    from pyunicorn import timeseries
    T = p["T"]
    ts = gen(rng, (T, 1) if p.get("two_d") else (T,), p["dt"], p.get("fl", "rand"))
    if p["mv"] and ts.dtype.kind == "f" and T > 2:
        ts[T // 2] = np.nan
    tim = {"none": None, "ok": np.cumsum(rng.random_sample(T) + 0.1), "short": np.arange(max(T - 1, 0), dtype=float),
           "long": np.arange(T + 2, dtype=float), "equal": np.ones(T), "desc": -np.arange(T, dtype=float)}[p["tim"]]
    vg = ctx.call("VisibilityGraph.__init__[%s]" % ("horizontal" if p["hor"] else "natural"),
                  timeseries.VisibilityGraph, mk(ts), timings=None if tim is None else mk(tim),
                  missing_values=p["mv"], horizontal=p["hor"], silence_level=3)
    if vg is FAILED:
        return
    ctx.call("VisibilityGraph.adjacency", lambda: vg.adjacency)
    ctx.call("VisibilityGraph.retarded_local_clustering", vg.retarded_local_clustering)
    ctx.call("VisibilityGraph.advanced_local_clustering", vg.advanced_local_clustering)


# ----------------------------------------------------------------------------- size ladders and call histories
#
# Every public entry point that reaches one of the raw-pointer C routines (and CouplingAnalysis' typed-buffer kernels)
# is driven (1) over a *size ladder*: one size parameter (time steps, nodes, bins, realizations, lags, neighbours)
# runs through values around powers of two and usual buffer limits while the other dimensions stay tiny, and
# (2) through *histories*: several calls in one interpreter with growing, shrinking and equal sizes, on the same
# object where the API allows it and on fresh objects that share the module state.  Every sized case starts in a
# fresh fork of a supervisor that has imported pyunicorn but called nothing, every result is compared with an
# independent NumPy reference (specs/c20_sizes.py), the malloc free lists are sprayed before and flushed after
# every step, and a dead child is the failure `<entry>/size-ladder-crash` / `<entry>/history-crash`.

LADDER = (1, 2, 3, 7, 8, 9, 31, 32, 33, 255, 256, 257, 1023, 1024, 1025, 2047, 2048, 2049, 4095, 4096, 4097,
          8191, 8193)
SIZED = {}          # entry name -> (op, ladder generator, history generator)


def sized(name, ladder_gen, history_gen):
    def deco(fn):
        SIZED[name] = (fn, ladder_gen, history_gen)
        return fn
    return deco


def lad(cap=None, lo=1, tier="thorough", thin=False):
    """ladder values in [lo, cap]; `thin` drops the outer members of the triples above 1025 in quick tier
    (1023/1024/1025 and 4095/4096/4097 always stay)."""
    v = [x for x in LADDER if x >= lo and (cap is None or x <= cap)]
    if thin and tier == "quick":
        v = [x for x in v if x not in (2047, 2048, 8191)]
    return v


class Chk:
    """Outcome of the public calls and reference comparisons of one step of a sized case."""

    def __init__(self, rec, si, sz):
        self.rec, self.si, self.sz = rec, si, sz

    def call(self, label, fn, *a, **k):
        mark("STEP %s step=%d sizes=%s" % (label, self.si, json.dumps(self.sz, sort_keys=True)))
        d = self.rec["labels"].setdefault(label, {"ok": 0, "exc": {}})
        try:
            v = fn(*a, **k)
        except (KeyboardInterrupt, SystemExit):
            raise
        except BaseException as e:      # noqa: B902 - every Python exception is an allowed rejection
            n = type(e).__name__
            d["exc"][n] = d["exc"].get(n, 0) + 1
            return FAILED
        d["ok"] += 1
        return v

    def bad(self, label, text):
        self.rec["mismatch"].append({"label": label, "step": self.si, "sizes": self.sz, "text": str(text)[:400]})

    def require(self, label, cond, text):
        self.rec["compared"] += 1
        if not cond:
            self.bad(label, text)
        return bool(cond)

    def shape(self, label, got, shape, dtype=None):
        ok = isinstance(got, np.ndarray) and got.shape == tuple(shape) and (dtype is None or got.dtype == dtype)
        return self.require(label, ok, "result %s, expected %s%s" % (
            "%s%s" % (got.dtype, list(got.shape)) if isinstance(got, np.ndarray) else type(got).__name__,
            dtype or "", list(shape)))

    def value(self, label, got, want, rtol, atol, what=""):
        """got ~ want (NaN == NaN); want None: nothing to compare."""
        if want is None:
            return True
        got = np.asarray(got, dtype=float)
        want = np.asarray(want, dtype=float)
        if got.shape != want.shape:
            return self.require(label, False, "%s shape %s vs reference %s" % (what, got.shape, want.shape))
        with np.errstate(all="ignore"):
            okm = np.isclose(got, want, rtol=rtol, atol=atol, equal_nan=True)
        if okm.all():
            self.rec["compared"] += 1
            return True
        idx = np.argwhere(~okm)
        first = tuple(int(x) for x in idx[0])
        return self.require(label, False, "%s differs from the NumPy reference at %d of %d entries; first %s: got %r, "
                            "reference %r (rtol %g atol %g)" % (what, len(idx), got.size, list(first),
                                                                 float(got[first]), float(want[first]), rtol, atol))


def sized_case(case):
    p = case["params"]
    fn = SIZED[case["entry"]][0]
    rec = {"name": case["name"], "entry": case["entry"], "kind": case["kind"], "labels": {}, "mismatch": [],
           "compared": 0}
    st = {}
    for si, sz in enumerate(p["steps"]):
        seed_all(p["ds"] + si)
        rng = np.random.RandomState((p["ds"] + 7919 * si) % (2 ** 32))
        if not SAN:
            spray(1 if si % 2 == 0 else -1)
        fn(sz, rng, st, Chk(rec, si, sz))
        if not SAN:
            flush_heap()
    return rec


def _sample(rng, n, k, always=()):
    """up to k distinct indices of range(n), `always` included"""
    if n <= k:
        return list(range(n))
    s = set(int(x) for x in always if 0 <= x < n)
    s.update(int(x) for x in rng.choice(n, size=k, replace=False)[:max(k - len(s), 0)])
    return sorted(s)


def _pairs(rng, n, k):
    """all ordered pairs of range(n) (with the diagonal) if there are at most k, else k random ones + corners"""
    if n * n <= k:
        return [(i, j) for i in range(n) for j in range(n)]
    ps = {(0, n - 1), (n - 1, 0), (n - 1, n - 2), (0, 0), (n - 1, n - 1), (1, 0)}
    while len(ps) < k:
        ps.add((int(rng.randint(n)), int(rng.randint(n))))
    return sorted(ps)


def hist_sizes(tier, rng, key, small, large, base, n_random=0):
    """Histories over one size parameter `key`: grow / shrink / equal / zigzag; `base` holds the other sizes."""
    out = []
    for s_, l_ in zip(small, large):
        out.append(("grow", [dict(base, **{key: s_}), dict(base, **{key: l_})]))
        out.append(("shrink", [dict(base, **{key: l_}), dict(base, **{key: s_})]))
        out.append(("equal", [dict(base, **{key: l_}), dict(base, **{key: l_})]))
    zz = [small[0], large[0], small[-1], large[-1], small[0], large[0], large[0]]
    out.append(("zigzag", [dict(base, **{key: v}) for v in zz]))
    pool = [v for v in LADDER if min(small) <= v <= max(large)]
    for _ in range(3 * n_random if tier == "thorough" else 0):
        seq = [int(rng.choice(pool)) for _ in range(5)]
        out.append(("random", [dict(base, **{key: v}) for v in seq]))
    return out


def coupled(rng, T, N):
    """continuous (tie-free) series [T, N] with a common component, so that dependence measures are not ~0"""
    x = rng.standard_normal((T, N))
    return x + 0.8 * rng.standard_normal((T, 1)) * np.linspace(0.5, 1.5, N)[None, :]


# ---- RainfallClimateNetwork.spearman_corr

def _l_spearman(tier):
    for T in lad(tier=tier):
        for m in (2, 3):
            yield {"m": m, "T": T}
    for m in lad(cap=2049 if tier == "thorough" else 1025, tier=tier, thin=True):
        for T in (2, 3):
            yield {"m": m, "T": T}


def _h_spearman(tier, rng):
    for obj in ("same", "fresh"):
        for kind, steps in hist_sizes(tier, rng, "T", (8, 33, 300), (1025, 4097, 2049), {"m": 3, "obj": obj}, 3):
            yield kind, steps
    for kind, steps in hist_sizes(tier, rng, "m", (2, 9), (257, 33), {"T": 5, "obj": "same"}, 2):
        yield kind, steps


@sized("RainfallClimateNetwork.spearman_corr", _l_spearman, _h_spearman)
def _s_spearman(sz, rng, st, chk):
    from pyunicorn import climate
    from specs import c20_sizes as ref
    lab = "RainfallClimateNetwork.spearman_corr"
    m, T = sz["m"], sz["T"]
    if sz.get("obj") == "fresh" or "net" not in st:
        st["net"] = climate.RainfallClimateNetwork(climate.ClimateData.SmallTestData(), threshold=0.2,
                                                   silence_level=3)
    mask = rng.random_sample((m, T)) < 0.6
    an = rng.standard_normal((m, T))
    got = chk.call(lab, st["net"].spearman_corr, mask.copy(), an.copy())
    if got is FAILED:
        return
    if not chk.shape(lab, got, (m, m), np.float32):
        return
    rows = _sample(rng, m, 40, (0, m - 1))
    chk.value(lab, got[rows], ref.spearman_rows(mask, an, rows), 1e-5, 2e-6, "spearman_rho rows %s.." % rows[:4])
    chk.require(lab, np.array_equal(got, got.T, equal_nan=True), "spearman_rho is not symmetric")


# ---- RainfallClimateNetwork.__init__

def _l_rain_ctor(tier):
    for T in lad(tier=tier, lo=2):
        yield {"T": T, "N": 3, "tc": 1}
    for T in lad(tier=tier, lo=31, thin=True):
        yield {"T": T, "N": 2, "tc": 12}
    for N in lad(cap=1025 if tier == "thorough" else 257, lo=2, tier=tier):
        yield {"T": 4, "N": N, "tc": 1}


def _h_rain_ctor(tier, rng):
    for kind, steps in hist_sizes(tier, rng, "T", (10, 40), (2000, 4097), {"N": 3, "tc": 1}, 2):
        yield kind, steps
    for kind, steps in hist_sizes(tier, rng, "N", (2, 5), (33, 9), {"T": 6, "tc": 1}, 1):
        yield kind, steps


def _geo_data(chk, obs, tc):
    from pyunicorn import climate, core
    T, N = obs.shape
    grid = chk.call("GeoGrid.__init__", core.GeoGrid, time_seq=np.arange(T, dtype=float),
                    lat_seq=np.linspace(-80, 80, N), lon_seq=np.linspace(-170, 170, N), silence_level=3)
    if grid is FAILED:
        return FAILED
    return chk.call("ClimateData.__init__", climate.ClimateData, observable=obs.copy(), grid=grid, time_cycle=tc,
                    silence_level=3)


@sized("RainfallClimateNetwork.__init__", _l_rain_ctor, _h_rain_ctor)
def _s_rain_ctor(sz, rng, st, chk):
    from pyunicorn import climate
    from specs import c20_sizes as ref
    lab = "RainfallClimateNetwork.__init__"
    T, N, tc = sz["T"], sz["N"], sz["tc"]
    scale, offset = 37265, 1e-7
    obs = np.abs(rng.standard_normal((T, N))) + 0.01
    if T >= 4:                      # dry days: rainfall exactly 0, at most one per node (ranks stay tie-free)
        obs[1, 0] = -offset
        obs[1, min(1, N - 1)] = -offset
        obs[T - 1, N - 1] = -offset
    cd = _geo_data(chk, obs, tc)
    if cd is FAILED:
        return
    got = chk.call(lab, lambda: np.array(climate.RainfallClimateNetwork(
        cd, threshold=0.1, scale_fac=scale, offset=offset, silence_level=3).similarity_measure()))
    if got is FAILED:
        return
    if not chk.shape(lab, got, (N, N)):
        return
    mask, an = ref.rainfall_inputs(obs, tc, scale, offset)
    rows = _sample(rng, N, 40, (0, N - 1))
    # ClimateNetwork stores the absolute value of the similarity measure
    chk.value(lab, got[rows], np.abs(ref.spearman_rows(mask, an, rows)), 1e-5, 2e-6,
              "similarity_measure rows %s.." % rows[:4])


# ---- MutualInfoClimateNetwork.calculate_similarity_measure / mutual_information

def _l_mi(tier):
    for T in lad(tier=tier, lo=2):
        for N in (2, 3):
            yield {"T": T, "N": N}
    for N in lad(cap=1025 if tier == "thorough" else 257, lo=2, tier=tier):
        yield {"T": 3, "N": N}


def _h_mi(tier, rng):
    for obj in ("same", "fresh"):
        for kind, steps in hist_sizes(tier, rng, "T", (8, 40, 300), (1025, 400, 4097), {"N": 3, "obj": obj}, 3):
            yield kind, steps
    for kind, steps in hist_sizes(tier, rng, "N", (2, 9), (33, 65), {"T": 7, "obj": "same"}, 2):
        yield kind, steps
    yield "grow-nodes-and-samples", [{"T": 10, "N": 30, "obj": "same"}, {"T": 40, "N": 30, "obj": "same"},
                                     {"T": 400, "N": 30, "obj": "same"}, {"T": 40, "N": 31, "obj": "same"}]


def _mi_check(chk, lab, got, anomaly, rng):
    from specs import c20_sizes as ref
    N = anomaly.shape[1]
    if not chk.shape(lab, got, (N, N), np.float32):
        return
    ps = _pairs(rng, N, 150)
    want = ref.climate_mi_pairs(anomaly, ps)
    chk.value(lab, np.array([got[i, j] for i, j in ps]), want, 2e-4, 1e-4, "mutual information at pairs %s.." % ps[:3])
    chk.require(lab, bool(np.isfinite(got).all()) and np.array_equal(got, got.T), "matrix not finite / not symmetric")


def _mi_direct(method):
    def op(sz, rng, st, chk):
        from pyunicorn import climate
        lab = "MutualInfoClimateNetwork." + method
        T, N = sz["T"], sz["N"]
        if sz.get("obj") == "fresh" or "net" not in st:
            st["net"] = climate.MutualInfoClimateNetwork(climate.ClimateData.SmallTestData(), threshold=0.2,
                                                         winter_only=False, silence_level=3)
        an = coupled(rng, T, N)
        if method == "mutual_information":
            got = chk.call(lab, st["net"].mutual_information, an.copy(), dump=False)
        else:
            got = chk.call(lab, st["net"].calculate_similarity_measure, an.copy())
        if got is not FAILED:
            _mi_check(chk, lab, got, an, rng)
    return op


sized("MutualInfoClimateNetwork.calculate_similarity_measure", _l_mi, _h_mi)(_mi_direct("calculate_similarity_measure"))
sized("MutualInfoClimateNetwork.mutual_information", _l_mi, _h_mi)(_mi_direct("mutual_information"))


# ---- MutualInfoClimateNetwork.__init__ / set_winter_only

def _l_mi_ctor(tier):
    for T in lad(tier=tier, lo=2):
        yield {"T": T, "N": 3, "tc": 1, "wo": False}
    for T in lad(tier=tier, lo=31):
        yield {"T": T, "N": 2, "tc": 12, "wo": True}
    for N in lad(cap=1025 if tier == "thorough" else 257, lo=2, tier=tier):
        yield {"T": 4, "N": N, "tc": 1, "wo": False}


def _h_mi_ctor(tier, rng):
    for kind, steps in hist_sizes(tier, rng, "T", (12, 60), (240, 4097), {"N": 4, "tc": 1, "wo": False}, 2):
        yield kind, steps
    for kind, steps in hist_sizes(tier, rng, "T", (24, 60), (240, 1200), {"N": 30, "tc": 12, "wo": True}, 1):
        yield kind, steps
    for kind, steps in hist_sizes(tier, rng, "N", (2, 5), (33, 9), {"T": 24, "tc": 12, "wo": False}, 1):
        yield kind, steps


def _mi_anomaly(obs, tc, wo):
    from specs import c20_sizes as ref
    an = ref.phase_anomaly(obs, tc)
    return an[ref.winter_indices(obs.shape[0], tc)] if wo else an


@sized("MutualInfoClimateNetwork.__init__", _l_mi_ctor, _h_mi_ctor)
def _s_mi_ctor(sz, rng, st, chk):
    from pyunicorn import climate
    lab = "MutualInfoClimateNetwork.__init__"
    T, N, tc, wo = sz["T"], sz["N"], sz["tc"], sz["wo"]
    obs = coupled(rng, T, N)
    cd = _geo_data(chk, obs, tc)
    if cd is FAILED:
        return
    got = chk.call(lab, lambda: np.array(climate.MutualInfoClimateNetwork(
        cd, threshold=0.1, winter_only=wo, silence_level=3).similarity_measure()))
    if got is not FAILED:
        _mi_check(chk, lab, got, _mi_anomaly(obs, tc, wo), rng)


def _l_winter(tier):
    for T in lad(tier=tier, lo=31):
        for first in (True, False):
            yield [{"T": T, "N": 3, "wo": first}, {"T": T, "N": 3, "wo": not first}]


def _h_winter(tier, rng):
    for T, N in ((240, 30), (36, 3), (1200, 2), (4097, 3)) + (((2400, 30), (120, 257)) if tier == "thorough" else ()):
        for seq in ((True, False), (False, True), (True, False, True, False), (True, True, False, False, True)):
            yield "winter-" + "".join("WA"[not w] for w in seq), [{"T": T, "N": N, "wo": w} for w in seq]


@sized("MutualInfoClimateNetwork.set_winter_only", _l_winter, _h_winter)
def _s_winter(sz, rng, st, chk):
    """one object per case: built in the first step, set_winter_only(...) on it afterwards"""
    from pyunicorn import climate
    T, N, wo = sz["T"], sz["N"], sz["wo"]
    if "net" not in st:
        lab = "MutualInfoClimateNetwork.__init__"
        st["obs"] = coupled(rng, T, N)
        cd = _geo_data(chk, st["obs"], 12)
        if cd is FAILED:
            return
        net = chk.call(lab, climate.MutualInfoClimateNetwork, cd, threshold=0.1, winter_only=wo, silence_level=3)
        if net is FAILED:
            return
        st["net"] = net
    else:
        lab = "MutualInfoClimateNetwork.set_winter_only"
        if chk.call(lab, st["net"].set_winter_only, wo, dump=False) is FAILED:
            return
    _mi_check(chk, lab, np.array(st["net"].similarity_measure()), _mi_anomaly(st["obs"], 12, wo), rng)
    chk.require(lab, np.asarray(st["net"].adjacency).shape == (N, N), "adjacency shape")


# ---- Surrogates.test_pearson_correlation / test_mutual_information

def _l_pearson(tier):
    for T in lad(tier=tier):
        for N in (2, 3):
            yield {"N": N, "T": T}
    for N in lad(cap=2049 if tier == "thorough" else 1025, tier=tier, thin=True):
        yield {"N": N, "T": 3}


def _h_pearson(tier, rng):
    for kind, steps in hist_sizes(tier, rng, "T", (8, 33, 300), (1025, 4097, 2049), {"N": 3}, 3):
        yield kind, steps
    for kind, steps in hist_sizes(tier, rng, "N", (2, 9), (257, 33), {"T": 5}, 2):
        yield kind, steps


def _surr_obj(st, N, T):
    """test_* are static methods: they are reached through one Surrogates object kept for the whole case"""
    from pyunicorn import timeseries
    if "s" not in st:
        st["s"] = timeseries.Surrogates(np.zeros((2, 4)), silence_level=3)
    return st["s"]


@sized("Surrogates.test_pearson_correlation", _l_pearson, _h_pearson)
def _s_pearson(sz, rng, st, chk):
    from specs import c20_sizes as ref
    lab = "Surrogates.test_pearson_correlation"
    N, T = sz["N"], sz["T"]
    o, s = rng.standard_normal((N, T)), rng.standard_normal((N, T))
    # the same values in another representation (chosen by the size: deterministic): Fortran order, a strided view,
    # float32 - the kernels receive raw pointers, what they read must be these values whatever array carries them
    rep_ = ("contiguous", "fortran", "strided", "float32")[(N + T) % 4]
    if rep_ == "float32":
        o, s = o.astype(np.float32), s.astype(np.float32)
        oa, sa = o.copy(), s.copy()
    elif rep_ == "fortran":
        oa, sa = np.asfortranarray(o), np.asfortranarray(s)
    elif rep_ == "strided":
        bo, bs = np.zeros((N, 2 * T)), np.full((N, 2 * T), 7.0)
        bo[:, ::2], bs[:, ::2] = o, s
        oa, sa = bo[:, ::2], bs[:, ::2]
    else:
        oa, sa = o.copy(), s.copy()
    got = chk.call(lab, _surr_obj(st, N, T).test_pearson_correlation, oa, sa)
    if got is FAILED or not chk.shape(lab, got, (N, N), np.float32):
        return
    chk.value(lab, got, ref.surrogate_pearson(np.asarray(o, dtype=np.float64), np.asarray(s, dtype=np.float64)), 1e-5, 1e-6,
              "correlation (%s input)" % rep_)


def _l_tmi(tier):
    for T in lad(tier=tier):
        yield {"N": 2, "T": T, "nb": 32}
        yield {"N": 3, "T": T, "nb": 3}
    for nb in lad(cap=2049, tier=tier, thin=True):
        yield {"N": 2, "T": 3, "nb": nb}
        yield {"N": 3, "T": 100, "nb": nb}
    for N in lad(cap=1025 if tier == "thorough" else 257, tier=tier):
        yield {"N": N, "T": 3, "nb": 4}


def _h_tmi(tier, rng):
    for kind, steps in hist_sizes(tier, rng, "T", (8, 33, 300), (1025, 4097, 2049), {"N": 3, "nb": 32}, 3):
        yield kind, steps
    for kind, steps in hist_sizes(tier, rng, "nb", (2, 4, 31), (32, 257, 1025), {"N": 3, "T": 50}, 3):
        yield kind, steps
    for kind, steps in hist_sizes(tier, rng, "N", (2, 9), (65, 33), {"T": 5, "nb": 4}, 2):
        yield kind, steps
    yield "bins-then-samples", [{"N": 3, "T": 20, "nb": 64}, {"N": 3, "T": 2000, "nb": 8}, {"N": 3, "T": 20, "nb": 8},
                                {"N": 3, "T": 2000, "nb": 64}, {"N": 4, "T": 2000, "nb": 64}]


@sized("Surrogates.test_mutual_information", _l_tmi, _h_tmi)
def _s_tmi(sz, rng, st, chk):
    from specs import c20_sizes as ref
    lab = "Surrogates.test_mutual_information"
    N, T, nb = sz["N"], sz["T"], sz["nb"]
    o = coupled(rng, T, N).T.copy()
    s = (o[::-1] + 0.5 * rng.standard_normal((N, T))).copy()
    got = chk.call(lab, _surr_obj(st, N, T).test_mutual_information, o.copy(), s.copy(), n_bins=nb)
    if got is FAILED or not chk.shape(lab, got, (N, N), np.float32):
        return
    ps = _pairs(rng, N, 150)
    chk.value(lab, np.array([got[i, j] for i, j in ps]), ref.surrogate_mi_pairs(o, s, nb, ps), 2e-4, 1e-4,
              "mutual information at pairs %s.." % ps[:3])
    chk.require(lab, bool(np.isfinite(got).all()), "matrix not finite")


# ---- Surrogates.test_threshold_significance / original_distribution (one object, user supplied surrogate function)

def _l_sig(tier):
    for fn in ("pearson", "mi"):
        for R in lad(cap=33 if tier == "quick" else 257, tier=tier):
            yield {"N": 3, "T": 20, "R": R, "fn": fn, "hb": 50}
        for T in lad(tier=tier, lo=3, thin=True):
            yield {"N": 2, "T": T, "R": 2, "fn": fn, "hb": 20}
        for hb in lad(cap=2049, tier=tier, thin=True):
            yield {"N": 3, "T": 20, "R": 2, "fn": fn, "hb": hb}


def _h_sig(tier, rng):
    for fn in ("pearson", "mi"):
        for kind, steps in hist_sizes(tier, rng, "T", (8, 300), (1025, 4097), {"N": 3, "R": 2, "fn": fn, "hb": 20}, 1):
            yield kind + "-" + fn, steps
        for kind, steps in hist_sizes(tier, rng, "R", (1, 3), (9, 33), {"N": 3, "T": 30, "fn": fn, "hb": 20}, 1):
            yield kind + "-" + fn, steps
    yield "mixed", [{"N": 3, "T": 30, "R": 2, "fn": "mi", "hb": 20}, {"N": 3, "T": 30, "R": 2, "fn": "pearson", "hb": 20},
                    {"N": 3, "T": 30, "R": 5, "fn": "mi", "hb": 100}, {"N": 3, "T": 30, "R": 5, "fn": "mi", "hb": 100}]


def _density(mats, hb, interval):
    tot = np.zeros(hb)
    n_in = 0
    for m in mats:
        v = np.abs(np.asarray(m, dtype=np.float32))
        with np.errstate(all="ignore"):
            h, _ = np.histogram(v, hb, interval, density=True)
        tot += h
        n_in += int(((v >= interval[0]) & (v <= interval[1])).sum())
    with np.errstate(all="ignore"):
        return tot / tot.sum(), n_in


@sized("Surrogates.test_threshold_significance", _l_sig, _h_sig)
def _s_sig(sz, rng, st, chk):
    import functools
    from pyunicorn import timeseries
    from specs import c20_sizes as ref
    S = timeseries.Surrogates
    N, T, R, hb = sz["N"], sz["T"], sz["R"], sz["hb"]
    key = (N, T)
    if st.get("key") != key:            # same object as long as the record keeps its shape
        st["key"] = key
        st["orig"] = coupled(rng, T, N).T.copy()
        st["s"] = S(st["orig"].copy(), silence_level=3)
    o = st["orig"]
    with np.errstate(all="ignore"):
        sd = o.std(axis=1, keepdims=True)
        on = (o - o.mean(axis=1, keepdims=True)) / np.where(sd != 0, sd, 1.0)
    surrs = [on[::-1] * 0.5 + 0.5 * rng.standard_normal((N, T)) for _ in range(R)]
    if sz["fn"] == "pearson":
        test, interval = S.test_pearson_correlation, (-1, 1)
        refm = [ref.surrogate_pearson(on, x) for x in surrs]
        ref0 = ref.surrogate_pearson(on, on)
    else:
        test, interval = functools.partial(S.test_mutual_information, n_bins=8), (0, 4)
        allp = [(i, j) for i in range(N) for j in range(N)]
        refm = [ref.surrogate_mi_pairs(on, x, 8, allp) for x in surrs]
        ref0 = ref.surrogate_mi_pairs(on, on, 8, allp)
    it = iter([x.copy() for x in surrs])
    lab = "Surrogates.test_threshold_significance"
    got = chk.call(lab, st["s"].test_threshold_significance, lambda self: next(it), test, realizations=R, n_bins=hb,
                   interval=interval)
    if got is not FAILED and all(m is not None for m in refm):
        dens, lbb = got
        if chk.shape(lab, dens, (hb,)) and chk.shape(lab, lbb, (hb,)):
            want, n_in = _density(refm, hb, interval)
            if np.isfinite(want).all():
                l1 = float(np.abs(dens - want).sum())
                chk.require(lab, np.isfinite(dens).all() and l1 <= 2.0 * (1 + 0.02 * n_in) / max(n_in, 1),
                            "density differs from the reference histogram: L1 distance %g with %d values" % (l1, n_in))
    lab = "Surrogates.original_distribution"
    got = chk.call(lab, st["s"].original_distribution, test, n_bins=hb)
    if got is not FAILED and ref0 is not None:
        hist, lbb = got
        chk.shape(lab, hist, (hb,))
        chk.shape(lab, lbb, (hb,))


# ---- ResNetwork current flow betweenness

def _res_graph(rng, N):
    A = np.zeros((N, N), dtype=np.int8)
    for i in range(N - 1):
        A[i, i + 1] = A[i + 1, i] = 1
    if N > 2:
        A[0, N - 1] = A[N - 1, 0] = 1
    for _ in range(N // 2):
        i, j = int(rng.randint(N)), int(rng.randint(N))
        if i != j:
            A[i, j] = A[j, i] = 1
    return A


def _res_values(rng, A):
    r = 1.0 + rng.random_sample(A.shape)
    return (r + r.T) * A


def _l_vcfb(tier):
    for N in lad(cap=1025 if tier == "thorough" else 257, lo=2, tier=tier):
        yield {"N": N}


def _l_ecfb(tier):
    for N in lad(cap=257 if tier == "thorough" else 33, lo=2, tier=tier) + ([65] if tier == "quick" else []):
        yield {"N": N}


def _h_res(big):
    def gen(tier, rng):
        for kind, steps in hist_sizes(tier, rng, "N", (3, 9), big, {"obj": "fresh"}, 2):
            yield kind, steps
        for N in (5, big[0]):
            yield "update-resistances", [{"N": N, "obj": "same"}] * 3
    return gen


def _res_net(sz, rng, st, chk):
    """fresh ResNetwork, or update_resistances(...) on the one of the previous step (same number of nodes)"""
    from pyunicorn import core
    N = sz["N"]
    if sz.get("obj") == "same" and st.get("N") == N and "net" in st:
        res = _res_values(rng, st["A"])
        if chk.call("ResNetwork.update_resistances", st["net"].update_resistances, res.copy()) is FAILED:
            return None, None, None
    else:
        A = _res_graph(rng, N)
        res = _res_values(rng, A)
        net = chk.call("ResNetwork.__init__", core.ResNetwork, res.copy(), adjacency=A.copy(), silence_level=3)
        if net is FAILED:
            st.pop("net", None)
            return None, None, None
        st.update(net=net, A=A, N=N)
    return st["net"], st["A"], res


@sized("ResNetwork.vertex_current_flow_betweenness", _l_vcfb, _h_res((129, 257)))
def _s_vcfb(sz, rng, st, chk):
    from specs import c20_sizes as ref
    lab = "ResNetwork.vertex_current_flow_betweenness"
    net, A, res = _res_net(sz, rng, st, chk)
    if net is None:
        return
    N = sz["N"]
    adm = ref.admittance_of(res, A)
    R = ref.laplacian_pinv(adm)
    for i in sorted({0, N // 2, N - 1}):
        got = chk.call(lab, net.vertex_current_flow_betweenness, i)
        if got is not FAILED and N > 1:
            chk.value(lab, got, ref.vcfb(adm, R, i), 1e-3, 1e-6, "VCFB(%d)" % i)


@sized("ResNetwork.edge_current_flow_betweenness", _l_ecfb, _h_res((33, 65)))
def _s_ecfb(sz, rng, st, chk):
    from specs import c20_sizes as ref
    lab = "ResNetwork.edge_current_flow_betweenness"
    net, A, res = _res_net(sz, rng, st, chk)
    if net is None:
        return
    N = sz["N"]
    got = chk.call(lab, net.edge_current_flow_betweenness)
    if got is FAILED or not chk.shape(lab, got, (N, N), np.float32):
        return
    adm = ref.admittance_of(res, A)
    chk.value(lab, got, ref.ecfb(adm, ref.laplacian_pinv(adm)), 1e-3, 1e-6, "ECFB")


# ---- CouplingAnalysis

def _l_cc(tier):
    for T in lad(tier=tier, lo=3):
        yield {"T": T, "N": 2, "tau": 1}
        yield {"T": T, "N": 3, "tau": min(2, T - 2)}
    for N in lad(cap=1025 if tier == "thorough" else 257, tier=tier):
        yield {"T": 5, "N": N, "tau": 1}
    for tau in (0, 1, 2, 3, 7, 8, 9, 31, 32, 33, 126, 127):         # lags are stored as int8
        yield {"T": 200, "N": 2, "tau": tau}
        yield {"T": tau + 2, "N": 3, "tau": tau}


def _h_cc(tier, rng):
    for obj in ("fresh",):
        for kind, steps in hist_sizes(tier, rng, "T", (8, 300), (1025, 4097), {"N": 3, "tau": 2}, 2):
            yield kind, steps
        for kind, steps in hist_sizes(tier, rng, "N", (2, 9), (65, 33), {"T": 12, "tau": 1}, 1):
            yield kind, steps
    for kind, steps in hist_sizes(tier, rng, "tau", (0, 2), (33, 127), {"T": 300, "N": 3, "obj": "same"}, 2):
        yield kind, steps


@sized("CouplingAnalysis.cross_correlation", _l_cc, _h_cc)
def _s_cc(sz, rng, st, chk):
    from pyunicorn import funcnet
    from specs import c20_sizes as ref
    T, N, tau = sz["T"], sz["N"], sz["tau"]
    key = (T, N)
    if not (sz.get("obj") == "same" and st.get("key") == key):
        data = coupled(rng, T, N)
        if T > 3 and N > 1:
            data[1:, 1] += data[:-1, 0]
        ca = chk.call("CouplingAnalysis.__init__", funcnet.CouplingAnalysis, data.copy(), silence_level=3)
        if ca is FAILED:
            return
        st.update(key=key, ca=ca, data=data)
    ca, data = st["ca"], st["data"]
    want = ref.cross_correlation_all(data, tau) if T - tau >= 2 else None
    lab = "CouplingAnalysis.cross_correlation[all]"
    got = chk.call(lab, ca.cross_correlation, tau_max=tau, lag_mode="all")
    if got is not FAILED and chk.shape(lab, got, (N, N, tau + 1), np.float32):
        chk.value(lab, got, want, 1e-4, 3e-5, "lag functions")
    lab = "CouplingAnalysis.cross_correlation[max]"
    got = chk.call(lab, ca.cross_correlation, tau_max=tau, lag_mode="max")
    if got is FAILED:
        return
    sim, lag = got
    if not (chk.shape(lab, sim, (N, N), np.float32) and chk.shape(lab, lag, (N, N), np.int8)):
        return
    if want is not None:
        off = ~np.eye(N, dtype=bool)
        chk.require(lab, bool(((lag >= 0) & (lag <= tau)).all()), "lag outside 0..tau_max")
        lg = np.clip(lag.astype(int), 0, tau)
        at = np.take_along_axis(want, lg[:, :, None], axis=2)[:, :, 0]
        tol = 3e-5 + 1e-4 * np.abs(at)
        ok = (np.abs(sim - at) <= tol) & (np.abs(at) >= np.abs(want).max(axis=2) - 2 * tol)
        chk.require(lab, bool(ok[off].all()), "value / lag at the absolute maximum differ from the reference at %d pairs"
                    % int((~ok[off]).sum()))
        chk.require(lab, bool((np.diag(sim) == 1).all() and (np.diag(lag) == 0).all()), "diagonal is not (1, lag 0)")
        chk.call("CouplingAnalysis.symmetrize_by_absmax", ca.symmetrize_by_absmax, sim.copy(), lag.copy())


def _l_gnn(tier):
    for T in lad(tier=tier, lo=3, cap=8193 if tier == "thorough" else 4097):
        yield {"T": T, "dim": 2, "k": 1 if T < 8 else 5}
        if T <= 4097:
            yield {"T": T, "dim": 3, "k": 2}
    for k in lad(cap=1025 if tier == "thorough" else 257, tier=tier):
        yield {"T": k + 1, "dim": 2, "k": k}
        yield {"T": 2 * k + 5, "dim": 3, "k": k}


def _h_gnn(tier, rng):
    for kind, steps in hist_sizes(tier, rng, "T", (8, 300), (1025, 2049), {"dim": 2, "k": 3}, 2):
        yield kind, steps
    for kind, steps in hist_sizes(tier, rng, "k", (1, 3), (33, 257), {"T": 600, "dim": 3}, 2):
        yield kind, steps


@sized("CouplingAnalysis.get_nearest_neighbors", _l_gnn, _h_gnn)
def _s_gnn(sz, rng, st, chk):
    from pyunicorn import funcnet
    from specs import c20_sizes as ref
    lab = "CouplingAnalysis.get_nearest_neighbors"
    T, dim, k = sz["T"], sz["dim"], sz["k"]
    # distinct multiples of 1/64 >= 1/64: exact in float32, and the wrapper's 1e-10 tie-breaking noise rounds away
    arr = np.array([(rng.permutation(T) + 1) / 64.0 for _ in range(dim)])
    got = chk.call(lab, funcnet.CouplingAnalysis.get_nearest_neighbors, array=arr.copy(), xyz=np.arange(dim), k=k,
                   standardize=False)
    if got is FAILED:
        return
    want = ref.knn_counts(arr, 1, 1, k, chunk=64 if T > 3000 else 256)
    for name, g, w in zip(("k_xz", "k_yz", "k_z"), got, want):
        if chk.shape(lab, g, (T,)):
            chk.require(lab, np.array_equal(np.asarray(g, dtype=np.int64), w),
                        "%s differs from the brute-force count at %d of %d points" % (
                            name, int((np.asarray(g, dtype=np.int64) != w).sum()), T))


def _l_knn(tier):
    for T in lad(tier=tier, lo=31, cap=8193 if tier == "thorough" else 4097, thin=True):
        yield {"T": T, "N": 2, "tau": 0, "knn": 4}
    for T in lad(tier=tier, lo=31, cap=1025):
        yield {"T": T, "N": 2, "tau": 1, "knn": 3}
    for N in lad(cap=33 if tier == "thorough" else 9, tier=tier):
        yield {"T": 40, "N": N, "tau": 0, "knn": 3}
    for knn in lad(cap=257 if tier == "thorough" else 33, tier=tier):
        yield {"T": 2 * knn + 20, "N": 2, "tau": 0, "knn": knn}


def _h_knn(tier, rng):
    for kind, steps in hist_sizes(tier, rng, "T", (40, 300), (1025, 600), {"N": 2, "tau": 1, "knn": 4}, 1):
        yield kind, steps
    for kind, steps in hist_sizes(tier, rng, "knn", (1, 3), (33, 100), {"T": 300, "N": 2, "tau": 0, "obj": "same"}, 1):
        yield kind, steps


@sized("CouplingAnalysis.mutual_information[knn]", _l_knn, _h_knn)
def _s_knn(sz, rng, st, chk):
    from scipy import special
    from pyunicorn import funcnet
    from specs import c20_sizes as ref
    T, N, tau, knn = sz["T"], sz["N"], sz["tau"], sz["knn"]
    key = (T, N)
    if not (sz.get("obj") == "same" and st.get("key") == key):
        data = coupled(rng, T, N)
        ca = chk.call("CouplingAnalysis.__init__", funcnet.CouplingAnalysis, data.copy(), silence_level=3)
        if ca is FAILED:
            return
        st.update(key=key, ca=ca, data=data)
    ca, data = st["ca"], st["data"]
    lab = "CouplingAnalysis.mutual_information[knn]"
    got = chk.call(lab, ca.mutual_information, tau_max=tau, estimator="knn", knn=knn, lag_mode="all")
    if got is not FAILED and chk.shape(lab, got, (N, N, tau + 1), np.float32):
        chk.require(lab, bool(np.isfinite(got).all()), "MI not finite")
        ps = [(i, j) for i in range(N) for j in range(N) if i != j][:4]
        for i, j in ps:
            for t in range(tau + 1):
                a = np.array([data[tau - t:T - t, i], data[tau:T, j]]).astype(np.float32)
                a -= a.mean(axis=1).reshape(2, 1)
                a /= a.std(axis=1).reshape(2, 1)
                kxz, kyz, kz = ref.knn_counts(a, 1, 1, knn, chunk=64 if T > 3000 else 256)
                want = special.digamma(knn) + (-special.digamma(kxz) - special.digamma(kyz) + special.digamma(kz)).mean()
                chk.value(lab, got[i, j, t], want, 1e-3, 2e-3, "MI(%d,%d,lag %d)" % (i, j, t))
        gm = chk.call(lab, ca.mutual_information, tau_max=tau, estimator="knn", knn=knn, lag_mode="max")
        if gm is not FAILED and chk.shape(lab, gm[0], (N, N), np.float32) and chk.shape(lab, gm[1], (N, N), np.int8):
            # i == j: identical coordinates, the estimate rests on the wrapper's random tie-breaking noise
            off = ~np.eye(N, dtype=bool)
            chk.value(lab, gm[0][off], np.maximum(got.max(axis=2), 0)[off], 1e-3, 2e-3, "maximum over lags")
    if T - tau - 1 > 2 * knn and T <= 1100:
        lab = "CouplingAnalysis.information_transfer[knn]"
        for cm in ("ity", "mit"):
            g = chk.call(lab, ca.information_transfer, tau_max=tau, estimator="knn", knn=knn, past=1, cond_mode=cm,
                         lag_mode="all")
            if g is not FAILED and chk.shape(lab, g, (N, N, tau + 1), np.float32):
                chk.require(lab, bool(np.isfinite(g).all()), "information transfer not finite")


def sized_cost(case):
    """rough work estimate of a sized case, for spreading the cases over the children"""
    c = 0.0
    for sz in case["params"]["steps"]:
        T, N = sz.get("T", sz.get("k", 4)), sz.get("N", sz.get("m", 3))
        e = case["entry"]
        if "current_flow" in e:
            c += N ** 3 * (N if "edge" in e else 1) / 1e6 + N * N / 1e4
        elif "knn" in e or "nearest" in e:
            c += T * T * (N * N if "knn" in e else 1) / 2e5
        else:
            c += N * N * (T + sz.get("nb", 32) ** 2 / 8.0) / 1e5 + T * N / 1e4 + sz.get("R", 0) / 10.0
    return c + 1.0


def build_sized_cases(tier, seed):
    cases, seen = [], set()
    for i, (name, (_, lgen, hgen)) in enumerate(SIZED.items()):
        rng = np.random.RandomState((seed * 1000003 + i * 7919 + 4242) % (2 ** 32))

        def add(kind, label, steps):
            steps = jsonable(steps)
            nm = "%s:%s[%s]" % (kind, name, label)
            if nm in seen:
                return
            seen.add(nm)
            cases.append({"name": nm, "entry": name, "kind": kind, "limit": SIZED_LIMIT_S * (4 if tier == "thorough" else 1),
                          "params": {"steps": steps, "ds": int(rng.randint(0, 2 ** 31 - 1))}})
        for sz in lgen(tier):
            steps = sz if isinstance(sz, list) else [sz]
            lab = ";".join(",".join("%s=%s" % (k, json.dumps(s[k])) for k in sorted(s)) for s in steps)
            add("ladder", lab, steps)
            if tier == "thorough" and sized_cost({"entry": name, "params": {"steps": steps}}) < 50:
                add("ladder", lab + "#2", steps)            # a second draw of the data
        for hk, steps in hgen(tier, rng):
            add("history", hk + ":" + ";".join(",".join("%s=%s" % (k, json.dumps(s[k])) for k in sorted(s))
                                              for s in steps), steps)
    return cases


# ----------------------------------------------------------------------------- main

def main():
    ap = argparse.ArgumentParser(add_help=False)
    ap.add_argument("--case", default=None)
    ap.add_argument("--cases-file", default=None)
    ap.add_argument("--only", default=None, help="development aid: keep entries whose name contains this")
    own, rest = ap.parse_known_args()
    if own.cases_file:                                   # child of the parent below
        with open(own.cases_file) as f:
            child_main(json.load(f))
    args = parse_args(rest)
    if own.case:                                         # one named case, in this process
        cases = [c for c in build_cases(args.tier, args.seed) + build_sized_cases(args.tier, args.seed)
                 if c["name"] in own.case.split(";")]
        if not cases:
            sys.stderr.write("no such case for tier=%s seed=%d\n" % (args.tier, args.seed))
            sys.exit(3)
        child_main(cases)
    only = None
    if args.replay:
        with open(args.replay) as f:
            w = json.load(f)
        w = w.get("witness", w)
        if w.get("entry") not in (SIZED if w.get("kind") else ENTRIES):
            sys.stderr.write("replay: unknown entry %r\n" % (w.get("entry"),))
            sys.exit(3)
        only = [{"name": w.get("case") or case_name(w["entry"], w["params"]), "entry": w["entry"],
                 "params": w["params"]}]
        if w.get("kind"):
            only[0].update(kind=w["kind"], limit=4 * SIZED_LIMIT_S)
    if own.only and only is None:
        only = [c for c in build_cases(args.tier, args.seed) + build_sized_cases(args.tier, args.seed)
                if own.only in c["entry"] or own.only in c["name"]]
    parent_main(args, only)


if __name__ == "__main__":
    main()
