"""Generator of the per-property modules contracts/cNN.py for the kernel-contract + bounded pattern
(C01 is hand-written).  Re-run after editing the table; modules are committed."""
import json
T = {}
def P(pid, level, claimed, tech, text, note, expl, assume=(), notdec=(), extra=""):
    T[pid] = dict(level=level, claimed=claimed, tech=tech, text=text, note=note, expl=expl, assume=list(assume), notdec=list(notdec), extra=extra)

KB = "contract-based deductive verification (sidecar contracts on the real functions - compiled kernels and Python method regions; VCs generated from the Cython / C / Python AST of the current tree, discharged by z3, finite-scope counter-models, cvc5 fallback) + run-time evaluation of the same contracts on the rebuilt code (bounded) + bounded contract check of the Python layer against definition-level oracles"

P("C02", "other", True, KB,
  "Proved (all inputs): the n.s.i. kernels _nsi_cross_transitivity and _mpi_nsi_newman_betweenness equal their weighted nested-sum specifications; the Python bodies of nsi_closeness, nsi_harmonic_closeness, nsi_global_efficiency and nsi_global_clustering equal their weighted sums over the n.s.i. distance d_ij + delta_ij / the local n.s.i. clustering (FORMULA, py_mode VCs with matrix-vector products). Bounded: node-splitting invariance of every nsi_* measure evaluated on the real code with an independent twin-split transformation, exhaustive small graphs + seeded larger ones.",
  "The general (all n) invariance needs a sum-splitting induction per measure and is not attempted; invariance itself is decided by the bounded layer only.",
  "P: kernel = nested-sum spec obligations, FORMULA obligations of four n.s.i. measures; B: metamorphic node-splitting check (bounded/c02.py).",
  notdec=["invariance for graphs beyond the enumerated scope"])
P("C03", "other", True, KB,
  "Proved: Newman chunk kernels equal their triple-sum definition; cliquishness kernels are index-safe and free of integer overflow (normaliser computed in double); the Python bodies of nsi_closeness, nsi_harmonic_closeness, nsi_global_efficiency and nsi_global_clustering equal their defining weighted sums, and weighted_local_clustering equals the [Holme2007] quotient sum_km w_im w_mk w_ki / (max(w) sum_km w_im w_ki) for every weight matrix, symmetric or not (FORMULA; matrix products as indexed sums, max(w) uninterpreted with its bound). Bounded: every public measure against an independent definition-level spec, exhaustive over small graphs.",
  "ARPACK/igraph algorithms are dependencies compared in the bounded layer only.",
  "P: _mpi_newman_betweenness/_mpi_nsi_newman_betweenness fold specs, cliquishness safety/overflow; B: bounded/c03.py vs specs/network_spec.py.",
  notdec=["spectral measures beyond comparison at stated tolerance", "igraph internals"])
P("C04", "other", True, KB,
  "Proved: the summands of the triangular-loop kernels are evaluated on index pairs of the node lists only (kernels equal their specs, which are functions of the listed nodes). Bounded: all n! relabellings for small n on the real code.",
  "Invariance of matrix inverses / eigen-solvers under relabelling is linear algebra over dependencies.",
  "P: cross kernel specs; B: bounded/c04.py relabelling check.")
P("C05", "other", True, KB,
  "Proved: (INV) the adjacency setter leaves N, n_links (halved when undirected) and link_density (0 for N<=1) equal to the stated functions of the non-zero coordinates (py_mode VC on the real method body); (REPINV/GUARD) every public mutator that writes the adjacency or the node weights rewrites the derived fields and bumps the guard counter on the same path. Bounded: construction paths incl. explicitly stored zeros, mutate-then-save/load round trips, compared field by field.",
  "File-format fidelity of igraph is an assumed dependency contract.",
  "P: REPINV obligations of the Network family (shared with C01); B: bounded/c05.py.",
  extra="REPINV")
P("C06", "other", True, KB,
  "Bounded: every ordered pair of public queries on registry instances with snapshots of all reachable arrays; constructors of derived objects vs caller arrays. P: in-place-write inventory of every public query (frame analyser): each in-place write targets a cached result only inside an edit/restore pair whose array-theory VC proves elementwise restoration; (FRAME) every compiled kernel under contract leaves each array parameter outside its `modifies` list with its entry contents (heap equality at every return); R: the same frame clauses evaluated at run time on the rebuilt kernels incl. inputs with NaN / inf samples.",
  "Alias/freshness facts of NumPy (view vs copy) are assumed per DESIGN.md 3.3.",
  "P: INPLACE obligations from the frame analyser; B: bounded/c06.py.", extra="INPLACE")
P("C07", "other", True, KB,
  "Proved (all inputs): the six distance kernels equal the metric fold per pair (rp variants symmetric with zero diagonal), the embedding kernels realise emb[k,j]=x[k+j*tau] within bounds, the adaptive-neighbourhood kernel only switches entries on and keeps symmetry, the bootstrap kernels are index safe; on the Python side (py_mode VCs with NumPy mask semantics) set_fixed_threshold of RecurrencePlot / CrossRecurrencePlot marks exactly the pairs with distance < threshold (never a missing-value state), the recurrence network's adjacency is R with exactly the diagonal cleared, each distance method hands the embedding to its kernel with matching shapes, the joint recurrence plot is R_x[i,j]*R_y[i+lag,j+lag] of size N-|lag| (roles exchanged for negative lags; fixed-threshold and fixed-rate variants, helper methods of the class inlined) and the inter-system recurrence matrix is the block matrix [[R_x, CR_xy],[CR_xy^T, R_y]] (py_mode VCs with n-d views, block stores and transposes). Bounded: every class/option against direct thresholding of float64 distances.",
  "Thresholding / rate logic lives in NumPy code checked by the bounded layer.",
  "P: DIST/EMBED kernel specs; B: bounded/c07.py.", notdec=["NaN arithmetic beyond the supremum-kernel facts"])
P("C08", "proof", True, KB,
  "Proved for every matrix and size: each of the five non-missing-value instantiations of the generic line kernel (vertical, diagonal, white vertical, and the two sequential ones, verified through their def wrappers with the kernel inlined) leaves hist[L-1] = hist0[L-1] + number of maximal runs of exactly L line cells, the count being the fold of a non-recursive maximal-run predicate over the traversal the library documents (diagonals below the main diagonal, whole columns); every increment happens at the end of a maximal run (asserts) and hist indices stay in [0,n_time). The sequential instantiations use the same supremum fold as the distance-matrix kernel and a double threshold (type obligation), so sequential = matrix mode. Missing-value instantiations: index safety and the k/missing_flag protocol. (FORMULA) determinism, laminarity, the three average line lengths (trapping time and mean recurrence time are forwarding aliases), the three maximal line lengths and the three line entropies are proved equal to the stated indexed sums of the histogram H returned by the *_dist() method (P(l)=H[l-1]; py_mode VCs with the 1-d NumPy vector semantics of pvc/npvec.py: arange, slices, @, sum, extract, nonzero; log uninterpreted); the recurrence rate (sum of the matrix / N^2; in sequential mode sum_v v P(v) / N^2) and the recurrence probability at a lag (mean of that diagonal) are proved as indexed sums of the matrix returned by recurrence_matrix(). Bounded: direct run-length counting, conservation, RQA formulas on the real code; run-time evaluation of the proved contracts on the rebuilt kernels and methods.",
  "Floats as reals; NumPy's vector / matrix operations have the semantics stated in pvc/npvec.py (assumed).",
  "P: RUNLEN/COUNT obligations of 9 wrappers, FORMULA obligations of 11 RQA measures + 2 aliases, recurrence rate (dense / sequential) and recurrence probability; R: run-time contract check; B: bounded/c08.py.",
  notdec=["floating-point rounding of the quotients"], extra="C08TYPES")
P("C09", "other", True, KB,
  "Proved: (MASK) _calculate_threshold_adjacency returns A[i,j]=1 exactly for i!=j and S[i,j]>threshold (strict; the flat stride N+1 clears exactly the diagonal) - py_mode VC with NumPy mask semantics on the real method body; (QUANTILE index) threshold_from_link_density indexes inside the sorted array for every density in [0,1] and at most density*L entries lie above the selected order statistic; REPINV/GUARD of set_threshold/set_link_density/set_non_local. Bounded: strict-mask semantics, monotonicity, symmetry inheritance, density bound and setter chains on the real code for all small similarity matrices.",
  "The thresholding itself is NumPy code; proved obligations cover the state consistency only.",
  "P: REPINV of ClimateNetwork setters; B: bounded/c09.py.", extra="REPINV")
P("C10", "other", True, KB,
  "Proved: raw-pointer kernels of the MI / Pearson-test / Spearman estimators stay inside their arrays for the extents their wrappers establish. Bounded: every estimator against numpy/scipy references at float32 tolerance.",
  "'Equals the reference to single precision' is a floating-point accuracy statement decided by bounded comparison only.",
  "P: RAW obligations (shared with C20); B: bounded/c10.py.", notdec=["single-precision accuracy"])
P("C11", "other", True, KB,
  "Proved: _cross_transitivity, _cross_local_clustering, _nsi_cross_transitivity equal their nested-sum specs over the listed nodes in list order. Bounded: every cross/internal measure vs sub-block definitions for all ordered pairs of disjoint lists.",
  "Python-level sub-block extraction is checked by the bounded layer.",
  "P: cross kernel specs; B: bounded/c11.py.")
P("C12", "other", True, KB,
  "Proved: both distance kernels write M[i,j]=M[j,i]=expr(i,j) for all j<=i (exact symmetry, full coverage), the cosine is clamped to [-1,1] (UF mode: exactly the stated float expression), the Euclidean self-distance is exactly sqrt(0); Grid.euclidean_distance / GeoGrid.angular_distance call their kernel exactly once with matching shapes (USES); in- and out-area weighted connectivity of GeoNetwork are the cos(lat)-weighted column / row sums of the adjacency matrix over the total cos(lat), whatever node weights the network carries (FORMULA). Bounded: closed-form distances incl. grids far from the origin, metric axioms, grids, weights.",
  "The 2^-10 / 2^-20 error bounds need floating-point error analysis; bounded comparison only.",
  "P: kernel postconditions; B: bounded/c12.py.", notdec=["floating-point error bounds"])
P("C13", "other", True, KB,
  "Proved: (WINDOW) the boolean masks computed by Data.set_window are exactly the closed-interval predicates of the statement (all-true when the bounds of an axis coincide; either spatial pair equal => all nodes) - py_mode VC with NumPy mask semantics on the real method body; GUARD of set_window/set_global_window. Bounded: exhaustive windows on irregular grids, cycle lengths not dividing the series, window histories.",
  "Window masks are NumPy expressions; decided by the bounded layer.",
  "P: GUARD(ClimateData.set_window); B: bounded/c13.py.", extra="GUARDWIN")
P("C14", "proof", True, KB,
  "Proved for every series length and content: the natural, horizontal and missing-value kernels set A[i,j]=1 exactly when every intermediate sample satisfies the visibility criterion (slope(i,k)<slope(i,j) resp. x[k]<min(x[i],x[j])), adjacent samples are always linked, the matrix is symmetric with zero diagonal, no index leaves the arrays; in the missing-value kernel (NaN-aware encoding) a missing sample blocks visibility as endpoint or in between and stays isolated. Floats are mathematical reals with a NaN flag. Bounded: exact rational oracle, affine invariance, mirror symmetry, degree split on the real code.",
  "float32 evaluation agrees with the real-arithmetic criterion only within the magnitude bound stated in the bounded layer.",
  "P: NVG/HVG/MV obligations, FORMULA obligations of retarded / advanced degree (sum of the row before / from the diagonal, adjacency not written); B: bounded/c14.py.", notdec=["float32 ties beyond |values|,|times| < 2^11"])
P("C15", "other", True, KB,
  "Proved: embedding kernel spec and bounds of the surrogate kernels' array accesses; (TWINS) the recurrence-plot twins kernel _twins_r lists, for every state j, exactly the states k with identical recurrence columns, equal non-trivial neighbour counts and |j-k| > min_dist, each exactly once (the Python list of lists is modelled by its multiplicity table); (WALK) both twin-surrogate walks (_twin_surrogates_r / _twin_surrogates_s, random draws havoc) keep the visited state index inside [0,N), take twin entries only from inside the twin list of the current state, and write only rows / samples of the original embedding / data. Bounded: permutation exactness, amplitude spectra, twin structure, repeated calls, rescaling histories.",
  "The Surrogates twins kernel (_twins_s: recurrence matrix, neighbour counts and three-level lists built in one function) is bounded-only; which successor a walk takes is random and only constrained, not determined; FFT accuracy is numerical.",
  "P: _embed_time_series_array, _twins_r, _twin_surrogates_r, _twin_surrogates_s; R: run-time contract check; B: bounded/c15.py.", notdec=["FFT round-trip accuracy", "_twins_s: bounded layer only"])
P("C16", "other", True, KB,
  "Proved: (SYMM) each of the six symmetrisation helpers returns exactly the stated combination of M[i,j] and M[j,i]; (MATRIX) the N x N event-synchronisation and coincidence matrices hold, for every pair i != j, the value the pairwise routine returned for the columns i and j (each pair evaluated once, first component to [i,j], second to [j,i], zero diagonal) - py_mode VCs with loop invariants, column views and transposes. Bounded: all binary event pairs up to T<=8 against definition-level ES / ECA counting formulas, exchange / shift / rescale relations (time units 2^-40..2^40), thresholding incl. integer dtypes, symmetrisation table.",
  "The pairwise routines event_synchronization / event_coincidence_analysis and make_event_matrix are vectorised NumPy / string-handling code outside the VC generator's subset: bounded layer only.",
  "P: SYMM + MATRIX obligations; R: run-time check of the SYMM contracts; B: bounded/c16.py.",
  notdec=["event_synchronization, event_coincidence_analysis, _eca_coincidence_rate, make_event_matrix: bounded layer only"])
P("C17", "proof", True, KB,
  "Proved for every random draw (draws are havoc): the geographical rewiring kernels I-III keep the graph simple (symmetric 0/1, zero diagonal), keep the edge table consistent and duplicate-free, keep every row sum (degree; point-update lemma), and only swap when the documented conditions hold (disjoint old links, absent new links, C1/C2 within eps, equal degree pairs for III); overwriteAdjacency writes exactly the cross block and nothing else; the cross-link set/rewire kernels keep the cross block binary, the link table consistent and every cross row sum. Bounded: generators and rewirings through the public API over seeds.",
  "Termination of rejection loops is not claimed; igraph generators are dependencies; column sums of the cross block are bounded-only.",
  "P: GEO-REWIRE / CROSS obligations; B: bounded/c17.py.", notdec=["termination of rejection sampling", "igraph generators"])
P("C18", "other", True, KB,
  "Proved: the C current-flow kernels only touch [0,N^2) of their arrays for 0<=i<N and return the defining triple / double sums; on the Python side effective_resistance is R[a,a]-R[a,b]-R[b,a]+R[b,b] (exactly 0 for a==b), admittive_degree the column sums of the admittance matrix, average_neighbors_admittive_degree sum_j adj[i,j] ad[j] / ad[i], and local_admittive_clustering sum_jk Y[i,j] Y[i,k] Y[j,k] / (ad_i (d_i - 1)) with 0 for d_i == 1 (FORMULA, real-valued networks, loop invariants with ghost partial sums). Bounded: circuit laws and defining sums on all small connected graphs, update sequences. P: REPINV(ResNetwork.update_resistances).",
  "Circuit laws are identities of the Moore-Penrose inverse (LAPACK) - bounded only.",
  "P: RAW + defining sums of the C kernels, FORMULA obligations of four Python measures, REPINV; R: run-time contract check; B: bounded/c18.py.", notdec=["pseudo-inverse identities"], extra="REPINV")
P("C19", "proof", True, KB,
  "Proved: the chunk kernels compute, for each ABSOLUTE row, a value defined by ghost folds that take absolute indices only (ROWLOCAL) - hence chunk result = serial result restricted to the chunk for every contiguous chunking. Bounded: the four measures under a scheduler-controlled MPI stand-in.",
  "Chunk arithmetic of the master loops and the submit/collect protocol are checked in the bounded layer (Python code).",
  "P: ROWLOCAL; B: bounded/c19.py.", notdec=["float re-association of partial sums"])
P("C20", "proof", True, KB,
  "Proved: (DIRECTIVES) setup.py keeps boundscheck/initializedcheck/nonecheck on and wraparound off and no .pyx overrides them, so typed-buffer accesses cannot leave their arrays; (RAW) every dereference in the six C functions lies inside the extent the Cython wrapper establishes, element widths of the pointer casts agree with the array dtypes, arrays handed over are C-contiguous; (UB-ARITH) index arithmetic fits int; (USES) the Python entry points of the raw-pointer kernels establish the wrappers' preconditions (node index in [0,N), equal shapes of data/surrogates/mask, n_bins>=1) or raise. Bounded: poisoned-buffer sweep of the public API.",
  "alloca fits the stack; extents fit int (arrays < 2^31 elements) are explicit preconditions.",
  "P: RAW/WIDTH/CONTIG/DIRECTIVES; B: bounded/c20.py.", extra="DIRECTIVES")

TPL = '''"""{pid}: generated by tools/gen_modules2.py - see DESIGN.md section 5"""
from contracts import kernels as K
from contracts.common import TRUSTED_ENGINE, ASSUME_COMMON, has_bounded, vacuity_canary, bounds_canary
from contracts import shared

PROP = "{pid}"
LEVEL = "{level}"
CLAIMED = {claimed}
HAS_BOUNDED = has_bounded(PROP)
TECHNIQUE = {tech!r}
LEVEL_TEXT = {text!r}
LEVEL_NOTE = {note!r}
TRUSTED_BASE = TRUSTED_ENGINE
EXPLANATION = {expl!r}
ASSUMPTIONS = ASSUME_COMMON + {assume!r}
NOT_DECIDED = {notdec!r}
EXTRA = {extra!r}
HAS_P = EXTRA != "NOP"


def jobs(tier):
    return K.jobs_for(PROP)


def structural(tier):
    return shared.structural(PROP, EXTRA)


def replay_refuted(result, build):
    from contracts import replays
    return replays.replay(result, build)


def canaries(tier):
    js = jobs(tier)
    out = []
    for j in [x for x in js if x.lang != "py"][:3] + [x for x in js if x.lang == "py"][:2]:
        out.append(vacuity_canary(j))
    for j in js:
        if j.lang != "py" and any("shape(" in r or "extent(" in r for r in j.contract.requires):
            out.append(bounds_canary(j))
            break
    return out
'''
for pid, d in T.items():
    open(f'/verif/contracts/{pid.lower()}.py', 'w').write(TPL.format(pid=pid, **d))
print(len(T), "modules written")
