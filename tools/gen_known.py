"""Regenerate /verif/known_findings.json: `fixed` from the `fix:` commits of /repo, `known` from the table below."""
import json, subprocess
log = subprocess.run(["git", "-C", "/repo", "log", "--format=%h %s", "--grep=^fix:", "--reverse"], capture_output=True, text=True).stdout
fix = [l.strip().split(' ', 1) for l in log.strip().split('\n')]
# key (substring of the commit subject) -> (properties, what failed)
M = {
 "keep cache mutation counters": ("C01", "Network.__init__ re-run on a live object reset _mut_A/_mut_nw/_mut_la: ClimateNetwork.SmallTestNetwork(); degree(); set_threshold(0.75); degree() returned the old degrees"),
 "key link-attribute": ("C01", "degree('w')/path_lengths('w')/motif clustering with a link-attribute key not keyed by _mut_la: stale after set_link_attribute"),
 "cache state of multiply": ("C01", "RecurrenceNetwork/JointRecurrenceNetwork/EventSeriesClimateNetwork/InterSystemRecurrenceNetwork resolved __cache_state__ without the Network state: degree() stale after set_fixed_threshold"),
 "invalidate cached line": ("C01", "diagline_dist()/vertline_dist() stale after set_fixed_recurrence_rate (key had threshold only)"),
 "set_node_weight_type": ("C01 C05", "GeoNetwork.set_node_weight_type assigned _node_weights directly: total_node_weight 6.0 vs 5.60"),
 "update_resistances invalidates": ("C01 C18", "ResNetwork._effective_resistances survived update_resistances: diameter_effective_resistance unchanged after tripling resistances"),
 "edgeless": ("C05", "Network(edge_list=[], n_nodes=3) and FromIGraph(Graph(3)) raised IndexError"),
 "correlated_noise_surrogates": ("C06 C15", "surrogates *= exp(i phi) edited the cached original_data_fft()"),
 "inv_correlation_distance": ("C06", "np.fill_diagonal on the cached correlation_distance()"),
 "normalise a copy": ("C06", "MutualInfo/Havlin normalised the cached anomaly of the shared ClimateData in place"),
 "adaptive neighbourhood": ("C07", "_set_adaptive_neighborhood_size indexed before testing k < n_time: IndexError for 4 points, size 2"),
 "rate-based recurrence": ("C07", "missing-value states marked recurrent under recurrence_rate / local_recurrence_rate"),
 "joint and inter-system": ("C07", "JointRecurrencePlot.N = 20 but JR 17x17 with lag 3; ISRN with embedding raised ValueError"),
 "sequential RQA compares": ("C08", "float eps vs double distance: threshold 0.7 on [0,.7,0,.7,.7,0] gave different histograms in sparse_rqa mode"),
 "threshold_from_link_density": ("C09", "zero-diagonal similarity: requested density 0.0 realised 0.167"),
 "integer lag index": ("C10", "information_transfer(lag_mode='all') raised IndexError (float index)"),
 "internal_adjacency": ("C04 C11", "internal_adjacency([4,0,3]) returned the block in sorted order"),
 "cliquishness normaliser": ("C03 C20", "degree 1300 hub: local_cliquishness(4) negative (int32 overflow)"),
 "anomaly() honours": ("C13", "anomalies=True: anomaly() returned the unwindowed array (10,6) vs observable (5,6)"),
 "twins/twin_surrogates": ("C15", "RecurrencePlot.twins()/twin_surrogates() always raised (buffer dtype / ndim, random.seed(datetime))"),
 "randomly_rewire keeps": ("C17", "randomly_rewire with an isolated last node: N 6 -> 5"),
 "submit every": ("C19", "nsi_arenas_betweenness under MPI submitted chunks only when silence_level <= 0"),
 "vertex_current_flow_betweenness rejects": ("C18 C20", "vertex_current_flow_betweenness(N) returned a value computed from foreign memory"),
 "_spearman_corr uses": ("C20 C10", "_spearman_corr indexed i*m+t (row stride is tmax) and read the int8 mask through int*"),
 "surrogate test matrices": ("C20", "test_pearson_correlation/test_mutual_information accepted surrogates of a different shape (out-of-bounds reads)"),
 "bootstrap distance": ("C07", "bootstrap_distance_matrix always raised (int64 indices bound to NODE_t buffer)"),
 "internal_link_attribute": ("C04 C11", "internal_link_attribute('link_weights',[3,1,2]) returned the block in sorted order"),
 "diameter(": ("C03", "diameter(only_connected=False) of an unconnected network returned inf instead of N"),
 "MutualInfoClimateNetwork forwards": ("C09", "MutualInfoClimateNetwork(data, link_density=0.4) raised AttributeError (link_density not forwarded)"),
 "CoupledClimateNetwork keeps": ("C09", "CoupledClimateNetwork(..., directed=True) ended undirected with unit node weights"),
 "pinv rcond": ("C18", "ResNetwork on a 26-node chain: max|R| 2.9e12, effective resistance wrong, current-flow betweenness all zero"),
 "spearman_corr rejects": ("C20", "RainfallClimateNetwork.spearman_corr(mask (2,6), anomaly (3,6)) read outside the mask"),
 "n_bins < 1": ("C20", "Surrogates.test_mutual_information(n_bins=0) wrote outside the (empty) histograms"),
 "repeated or doubly oriented": ("C05", "Network(edge_list=net.edge_list(), n_nodes=N) (both orientations) gave adjacency entries 2 and doubled n_links"),
 "single-node network": ("C05", "Network(adjacency=[[0]]) raised ZeroDivisionError in the link density"),
 "horizontal visibility graph keeps": ("C14", "VisibilityGraph([3,1,nan,1,3], missing_values=True, horizontal=True): the missing sample was linked to nodes 0, 1 and 3"),
 "records the new threshold": ("C01", "RecurrencePlot(sparse_rqa=True).set_fixed_threshold(t) left self.threshold unchanged: sequential RQA values stale"),
 "recomputes the missing-value indices": ("C01", "RecurrencePlot(missing_values=True): assigning a new embedding kept the old missing_value_indices"),
 "no longer write into their array arguments": ("C06", "Data.rescale, GeoGrid.region_indices and GeoNetwork.latlon2cartesian modified their array arguments in place (finding #30)"),
 "clears the diagonal instead of subtracting": ("C07", "JointRecurrenceNetwork([0,0],[0,0],threshold=(0,1)) had adjacency [[-1,0],[0,-1]] (JR - identity where JR[i,i]==0)"),
 "twinness of the component": ("C02 C03 C04", "nsi_arenas_betweenness(stopping_mode='twinness') indexed the whole-network twinness matrix with component-local indices: isolated node 0 + path 1-2-3 gave [0, 1.2857, 0, 3.0]"),
 "zero-variance series with an inexact mean": ("C10", "CouplingAnalysis(d).cross_correlation(0,'all') with a column of seven 0.1: entries nan / inf instead of 0 (anomalies a non-zero constant, std 0, only NaN was reset)"),
 "quantile thresholds of narrow integer": ("C16", "make_event_matrix(int8 column [-84,-60,-44,116,98,122], 'quantile', 0.5, 'above') marked no event: np.quantile overflowed in int8 (threshold 155)"),
 "wrappers reject matrices that are not N x N": ("C20 C18", "ResNetwork: res.adjacency = 12x12 matrix, then edge_current_flow_betweenness() / vertex_current_flow_betweenness(0) indexed the stored 5x5 admittance / R as 12x12 (values from foreign memory)"),
 "exactly collinear series is infinite": ("C10", "CouplingAnalysis.mutual_information(estimator='gauss') of exactly collinear columns: r marginally above 1 by rounding gave NaN instead of +inf (also breaking lag_mode='max')"),
 "closeness of directed networks uses": ("C03", "closeness() on directed networks called igraph with its default mode (directions ignored): directed 3-cycle gave [1,1,1] instead of 2/3 and disagreed with closeness(link_attribute) at unit lengths"),
 "rank tied values by their average rank": ("C10", "SpearmanClimateNetwork ranked with a double argsort (ties broken by position): rho 0.857 instead of 0.8 on data with tied samples"),
 "rejects lag ranges its 8 bit lag matrix": ("C10 C20", "CouplingAnalysis.cross_correlation(tau_max=140, lag_mode='max'): true lag 130 reported as -126 (lag matrix is int8; finding #18)"),
 "setters update the network they belong to": ("C01 C07", "InterSystemRecurrenceNetwork.set_fixed_threshold/_recurrence_rate called after construction replaced rp_x/rp_y/crp_xy but not the adjacency: thresholds (1,1,1) then set_fixed_threshold((1.6,1.4,1.8)) gave n_links 56 vs 74 for a fresh object"),
 "ClimateNetwork.Load reads what": ("C05", "ClimateNetwork.Load raised on every input (np.load without allow_pickle on an ndarray.dump file; constructor called without threshold / link density): n.save((a.graphml, g.pkl, s.npy)); ClimateNetwork.Load(same) -> ValueError / AttributeError"),
 "GeoGrid.LoadTXT reads grids with a single": ("C05 C12", "GeoGrid(np.arange(1.), lat, lon).save_txt(f); GeoGrid.LoadTXT(f) raised TypeError: len() of unsized object"),
 "keep their phase-selected link directions": ("C01 C09", "HilbertClimateNetwork(directed=True): the inherited regenerating setters dropped the phase-direction mask (22 links after set_threshold vs 11 for a fresh network)"),
 "reinstall their link attribute after it was deleted": ("C01", "after del_link_attribute('inv_correlation_distance') the memoised inv_correlation_distance() did not reinstall the link attribute and correlation_distance_weighted_closeness() raised"),
 "vanishing Fourier amplitudes": ("C15", "refined_AAFT_surrogates returned NaN rows when a Fourier coefficient of the iterate was exactly zero (e.g. [1,-1,2,-2,3,-3,0,0])"),
}
fixed = []
for h, msg in fix:
    k = [k for k in M if k in msg]
    assert len(k) == 1, (msg, k)
    for p in M[k[0]][0].split():
        fixed.append(f"fixed: property={p} {h} {M[k[0]][1]}")
known = [
 {"property": "C11", "match": r"^bounded:nsi_cross_average_path_length/(definition|arg-symmetry)$", "what": "nsi_cross_average_path_length sums the node weights of list 1 for both factors (W_P*W_P instead of W_P*W_Q): ([0,5],[1,2,4]) -> 3.3306 but ([1,2,4],[0,5]) -> 1.5742 on the undirected test network; the suite pins 3.3306, so it cannot be repaired"},
 {"property": "C03", "match": r"^bounded:link_betweenness/directed-link-covered$", "what": "link_betweenness on directed networks assumes igraph's undirected edge order: directed 8-cycle, link 7->0 gets 0"},
 {"property": "C02", "match": r"^bounded:(nsi_cross_average_path_length|nsi_cross_closeness_centrality|nsi_internal_closeness_centrality(\[l[12]\])?)/split-unreachable-pairs$", "what": "n.s.i. cross/internal closeness and cross average path length replace unreachable pairs by N-1, which changes under a split: A=[[0,1,0],[1,0,0],[0,0,0]], lists [0,1],[2], split node 2: cross closeness [0.5,0.5] -> [0.333,0.333]"},
 {"property": "C02", "match": r"^bounded:nsi_newman_betweenness\[add_local_ends\]/split-singleton-component$", "what": "nsi_newman_betweenness(add_local_ends=True) hard-codes 0 for one-node components: two isolated nodes w=[3,0.5], splitting node 0 gives [0,0] -> [9,0,9]"},
 {"property": "C04", "match": r"^bounded:(Network|GeoNetwork|SpatialNetwork|RecurrenceNetwork|InteractingNetworks|ResNetwork)\.(link_betweenness|edge_betweenness)/relabel-directed$", "what": "link_betweenness on directed networks writes igraph's directed edge values back through an i<j enumeration: [[0,1],[0,0]] gives [[0,1],[1,0]] but [[0,0],[1,0]] gives zeros"},
 {"property": "C04", "match": r"^bounded:(Network|GeoNetwork|SpatialNetwork|RecurrenceNetwork|InteractingNetworks|ResNetwork)\.(transitivity|higher_order_transitivity\[3\]|transitivity_dim_single_scale.*)/relabel-directed$", "what": "transitivity on directed networks depends on the numbering: [[0,1,1],[1,0,1],[0,0,0]] gives 0.857, the same graph numbered [[0,1,1],[0,0,0],[1,1,0]] gives 0.4286"},
 {"property": "C04", "match": r"^bounded:GeoNetwork\.(in|out)?area_weighted_connectivity(_cumulative)?_distribution/relabel-binning$", "what": "geographical_distribution puts the maximal element into bin n_bins-1 or n_bins-2 depending on float32 rounding of the order of summation"},
 {"property": "C05", "match": r"^bounded:(SpatialNetwork\.|GeoNetwork\.|ClimateNetwork\.)?save_load\[gml\]/node_weights$", "what": "igraph's GML writer strips '_' from attribute names: node_weight_nsi is written as nodeweightnsi and Load returns unit (or cos-lat) weights"},
 {"property": "C05", "match": r"^bounded:adjacency_setter/known29-N-change-node-weights$", "what": "adjacency.setter can change N while node_weights keep their old length (finding #29)"},
 {"property": "C07", "match": r"^bounded:RecurrenceNetwork/missing/(rqa-size-consistent-with-R|setter/adjacency-is-R-without-diagonal)$", "what": "RecurrenceNetwork(missing_values=True) with a NaN state: self.N becomes the order of the reduced network while R keeps its full order (recurrence_rate() 0.625 instead of 0.4; first set_* call uses the wrong diagonal stride)"},
 {"property": "C09", "match": r"^bounded:consistency/undirected-adjacency-symmetric$", "what": "HavlinClimateNetwork(SmallTestData, max_delay=3): similarity is asymmetric (S[0,1]=4.94, S[1,0]=4.16) but the network is declared undirected"},
 {"property": "C10", "match": r"^bounded:mutual_information/binning-lagged-norm$", "what": "binned MI with tau_max > 0 normalises entropies by T instead of T - tau_max (factor 0.9 for T=60, tau_max=6); the suite pins the current values (test_mutual_information_binning), so it cannot be repaired without editing a test"},
 {"property": "C06", "match": r"^bounded:Surrogates\.test_threshold_significance/caller-array-unchanged$", "what": "Surrogates keeps the caller's array and test_threshold_significance normalises it in place (finding #11)"},
 {"property": "C06", "match": r"^bounded:Surrogates\.twin_surrogates/(no-interference|object-arrays-unchanged)$", "what": "Surrogates.twin_surrogates assigns self.embedding, which changes what twins() returns afterwards"},
 {"property": "C06", "match": r"^obligation:C06/MODIFIES/Surrogates\.(original_distribution|test_threshold_significance)$", "what": "Surrogates keeps the caller's array and test_threshold_significance/original_distribution normalise it in place (finding #11)"},
]
json.dump({"_comment": "Known findings (genuine defects of pik-copan/pyunicorn recorded, not repaired) and repaired defects. `match` is a regular expression over the finding identifier printed by the check ('bounded:<check name>' or 'obligation:<obligation id>'). Never written at run time; regenerate with tools/gen_known.py.",
           "known": known, "fixed": fixed}, open('/verif/known_findings.json', 'w'), indent=1)
print(len(fixed), 'fixed entries', len(known), 'known')
