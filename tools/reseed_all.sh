#!/bin/bash
log=$1; shift
for id in "$@"; do /verif/tools/reseed.sh $id >> $log 2>&1; done
echo DONE >> $log
