#!/bin/bash
# usage: tools/seedtest.sh <PROP> <a|b> [--nosuite]   (inputs in /tmp/seed-<PROP>-out)
# Confirms a seeded change (demo passes on /repo, fails on the changed copy, suite still green) and runs
# the property's quick check against the changed copy.  Keeps the record under /verif/seeded/<PROP>-<x>/.
P=$1; X=$2; OUT=/tmp/seed-$P-out
D=$(mktemp -d /tmp/seedrun-XXXX)
rsync -a --exclude .git --exclude build --exclude docs /repo/ $D/
cd $D && patch -p1 -s < $OUT/${X}_patch.diff || { echo "PATCH FAILED"; rm -rf $D; exit 9; }
if grep -qE '\.pyx|\.c$|\.pxd' <(grep '^+++ ' $OUT/${X}_patch.diff); then
  /venv/bin/python setup.py build_ext --inplace --force -j8 >/dev/null 2>&1 || { echo "BUILD FAILED"; rm -rf $D; exit 9; }
  rm -rf build
fi
PYTHONPATH=/repo/src /venv/bin/python $OUT/${X}_demo.py >/dev/null 2>&1; d0=$?
PYTHONPATH=$D/src /venv/bin/python $OUT/${X}_demo.py > $D/demo.out 2>&1; d1=$?
suite="skipped"
if [ "$3" != "--nosuite" ]; then
  suite=$(cd $D && PYTHONPATH=$D/src /venv/bin/python -m pytest tests -q -p no:cacheprovider -n 8 --timeout=900 --continue-on-collection-errors 2>&1 | tail -1)
fi
cd /verif
PVC_REPO=$D ./check $P > $D/check.out 2>&1; rc=$?
mkdir -p /verif/seeded/$P-$X
cp $OUT/${X}_patch.diff /verif/seeded/$P-$X/patch.diff
cp $OUT/${X}_demo.py /verif/seeded/$P-$X/demo.py
python3 - "$P" "$X" "$d0" "$d1" "$suite" "$rc" "$D" "$OUT" <<'PY'
import json,sys
P,X,d0,d1,suite,rc,D,OUT=sys.argv[1:]
try: meta=json.load(open(f"{OUT}/{X}_meta.json"))
except Exception: meta={}
import os
oldp=f"/verif/seeded/{P}-{X}/meta.json"
if suite=="skipped" and os.path.exists(oldp):
    try:
        o=json.load(open(oldp)); suite=o["confirmed"]["suite_with_change"]+" (from the first confirmation run)" if "skipped" not in o["confirmed"]["suite_with_change"] and "first confirmation" not in o["confirmed"]["suite_with_change"] else o["confirmed"]["suite_with_change"]
    except Exception: pass
chk=open(f"{D}/check.out").read()
summary=[l for l in chk.split("\n") if l.startswith(P+" [")]
viol=[l for l in chk.split("\n") if l.startswith("VIOLATION")]
detail=[l for l in chk.split("\n") if l.startswith("  ")][:6]
rec={"property":P,"id":f"{P}-{X}","summary":meta.get("summary"),"needs":meta.get("needs"),"files":meta.get("files"),
 "confirmed":{"demo_on_unchanged_repo_exit":int(d0),"demo_on_changed_copy_exit":int(d1),"suite_with_change":suite,
              "commands":["tools/seedtest.sh %s %s"%(P,X)]},
 "check":{"cmd":f"PVC_REPO=<changed copy> ./check {P}","exit":int(rc),"summary":summary[:1],"violations":len(viol),"first_details":detail}}
json.dump(rec,open(f"/verif/seeded/{P}-{X}/meta.json","w"),indent=1)
print(f"{P}-{X}: demo unchanged={d0} changed={d1} suite='{suite}' check_exit={rc} violations={len(viol)}")
for l in detail[:3]: print("   ",l[:220])
PY
rm -rf $D
