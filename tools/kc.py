"""Development aid: run the contracts of one kernel family / name and print what is not proved."""
import sys, importlib
sys.path.insert(0, '/verif')
from pvc.runner import run_jobs
import contracts.kernels as K
names = sys.argv[1:]
jobs = [j for j in K.all_jobs() if not names or any(n in j.tag for n in names)]
res = run_jobs(jobs, workers=14)
for r in res:
    st = {}
    for x in r['results']:
        st[x['status']] = st.get(x['status'], 0) + 1
    print(f"{r['tag']:50s} {st} wall={r.get('wall')} {r['inapplicable'] or ''} {(r['error'] or '')[-400:]} {'VACUOUS' if r.get('vacuous') else ''} {r.get('missing_loops') or ''}")
    for x in r['results']:
        if x['status'] != 'proved':
            print('      ', x['status'], x['time'], x['id'][:200], (str(x['model'])[:400] if x['status'] == 'refuted' else x['detail']))
