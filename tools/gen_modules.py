"""One-off generator of the per-property module skeletons contracts/cNN.py (kept for reference)."""
import os, textwrap
TPL = '''"""{pid}: {title}  (see DESIGN.md section 5)"""
from contracts import kernels as K
from contracts.common import TRUSTED_ENGINE, ASSUME_COMMON, has_bounded, vacuity_canary, bounds_canary

PROP = "{pid}"
LEVEL = "{level}"
HAS_BOUNDED = has_bounded(PROP)
TRUSTED_BASE = TRUSTED_ENGINE
EXPLANATION = ({expl!r})
ASSUMPTIONS = ASSUME_COMMON + {assume!r}
NOT_DECIDED = {notdec!r}


def jobs(tier):
    return K.jobs_for(PROP)


def canaries(tier):
    js = jobs(tier)
    out = []
    for j in js[:{ncan}]:
        out.append(vacuity_canary(j))
        if any("shape(" in r or "extent(" in r for r in j.contract.requires):
            out.append(bounds_canary(j))
    return out
'''
import json
props = [json.loads(l) for l in open('/verif/properties.jsonl')]
for p in props:
    pid = p['id']
    path = f'/verif/contracts/{pid.lower()}.py'
    if os.path.exists(path):
        continue
    open(path, 'w').write(TPL.format(pid=pid, title=p['title'], level='other', expl='TODO', assume=[], notdec=[], ncan=3))
    print('wrote', path)
