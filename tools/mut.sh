#!/bin/bash
# usage: tools/mut.sh <relpath> <python-expr producing new text from s> -- <command...>
# copies /repo to a scratch dir, applies the edit, runs the command with PVC_REPO set, removes the copy
set -e
rel="$1"; expr="$2"; shift 3
d=$(mktemp -d /tmp/mut-XXXX)
rsync -a --exclude .git --exclude build --exclude docs /repo/ $d/
python3 - "$d/$rel" "$expr" <<'PY'
import sys
p,e=sys.argv[1],sys.argv[2]
s=open(p).read()
t=eval(e)
assert t!=s, "edit did not change the file"
open(p,'w').write(t)
PY
PVC_REPO=$d "$@" || true
rm -rf $d
