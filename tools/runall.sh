#!/bin/bash
# run every registered quick check once, print a summary line per property
cd /verif
for i in $(seq -w 1 20); do
  p=C$i
  s=$(date +%s)
  out=$(./check $p --tier ${1:-quick} 2>&1); rc=$?
  e=$(date +%s)
  echo "$p exit=$rc wall=$((e-s))s :: $(echo "$out" | grep "^$p \[" | cut -c1-200)"
  echo "$out" | grep -E "VIOLATION|CHECKER-BROKEN|UNDECIDED|INAPPLICABLE|KNOWN-FINDING" | cut -c1-260 | head -12
done
