"""Refresh the COUNTS paragraph of DESIGN.md from /repo's commit log, known_findings.json and seeded/."""
import json, subprocess, glob
n_fix = len(subprocess.run(["git", "-C", "/repo", "log", "--format=%h", "--grep=^fix:"], capture_output=True, text=True).stdout.split())
k = json.load(open('/verif/known_findings.json'))
seeds = sorted(glob.glob('/verif/seeded/*/meta.json'))
lay = {"P": 0, "R": 0, "B": 0, "Ponly": 0, "noP": 0, "det": 0}
for f in seeds:
    m = json.load(open(f)); c = m.get('check', {}); L = c.get('layers') or {}
    p = next((v for kk, v in L.items() if kk.startswith('P')), 0); r = next((v for kk, v in L.items() if kk.startswith('R')), 0)
    b = next((v for kk, v in L.items() if kk.startswith('B')), 0)
    lay["P"] += p > 0; lay["R"] += r > 0; lay["B"] += b > 0; lay["det"] += c.get('exit') == 1
txt = (f"{n_fix} `fix:` commits in `/repo`, recorded as {len(k['fixed'])} `fixed:` lines; {len(k['known'])} `known` entries.  "
       f"Seeded changes on record: {len(seeds)}, detected by the final machinery (exit 1): {lay['det']}; a proof obligation is refuted for "
       f"{lay['P']} of them, a contract clause fails at run time for {lay['R']}, a bounded contract fails for {lay['B']}.\n")
p = '/verif/DESIGN.md'; s = open(p).read()
a, b = s.index('<!-- COUNTS:BEGIN -->'), s.index('<!-- COUNTS:END -->')
s = s[:a] + '<!-- COUNTS:BEGIN -->\n' + txt + s[b:]
open(p, 'w').write(s)
print(txt)
