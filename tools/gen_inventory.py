"""Regenerates DESIGN.md section 10.8 (functions under contract as built) from the contract registry."""
import sys
sys.path.insert(0, '/verif')
import contracts.kernels as K                      # noqa: E402
from collections import defaultdict                # noqa: E402
g = defaultdict(list)
for j in K.all_jobs():
    c = j.contract
    kind = []
    if c.ensures:
        kind.append("post")
    if getattr(c, 'rtc_ensures', None):
        kind.append("rt-post")
    if c.loops:
        kind.append("inv")
    if c.asserts:
        kind.append("call-site")
    g[j.module].append(f"`{j.tag}` ({', '.join(kind) or 'safety'})")
HEAD = "### 10.8 Functions under contract as built"
lines = [HEAD + " (generated from the registry: `contracts/kernels*.py`, `contracts/uses_extra_*.py`)", "",
         "`post` = functional postcondition proved, `inv` = loop invariants, `call-site` = obligations at the call of a kernel inside a "
         "Python method (USES), `rt-post` = clause evaluated by the R layer only, `safety` = bounds / overflow / narrowing / frame "
         "obligations only.  Structural obligation families (FRAME, GUARD, MONO, MRO, REPINV, MODIFIES / RESTORE, FIELDFRAME, NOSTATE, "
         "DIRECTIVES, LEMMA) are per class / per method of every `Cached` class and are listed in the evidence files.", ""]
for m in sorted(g):
    lines.append(f"* **{m}** ({len(g[m])}): " + "; ".join(sorted(g[m])))
P = '/verif/DESIGN.md'
s = open(P).read()
if HEAD in s:
    s = s[:s.index(HEAD)].rstrip() + "\n\n"
open(P, 'w').write(s.rstrip() + "\n\n" + "\n".join(lines) + "\n")
print(sum(len(v) for v in g.values()), "contracts in", len(g), "modules")
