"""dev: run the run-time contract check of kernels by name substring:  tools/rtc.py <substr> [count]"""
import sys, json, time
sys.path.insert(0, '/verif')
from contracts import kernels as K
from pvc import rtc, build
sub = sys.argv[1]; cnt = int(sys.argv[2]) if len(sys.argv) > 2 else 8
src = build.src().rstrip('/') if hasattr(build, 'src') else '/repo/src'
import os
src = os.path.join(build.REPO, 'src')
for j in K.all_jobs():
    if sub in j.tag and (j.contract.ensures or getattr(j.contract,'rtc_ensures',None)) and (j.lang == 'cy' or getattr(j.contract,'vectors',False) or getattr(j.contract,'rtc_py',False)):
        r = rtc._rtc_worker((j, src, cnt, 0, ()))
        v = r.pop('violated')
        print(j.tag, {k: r[k] for k in ('cases','evaluated','holds','nonterminating','raised','inapplicable','wall') if k in r}, 'skipped:', list(r['skipped'].values())[:2], 'ERR' if r['error'] else '', r.get('raised_example') or '')
        if r['error']: print(r['error'])
        for x in v[:2]: print('   VIOL', x['clause'][:100], x['detail'][:200], json.dumps(x.get('inputs'))[:300])
