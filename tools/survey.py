"""Run every pyx / C function with an empty contract; summarise obligations (development aid)."""
import sys, json
sys.path.insert(0, '/verif')
from pvc.runner import Job, run_jobs, load_module
from pvc.symex import Contract
jobs = []
for pkg in ['core', 'timeseries', 'funcnet', 'climate']:
    m = load_module(pkg, 'cy')
    for n in m['funcs']:
        jobs.append(Job(pkg, n, Contract(n)))
    for n in m['cfuncs']:
        jobs.append(Job(pkg, n, Contract(n), lang='c'))
res = run_jobs(jobs, workers=14, timeout_ms=4000)
for r in res:
    st = {}
    for x in r['results']:
        st[x['status']] = st.get(x['status'], 0) + 1
    print(f"{r['module']:10s} {r['func']:45s} {st} {r['inapplicable'] or ''} {(r['error'] or '')[-200:]}")
    if '-v' in sys.argv:
        for x in r['results']:
            if x['status'] != 'proved':
                print('      ', x['status'], x['id'][:150])
