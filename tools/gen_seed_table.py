"""Rewrite the seeded-change table of DESIGN.md (between the SEEDTABLE markers) from seeded/*/meta.json."""
import json, glob, re
rows = []
for f in sorted(glob.glob('/verif/seeded/*/meta.json')):
    m = json.load(open(f))
    c = m.get('check', {})
    lay = c.get('layers') or {}
    def n(k):
        return next((v for kk, v in lay.items() if kk.startswith(k)), None)
    summ = (m.get('summary') or '').replace('|', '/').replace('\n', ' ')
    summ = re.sub(r'\s+', ' ', summ)[:150]
    files = ', '.join(sorted({x.split('/')[-1] for x in (m.get('files') or [])}))[:60]
    und = '; '.join(c.get('undecided_or_inapplicable') or [])[:0]
    rows.append(f"| {m['id']} | {summ} | {files} | {c.get('exit')} | {n('P') if lay else '?'} | {n('R') if lay else '?'} | {n('B') if lay else '?'} |")
tab = "| id | change (first words of the author's summary) | files | exit | P | R | B |\n|---|---|---|---|---|---|---|\n" + "\n".join(rows)
p = '/verif/DESIGN.md'
s = open(p).read()
a, b = s.index('<!-- SEEDTABLE:BEGIN -->'), s.index('<!-- SEEDTABLE:END -->')
s = s[:a] + '<!-- SEEDTABLE:BEGIN -->\n' + tab + '\n' + s[b:]
open(p, 'w').write(s)
print(len(rows), 'rows')
