"""Regenerate /verif/MANIFEST.json from the per-property modules (contracts/cNN.py)."""
import importlib, json, os, sys
sys.path.insert(0, '/verif')
props = [json.loads(l) for l in open('/verif/properties.jsonl')]
checks, na = [], []
for p in props:
    pid = p['id']
    m = importlib.import_module(f'contracts.{pid.lower()}')
    if not getattr(m, 'CLAIMED', True):
        na.append({"property_id": pid, "reason": m.NA_REASON})
        continue
    checks.append({
        "property_id": pid,
        "quick_cmd": f"./check {pid} --tier quick",
        "thorough_cmd": f"./check {pid} --tier thorough",
        "evidence_file": f"/verif/evidence/{pid}.json",
        "replay_cmd_template": f"./check {pid} --replay {{path}}",
        "engine": "pvc",
        "level_claimed": {"category": m.LEVEL, "text": m.LEVEL_TEXT, "design_ref": f"DESIGN.md section 5, {pid}"},
        "level_note": m.LEVEL_NOTE,
        "technique": m.TECHNIQUE,
    })
man = {
    "version": 1,
    "setup_cmd": "./setup.sh",
    "hooks": {"guard": "PYUNICORN_VERIF", "enable": "no source hooks: contracts are sidecar files keyed to the code; checks read /repo's working tree and build a scratch copy",
              "baseline_off_cmd": "cd /repo && /venv/bin/python -m pytest -ra -q -p no:cacheprovider --timeout=900 --continue-on-collection-errors",
              "source_commits": [], "add_only": True},
    "engines": [{"name": "pvc", "path": "/verif/pvc", "serves_properties": [c["property_id"] for c in checks],
                 "kind_free_text": "contract-based deductive verification: VCs generated from the parsed Cython/C/Python source against sidecar contracts, discharged by z3/cvc5; bounded stand-ins (same contracts evaluated on the rebuilt real code) labelled bounded"}],
    "checks": checks,
    "not_applicable": na,
    "notes": "Exit codes: 0 held, 1 VIOLATION, 2 undecided (never a VIOLATION line), 3 checker broken. `fix:` commits in /repo repair genuine defects (known_findings.json lists them as fixed).",
}
json.dump(man, open('/verif/MANIFEST.json', 'w'), indent=1)
import jsonschema
jsonschema.validate(man, json.load(open('/root/.vp/MANIFEST.schema.json')))
print("MANIFEST ok:", len(checks), "checks;", len(na), "not applicable")
