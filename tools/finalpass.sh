#!/bin/bash
# Final pass before committing: baselines, fresh evidence of /repo (quick tier), every recorded seeded change re-run
# against the final machinery, seed table, schema validation.
cd /verif
for i in $(seq -w 1 20); do ./check C$i --no-bounded --update-baseline > /dev/null 2>&1; done
tools/runall.sh > /tmp/runall_final.log 2>&1
grep -E "^C[0-9]+ exit" /tmp/runall_final.log | cut -c1-160
cd /verif/seeded; A=$(ls -d C0[1-4]-* | tr '\n' ' '); B=$(ls -d C0[5-9]-* | tr '\n' ' '); C=$(ls -d C1[0-4]-* | tr '\n' ' '); D=$(ls -d C1[5-9]-* C20-* | tr '\n' ' '); cd /verif
rm -f /tmp/reseed_[ABCD].log
/verif/tools/reseed_all.sh /tmp/reseed_A.log $A > /dev/null 2>&1 &
/verif/tools/reseed_all.sh /tmp/reseed_B.log $B > /dev/null 2>&1 &
/verif/tools/reseed_all.sh /tmp/reseed_C.log $C > /dev/null 2>&1 &
/verif/tools/reseed_all.sh /tmp/reseed_D.log $D > /dev/null 2>&1 &
wait
cat /tmp/reseed_[ABCD].log | grep -v DONE | awk '{print $1, $4, $5, $6, $7, $8}' | grep -v "exit=1" 
.venv/bin/python tools/gen_seed_table.py
