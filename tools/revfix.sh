#!/bin/bash
# usage: tools/revfix.sh <commit-ish in /repo> -- <command...> : run command against a scratch copy with that commit reverted
set -e
c="$1"; shift 2
d=$(mktemp -d /tmp/rev-XXXX)
rsync -a --exclude .git --exclude build --exclude docs /repo/ $d/
git -C /repo show "$c" | (cd $d && patch -R -p1 -s)
PVC_REPO=$d "$@" || true
rm -rf $d
