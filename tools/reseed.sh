#!/bin/bash
# usage: tools/reseed.sh <ID>     e.g. C07-a
# Re-runs the property's quick check against a scratch copy of /repo with the recorded seeded change applied
# (seeded/<ID>/patch.diff) and refreshes the "check" section of seeded/<ID>/meta.json (the confirmation section -
# demo / suite results - is kept; the demo is re-run on both trees as a sanity check).
ID=$1; P=${ID%%-*}; S=/verif/seeded/$ID
D=$(mktemp -d /tmp/reseed-XXXX)
rsync -a --exclude .git --exclude build --exclude docs /repo/ $D/
cd $D && patch -p1 -s < $S/patch.diff || { echo "$ID PATCH FAILED"; rm -rf $D; exit 9; }
if grep -qE '\.pyx|\.c$|\.pxd' <(grep '^+++ ' $S/patch.diff); then
  /venv/bin/python setup.py build_ext --inplace --force -j4 >/dev/null 2>&1 || { echo "$ID BUILD FAILED"; rm -rf $D; exit 9; }
  rm -rf build
fi
PYTHONPATH=/repo/src /venv/bin/python $S/demo.py >/dev/null 2>&1; d0=$?
PYTHONPATH=$D/src /venv/bin/python $S/demo.py > /dev/null 2>&1; d1=$?
cd /verif
PVC_REPO=$D ./check $P > $D/check.out 2>&1; rc=$?
python3 - "$ID" "$P" "$d0" "$d1" "$rc" "$D" <<'PY'
import json,sys,re
ID,P,d0,d1,rc,D=sys.argv[1:]
p=f"/verif/seeded/{ID}/meta.json"; m=json.load(open(p))
chk=open(f"{D}/check.out").read().split("\n")
summary=[l for l in chk if l.startswith(P+" [")]
viol=[l for l in chk if l.startswith("VIOLATION")]
lay={"P (refuted proof obligation)": sum(1 for l in chk if l.startswith("  refuted obligation")),
     "R (contract clause fails at run time on the rebuilt code)": sum(1 for l in chk if "fails at run time" in l),
     "B (bounded contract fails on the real code)": sum(1 for l in chk if l.startswith("  bounded contract"))}
und=[l.strip()[:200] for l in chk if l.startswith("  UNDECIDED") or l.startswith("  INAPPLICABLE")][:4]
m["check"]={"cmd":f"PVC_REPO=<scratch copy with the change> ./check {P}","exit":int(rc),"summary":summary[:1],"violations":len(viol),
            "layers":lay,"undecided_or_inapplicable":und,
            "first_details":[l[:260] for l in chk if l.startswith("  ") and not l.startswith("  UNDECIDED") and not l.startswith("  INAPPLICABLE")][:4]}
m.setdefault("confirmed",{})["demo_recheck"]={"unchanged":int(d0),"changed":int(d1)}
json.dump(m,open(p,"w"),indent=1)
print(f"{ID}: demo {d0}/{d1} exit={rc} viol={len(viol)} P={lay['P (refuted proof obligation)']} R={lay['R (contract clause fails at run time on the rebuilt code)']} B={lay['B (bounded contract fails on the real code)']}")
PY
rm -rf $D
