"""Replay of verifier counter-models on the real, freshly built code (property-level oracles).

A replay returns {"failed": bool, "input": ..., "observed": ...}; `failed` means the concrete run shows the
violation.  Only obligations for which a meaningful concrete probe exists have a replay; for the others the
VIOLATION line ends with no-failing-input-found and the replay file carries the verifier's output."""
import json
import os
import subprocess
import sys

PROBES = {
    # obligation-id prefix -> python snippet printing a JSON object {"failed":..., "input":..., "observed":...}
    "ResNetwork.vertex_current_flow_betweenness[uses]": r'''
import json, numpy as np
from pyunicorn.core import ResNetwork
net = ResNetwork.SmallTestNetwork(); N = net.N
bad = []
for i in (-N - 1, -2 * N, -3 * N - 1, N, N + 1, 3 * N):
    try:
        v = net.vertex_current_flow_betweenness(i)
        bad.append([i, repr(v)])
    except IndexError:
        pass
print(json.dumps({"failed": bool(bad), "input": "ResNetwork.SmallTestNetwork().vertex_current_flow_betweenness(i) for i outside [0,N)",
                  "observed": bad}))
''',
    "Surrogates.test_mutual_information[uses]": r'''
import json, numpy as np
from pyunicorn.timeseries import Surrogates
rng = np.random.RandomState(0); d = rng.randn(3, 20); bad = []
for kw, args in (("n_bins=0", (d, rng.randn(3, 20), 0)), ("shape", (d, rng.randn(3, 5), 8)), ("shape2", (d, rng.randn(2, 20), 8))):
    try:
        Surrogates.test_mutual_information(*args); bad.append(kw)
    except ValueError:
        pass
print(json.dumps({"failed": bool(bad), "input": "Surrogates.test_mutual_information with n_bins=0 / mismatched surrogate shapes", "observed": bad}))
''',
    "Surrogates.test_pearson_correlation[uses]": r'''
import json, numpy as np
from pyunicorn.timeseries import Surrogates
rng = np.random.RandomState(0); d = rng.randn(3, 20); bad = []
for s in (rng.randn(3, 5), rng.randn(2, 20), rng.randn(4, 21)):
    try:
        Surrogates.test_pearson_correlation(d, s); bad.append(list(s.shape))
    except ValueError:
        pass
print(json.dumps({"failed": bool(bad), "input": "Surrogates.test_pearson_correlation(data (3,20), surrogates of another shape)", "observed": bad}))
''',
    "RainfallClimateNetwork.spearman_corr[uses]": r'''
import json, numpy as np
from pyunicorn.climate import RainfallClimateNetwork, ClimateData
r = RainfallClimateNetwork(ClimateData.SmallTestData(), threshold=0.2, silence_level=3); bad = []
for shp in ((2, 6), (3, 5), (4, 7)):
    try:
        r.spearman_corr(np.ones(shp, bool), np.random.RandomState(0).rand(3, 6)); bad.append(list(shp))
    except ValueError:
        pass
print(json.dumps({"failed": bool(bad), "input": "RainfallClimateNetwork.spearman_corr(mask of another shape, anomaly (3,6))", "observed": bad}))
''',
}


def replay(result, build):
    for prefix, code in PROBES.items():
        if result["id"].startswith(prefix):
            tree = build.scratch_tree()
            env = dict(os.environ, PYTHONPATH=os.path.join(tree, "src"), PYTHONDONTWRITEBYTECODE="1")
            r = subprocess.run([sys.executable, "-c", code], env=env, capture_output=True, text=True, timeout=300, cwd=tree)
            line = [l for l in r.stdout.strip().split("\n") if l.startswith("{")]
            if not line:
                return {"failed": r.returncode != 0, "input": prefix, "observed": f"probe crashed: rc={r.returncode} {r.stderr[-300:]}"}
            return json.loads(line[-1])
    return None
