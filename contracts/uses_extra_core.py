"""Call-site (USES) contracts of the compiled kernels called from pyunicorn's `core/`, `funcnet/` and `climate/` packages.

Each contract symbolically executes the calling Python method and, at the kernel call, proves the kernel's
shape / length / index-range / argument-consistency `requires` (see contracts/kernels.py) for the actual arguments.
Kernel requirements that the method cannot establish from what it sees are NOT asserted; they are listed as
`# assumed:` next to the contract.
"""
from contracts.kernels import K, _uses, REG  # noqa: F401

_NET = "core/network.py"

# ============================================================================ Network.local_cliquishness
# kernel(N, A, degree)
# region requires: Network.adjacency (setter) rejects non-square input, sets self.N to the side length and the getter
#   returns self.sp_A.toarray() (N x N); self.degree() is a column / row sum of that matrix (length N)
# assumed: N<=32767 (not checked by the method); 0<=degree[a]<=N and A binary (content of the adjacency matrix)
_uses("Network.local_cliquishness[uses]", _NET, "Network.local_cliquishness", ("C03", "C20"),
      {"self.N": "int", "self.adjacency": "arr:int16:2", "order": "int", "self.directed": "bool", "self.silence_level": "int"},
      ["self.N>=0", "shape(self.adjacency,0)==self.N and shape(self.adjacency,1)==self.N"],
      # (`len(x)` instead of `shape(x,0)` first: it stays an obligation when a changed call site makes the argument opaque)
      {_k: ["order==%d" % _o, "arg0==self.N and arg0>=0", "len(arg1)==arg0", "len(arg2)==arg0",
            "shape(arg1,0)==arg0 and shape(arg1,1)==arg0", "shape(arg2,0)==arg0",
            "all(arg1[a,b]==self.adjacency[a,b] for a in range(self.N) for b in range(self.N))"]
       for _o, _k in ((4, "_local_cliquishness_4thorder"), (5, "_local_cliquishness_5thorder"))},
      total="<=1")
REG["Network.local_cliquishness[uses]"][0].contract.call_facts = {
    "self.degree": {"returns": "arr:int64:1", "ensures": ["shape(result,0)==self.N"]}}

# ============================================================================ SpatialNetwork.randomly_rewire_geomodel_I/II/III
# kernel(iterations, eps, A, D, E, edges[, degree])
# region requires: Network.adjacency (setter) rejects non-square input and sets self.N; the getter returns sp_A.toarray()
# assumed: shape(D,0)==shape(D,1)==N (distance_matrix is handed in by the caller and never checked);
#   shape(edges,0)==E, shape(edges,1)==2, E>=1 and the edge-table facts (edges comes from the igraph object, E from
#   self.n_links: they agree only for a symmetric adjacency matrix with empty diagonal, which the setter documents but
#   does not check); A symmetric / binary / zero diagonal (content of the adjacency matrix)
_SN = "core/spatial_network.py"
for _v in ("I", "II", "III"):
    _c = _uses(f"SpatialNetwork.randomly_rewire_geomodel_{_v}[uses]", _SN, f"SpatialNetwork.randomly_rewire_geomodel_{_v}",
               ("C17", "C20"),
               {"self.N": "int", "self.adjacency": "arr:int16:2", "self.n_links": "int", "distance_matrix": "arr:float64:2",
                "iterations": "int", "inaccuracy": "float", "self.silence_level": "int"},
               ["self.N>=0", "shape(self.adjacency,0)==self.N and shape(self.adjacency,1)==self.N"],
               {f"_randomly_rewire_geomodel_{_v}":
                ["arg4==self.n_links", "arg0==iterations", "len(arg2)==self.N", "len(arg3)==len(distance_matrix)"] +
                (["len(arg6)==len(arg2)"] if _v == "III" else []) +
                ["shape(arg2,1)==shape(arg2,0)", "all(arg2[a,b]==self.adjacency[a,b] for a in range(self.N) for b in range(self.N))",
                 "shape(arg3,0)==shape(distance_matrix,0) and shape(arg3,1)==shape(distance_matrix,1)"]})
    if _v == "III":
        _c.call_facts = {"self.degree": {"returns": "arr:int64:1", "ensures": ["shape(result,0)==self.N"]}}

# ============================================================================ InteractingNetworks: cross-link null models (static)
_IN = "core/interacting_networks.py"
# kernel(A, cross_A, number_cross_links, nodes1, nodes2, m, n)
# region requires: Network.adjacency (setter) rejects non-square input
# NumPy semantics assumed for ndarray.astype: the result has the shape of the receiver
# assumed: node indices inside [0, shape(A,0)), pairwise distinct, the two lists disjoint, m>=1, n>=1
#   (node_list1 / node_list2 are handed in by the caller and never checked)
_ASTYPE = {"network.adjacency.astype": {"returns": "arr:int8:2", "ensures": [
    "shape(result,0)==shape(network.adjacency,0) and shape(result,1)==shape(network.adjacency,1)"]}}
_c = _uses("InteractingNetworks.RandomlySetCrossLinks[uses]", _IN, "InteractingNetworks.RandomlySetCrossLinks", ("C17", "C20"),
           {"nodes1": "arr:int32:1", "nodes2": "arr:int32:1", "cross_A": "arr:int8:2", "network.adjacency": "arr:int16:2"},
           ["shape(network.adjacency,0)==shape(network.adjacency,1)"],
           {"_randomlySetCrossLinks": ["len(arg3)==arg5 and len(arg4)==arg6", "arg5>=0 and arg6>=0", "len(arg1)==arg5",
                                       "len(arg0)==len(network.adjacency)", "shape(arg0,1)==shape(arg0,0)",
                                       "shape(arg1,0)==arg5 and shape(arg1,1)==arg6",
                                       # stronger than the kernel's `binary`: the matrix handed over is empty
                                       "all(arg1[i,j]==0 for i in range(arg5) for j in range(arg6))",
                                       "all(arg3[i]==nodes1[i] for i in range(arg5)) and all(arg4[j]==nodes2[j] for j in range(arg6))"]})
_c.call_facts = dict(_ASTYPE)

# kernel(A, cross_A, cross_links, nodes1, nodes2, number_cross_links, number_swaps)
# assumed: shape(cross_A)==(len(nodes1),len(nodes2))
#   (result of network.cross_adjacency on the *lists*; the arrays nodes1/nodes2 are built separately from the same lists),
#   cross_links is the table of the non-zero entries of cross_A with number_cross_links rows (np.array(cross_A.nonzero()).T),
#   number_cross_links>=1, node index ranges / distinctness / disjointness (caller's lists).
# What is proved: A is square; the kernel is called exactly once and gets cross_A, nodes1, nodes2 in this order.
_c = _uses("InteractingNetworks.RandomlyRewireCrossLinks[uses]", _IN, "InteractingNetworks.RandomlyRewireCrossLinks", ("C17", "C20"),
           {"nodes1": "arr:int32:1", "nodes2": "arr:int32:1", "cross_A": "arr:int8:2", "swaps": "float",
            "network.adjacency": "arr:int16:2"},
           ["shape(network.adjacency,0)==shape(network.adjacency,1)"],
           {"_randomlyRewireCrossLinks": [
               "len(arg3)==len(nodes1) and len(arg4)==len(nodes2)", "len(arg1)==len(cross_A)",
               "len(arg0)==len(network.adjacency)", "shape(arg0,1)==shape(arg0,0)", "shape(arg1,1)==shape(cross_A,1)",
               "all(arg3[i]==nodes1[i] for i in range(len(nodes1))) and all(arg4[j]==nodes2[j] for j in range(len(nodes2)))",
               "all(arg1[i,j]==cross_A[i,j] for i in range(shape(cross_A,0)) for j in range(shape(cross_A,1)))"]})
_c.call_facts = dict(_ASTYPE)

# ============================================================================ InteractingNetworks: cross transitivity / clustering
# region requires (all four): Network.adjacency (setter) rejects non-square input and sets self.N; getter = sp_A.toarray()
_ADJ_IN = {"self.N": "int", "self.adjacency": "arr:int16:2"}
_ADJ_RQ = ["self.N>=0", "shape(self.adjacency,0)==self.N and shape(self.adjacency,1)==self.N"]
_A0 = ["len(arg0)==self.N", "shape(arg0,1)==shape(arg0,0)"]
# NumPy semantics assumed for np.eye(n, dtype=...): the n x n identity
_EYE = {"np.eye": {"returns": "arr:int8:2", "ensures": [
    "shape(result,0)==arg0 and shape(result,1)==arg0",
    "all(result[a,b]==ite(a==b,1,0) for a in range(arg0) for b in range(arg0))"]}}

# kernel(A, nodes1, nodes2)
# assumed: node indices inside [0, N) (caller's lists); len(nodes) <= INT32_MAX
_uses("InteractingNetworks.cross_transitivity[uses]", _IN, "InteractingNetworks.cross_transitivity", ("C11", "C04", "C20"),
      _ADJ_IN, _ADJ_RQ,
      {"_cross_transitivity": _A0 + ["all(arg0[a,b]==self.adjacency[a,b] for a in range(self.N) for b in range(self.N))"]})

# kernel(A, norm, nodes1, nodes2, cross_clustering)
# call fact: InteractingNetworks.cross_degree(self, l1, l2) = row sums of cross_adjacency(l1, l2): one entry per node of l1
# NumPy semantics assumed for np.zeros_like(x, dtype=...): zeros with the shape of x
# assumed: node index ranges (caller's lists)
_c = _uses("InteractingNetworks.cross_local_clustering[uses]", _IN, "InteractingNetworks.cross_local_clustering", ("C11", "C04", "C20"),
           dict(_ADJ_IN, nodes1="arr:int32:1", nodes2="arr:int32:1"), _ADJ_RQ,
           {"_cross_local_clustering": _A0 + ["len(arg1)==len(arg2)", "len(arg4)==len(arg2)",
                                              "len(arg2)==len(nodes1) and len(arg3)==len(nodes2)",
                                              "all(arg0[a,b]==self.adjacency[a,b] for a in range(self.N) for b in range(self.N))",
                                              "all(arg2[i]==nodes1[i] for i in range(len(nodes1))) and all(arg3[j]==nodes2[j] for j in range(len(nodes2)))"]})
_c.call_facts = {"InteractingNetworks.cross_degree": {"returns": "arr:int64:1", "ensures": ["shape(result,0)==shape(arg1,0)"]},
                 "np.zeros_like": {"returns": "arr:float64:1", "ensures": ["shape(result,0)==shape(arg0,0)",
                                                                           "all(result[i]==0 for i in range(shape(arg0,0)))"]}}

# kernel(A, nsi_cc, nodes1, nodes2, node_weights)     A = adjacency + identity
# region requires: Network.node_weights (setter) rejects a weight vector whose length is not self.N
# assumed: node index ranges (caller's lists)
_c = _uses("InteractingNetworks.nsi_cross_local_clustering[uses]", _IN, "InteractingNetworks.nsi_cross_local_clustering",
           ("C11", "C02", "C04", "C20"),
           dict(_ADJ_IN, nodes1="arr:int32:1", nodes2="arr:int32:1", **{"self.node_weights": "arr:float64:1"}),
           _ADJ_RQ + ["shape(self.node_weights,0)==self.N"],
           {"_nsi_cross_local_clustering": _A0 + ["len(arg1)==len(arg2)", "len(arg4)==len(arg0)",
                                                  "len(arg2)==len(nodes1) and len(arg3)==len(nodes2)",
                                                  "all(arg1[i]==0 for i in range(len(arg2)))",
                                                  "all(arg0[a,b]==self.adjacency[a,b]+ite(a==b,1,0) for a in range(self.N) for b in range(self.N))",
                                                  "all(arg4[a]==self.node_weights[a] for a in range(self.N))"]})
_c.call_facts = dict(_EYE)

# kernel(A, nodes1, nodes2, node_weights)
_c = _uses("InteractingNetworks.nsi_cross_transitivity[uses]", _IN, "InteractingNetworks.nsi_cross_transitivity",
           ("C11", "C02", "C04", "C20"),
           dict(_ADJ_IN, **{"self.node_weights": "arr:float64:1"}), _ADJ_RQ + ["shape(self.node_weights,0)==self.N"],
           {"_nsi_cross_transitivity": _A0 + ["len(arg3)==len(arg0)",
                                              "all(arg0[a,b]==self.adjacency[a,b]+ite(a==b,1,0) for a in range(self.N) for b in range(self.N))",
                                              "all(arg3[a]==self.node_weights[a] for a in range(self.N))"]})
_c.call_facts = dict(_EYE)

# ============================================================================ funcnet: CouplingAnalysis
_CA = "funcnet/coupling_analysis.py"
# kernel(similarity_matrix, lag_matrix, N)
# region requires: CouplingAnalysis.__init__ sets self.N = self.data.shape[1]
# assumed: shape(similarity_matrix)==(N,N), shape(lag_matrix)==(N,N) and -127<=lag<=127 (both matrices are handed in by
#   the caller and never compared with self.N)
_uses("CouplingAnalysis.symmetrize_by_absmax[uses]", _CA, "CouplingAnalysis.symmetrize_by_absmax", ("C10", "C20"),
      {"self.N": "int", "similarity_matrix": "arr:float64:2", "lag_matrix": "arr:int64:2"}, ["self.N>=0"],
      {"_symmetrize_by_absmax": ["arg2==self.N and arg2>=0", "len(arg0)==len(similarity_matrix) and len(arg1)==len(lag_matrix)",
                                 "shape(arg0,1)==shape(similarity_matrix,1) and shape(arg1,1)==shape(lag_matrix,1)",
                                 "all(arg0[a,b]==similarity_matrix[a,b] for a in range(shape(arg0,0)) for b in range(shape(arg0,1)))",
                                 "all(arg1[a,b]==lag_matrix[a,b] for a in range(shape(arg1,0)) for b in range(shape(arg1,1)))"]})

# kernel(array, N, tau_max, corr_range)
# NumPy semantics assumed for numpy.empty(shape, dtype=...): an array of that shape
# assumed: corr_range>=1 (T - tau_max is not checked: tau_max == T gives corr_range == 0 and the kernels divide by it);
#   tau_max<=2147483646
_c = _uses("CouplingAnalysis.cross_correlation[uses]", _CA, "CouplingAnalysis.cross_correlation", ("C10", "C20"),
           {"self.data": "arr:float64:2", "tau_max": "int", "lag_mode": "obj"}, [],
           {_k: ["arg1==shape(self.data,1) and arg1>=0", "arg2==tau_max and arg2>=0", "arg3==shape(self.data,0)-tau_max",
                 "len(arg0)==arg2+1", "shape(arg0,0)==arg2+1 and shape(arg0,1)==arg1 and shape(arg0,2)==arg3"]
                + (["arg2<=127"] if _k.endswith("_max") else [])      # int8 lags: checked by the method since the fix of finding #18
            for _k in ("_cross_correlation_max", "_cross_correlation_all")}, total="<=1")
_c.call_facts = {"numpy.empty": {"returns": "arr:float32:3", "ensures": [
    "shape(result,0)==arg0[0] and shape(result,1)==arg0[1] and shape(result,2)==arg0[2]"]}}

# kernel(array, dim, T, dim_x, dim_y, k)           (static method; `array` is rebound by `array = array.astype(FIELD)`)
# NumPy semantics assumed for ndarray.astype: the result has the shape of the receiver
# assumed: dim>=1, T>=1, k>=0 (caller's array / parameter, never checked); dim_x>=1, dim_y>=1, dim_x+dim_y<=dim
#   (computed from the content of xyz: positions of the last 0 and the last 1)
_c = _uses("CouplingAnalysis.get_nearest_neighbors[uses]", _CA, "CouplingAnalysis.get_nearest_neighbors", ("C10", "C20"),
           {"array": "arr:float64:2", "xyz": "arr:int64:1", "k": "int", "standardize": "bool"}, [],
           {"_get_nearest_neighbors": ["arg5==k", "len(arg0)==arg1", "shape(arg0,0)==arg1 and shape(arg0,1)==arg2"]})
_c.call_facts = {"array.astype": {"returns": "arr:float32:2", "ensures": [
    "shape(result,0)==shape(array,0) and shape(result,1)==shape(array,1)"]}}


# ============================================================================ climate: MutualInfoClimateNetwork
def _usesv(name, file, method, props, inputs, requires, calls, total="==1", region="body"):
    """_uses with the slice / view / `.T` model of pvc/npvec.py switched on"""
    cnt = "+".join(f"count('{k}')" for k in calls)
    c = K(name, file, lang="py", func=method, props=props, py_mode=True, vectors=True, inputs=inputs, requires=requires,
          asserts={"call:" + k: v for k, v in calls.items()}, count_calls=tuple(calls), ensures=[f"{cnt}{total}"],
          checks=("shape",))
    c.region = region
    return c


# kernel(anomaly, n_samples, N, n_bins, scaling, range_min)      anomaly is the transposed copy: (index, time)
# assumed: n_bins>=1 (parameter, default 32); N*N, N*n_samples, N*n_bins, n_bins*n_bins <= INT32_MAX (sizes of the data set)
_usesv("MutualInfoClimateNetwork._cython_calculate_mutual_information[uses]", "climate/mutual_info.py",
       "MutualInfoClimateNetwork._cython_calculate_mutual_information", ("C20", "C10"),
       {"anomaly": "arr:float64:2", "n_bins": "int", "self.silence_level": "int"}, [],
       {"mutual_information": ["arg1>=0 and arg2>=0",
                               "arg3==n_bins", "len(arg0)==arg2",
                               "shape(arg0,0)==arg2 and shape(arg0,1)==arg1",
                               # scaling>=0: Python raises ZeroDivisionError for range_max == range_min (no call
                               # then); the engine's division is total, hence the guard
                               "implies(range_max!=range_min, arg4>=0)",
                               "all(arg0[a,b]>=arg5 for a in range(arg2) for b in range(arg1))"]})
