"""Call-site (USES) contracts of the compiled kernels called from pyunicorn's `core/`, `funcnet/` and `climate/` packages.

Each contract symbolically executes the calling Python method and, at the kernel call, proves the kernel's
shape / length / index-range / argument-consistency `requires` (see contracts/kernels.py) for the actual arguments.
Kernel requirements that the method cannot establish from what it sees are NOT asserted; they are listed as
`# assumed:` next to the contract.
"""
from contracts.kernels import K, _uses, REG  # noqa: F401

_NET = "core/network.py"

# ============================================================================ Network.local_cliquishness
# kernel(N, A, degree)
# region requires: Network.adjacency (setter) rejects non-square input, sets self.N to the side length and the getter
#   returns self.sp_A.toarray() (N x N); self.degree() is a column / row sum of that matrix (length N)
# assumed: N<=32767 (not checked by the method); 0<=degree[a]<=N and A binary (content of the adjacency matrix)
_uses("Network.local_cliquishness[uses]", _NET, "Network.local_cliquishness", ("C03", "C20"),
      {"self.N": "int", "self.adjacency": "arr:int16:2", "order": "int", "self.directed": "bool", "self.silence_level": "int"},
      ["self.N>=0", "shape(self.adjacency,0)==self.N and shape(self.adjacency,1)==self.N"],
      {_k: ["order==%d" % _o, "arg0==self.N and arg0>=0", "shape(arg1,0)==arg0 and shape(arg1,1)==arg0", "shape(arg2,0)==arg0",
            "same_array(arg1, self.adjacency)"]
       for _o, _k in ((4, "_local_cliquishness_4thorder"), (5, "_local_cliquishness_5thorder"))},
      total="<=1")
REG["Network.local_cliquishness[uses]"][0].contract.call_facts = {
    "self.degree": {"returns": "arr:int64:1", "ensures": ["shape(result,0)==self.N"]}}

# ============================================================================ SpatialNetwork.randomly_rewire_geomodel_I/II/III
# kernel(iterations, eps, A, D, E, edges[, degree])
# region requires: Network.adjacency (setter) rejects non-square input and sets self.N; the getter returns sp_A.toarray()
# assumed: shape(D,0)==shape(D,1)==N (distance_matrix is handed in by the caller and never checked);
#   shape(edges,0)==E, shape(edges,1)==2, E>=1 and the edge-table facts (edges comes from the igraph object, E from
#   self.n_links: they agree only for a symmetric adjacency matrix with empty diagonal, which the setter documents but
#   does not check); A symmetric / binary / zero diagonal (content of the adjacency matrix)
_SN = "core/spatial_network.py"
for _v in ("I", "II", "III"):
    _c = _uses(f"SpatialNetwork.randomly_rewire_geomodel_{_v}[uses]", _SN, f"SpatialNetwork.randomly_rewire_geomodel_{_v}",
               ("C17", "C20"),
               {"self.N": "int", "self.adjacency": "arr:int16:2", "self.n_links": "int", "distance_matrix": "arr:float64:2",
                "iterations": "int", "inaccuracy": "float", "self.silence_level": "int"},
               ["self.N>=0", "shape(self.adjacency,0)==self.N and shape(self.adjacency,1)==self.N"],
               {f"_randomly_rewire_geomodel_{_v}":
                ["arg4==self.n_links", "arg0==iterations", "len(arg2)==self.N", "len(arg3)==len(distance_matrix)"] +
                (["len(arg6)==len(arg2)"] if _v == "III" else []) +
                ["shape(arg2,1)==shape(arg2,0)", "all(arg2[a,b]==self.adjacency[a,b] for a in range(self.N) for b in range(self.N))",
                 "shape(arg3,0)==shape(distance_matrix,0) and shape(arg3,1)==shape(distance_matrix,1)"]})
    if _v == "III":
        _c.call_facts = {"self.degree": {"returns": "arr:int64:1", "ensures": ["shape(result,0)==self.N"]}}
