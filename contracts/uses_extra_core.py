"""Call-site (USES) contracts of the compiled kernels called from pyunicorn's `core/`, `funcnet/` and `climate/` packages.

Each contract symbolically executes the calling Python method and, at the kernel call, proves the kernel's
shape / length / index-range / argument-consistency `requires` (see contracts/kernels.py) for the actual arguments.
Kernel requirements that the method cannot establish from what it sees are NOT asserted; they are listed as
`# assumed:` next to the contract.
"""
from contracts.kernels import K, _uses, REG  # noqa: F401

_NET = "core/network.py"

# ============================================================================ Network.local_cliquishness
# kernel(N, A, degree)
# region requires: Network.adjacency (setter) rejects non-square input, sets self.N to the side length and the getter
#   returns self.sp_A.toarray() (N x N); self.degree() is a column / row sum of that matrix (length N)
# assumed: N<=32767 (not checked by the method); 0<=degree[a]<=N and A binary (content of the adjacency matrix)
_uses("Network.local_cliquishness[uses]", _NET, "Network.local_cliquishness", ("C03", "C20"),
      {"self.N": "int", "self.adjacency": "arr:int16:2", "order": "int", "self.directed": "bool", "self.silence_level": "int"},
      ["self.N>=0", "shape(self.adjacency,0)==self.N and shape(self.adjacency,1)==self.N"],
      # (`len(x)` instead of `shape(x,0)` first: it stays an obligation when a changed call site makes the argument opaque)
      {_k: ["order==%d" % _o, "arg0==self.N and arg0>=0", "len(arg1)==arg0", "len(arg2)==arg0",
            "shape(arg1,0)==arg0 and shape(arg1,1)==arg0", "shape(arg2,0)==arg0",
            "all(arg1[a,b]==self.adjacency[a,b] for a in range(self.N) for b in range(self.N))"]
       for _o, _k in ((4, "_local_cliquishness_4thorder"), (5, "_local_cliquishness_5thorder"))},
      total="<=1")
REG["Network.local_cliquishness[uses]"][0].contract.call_facts = {
    "self.degree": {"returns": "arr:int64:1", "ensures": ["shape(result,0)==self.N"]}}

# ============================================================================ SpatialNetwork.randomly_rewire_geomodel_I/II/III
# kernel(iterations, eps, A, D, E, edges[, degree])
# region requires: Network.adjacency (setter) rejects non-square input and sets self.N; the getter returns sp_A.toarray()
# assumed: shape(D,0)==shape(D,1)==N (distance_matrix is handed in by the caller and never checked);
#   shape(edges,0)==E, shape(edges,1)==2, E>=1 and the edge-table facts (edges comes from the igraph object, E from
#   self.n_links: they agree only for a symmetric adjacency matrix with empty diagonal, which the setter documents but
#   does not check); A symmetric / binary / zero diagonal (content of the adjacency matrix)
_SN = "core/spatial_network.py"
for _v in ("I", "II", "III"):
    _c = _uses(f"SpatialNetwork.randomly_rewire_geomodel_{_v}[uses]", _SN, f"SpatialNetwork.randomly_rewire_geomodel_{_v}",
               ("C17", "C20"),
               {"self.N": "int", "self.adjacency": "arr:int16:2", "self.n_links": "int", "distance_matrix": "arr:float64:2",
                "iterations": "int", "inaccuracy": "float", "self.silence_level": "int"},
               ["self.N>=0", "shape(self.adjacency,0)==self.N and shape(self.adjacency,1)==self.N"],
               {f"_randomly_rewire_geomodel_{_v}":
                ["arg4==self.n_links", "arg0==iterations", "len(arg2)==self.N", "len(arg3)==len(distance_matrix)"] +
                (["len(arg6)==len(arg2)"] if _v == "III" else []) +
                ["shape(arg2,1)==shape(arg2,0)", "all(arg2[a,b]==self.adjacency[a,b] for a in range(self.N) for b in range(self.N))",
                 "shape(arg3,0)==shape(distance_matrix,0) and shape(arg3,1)==shape(distance_matrix,1)"]})
    if _v == "III":
        _c.call_facts = {"self.degree": {"returns": "arr:int64:1", "ensures": ["shape(result,0)==self.N"]}}

# ============================================================================ InteractingNetworks: cross-link null models (static)
_IN = "core/interacting_networks.py"
# kernel(A, cross_A, number_cross_links, nodes1, nodes2, m, n)
# assumed: shape(A,1)==shape(A,0) (A_new = network.adjacency.astype(ADJ): `.astype` is not modelled; Network.adjacency is
#   square by its setter); node indices inside [0, shape(A,0)), pairwise distinct, the two lists disjoint, m>=1, n>=1
#   (node_list1 / node_list2 are handed in by the caller and never checked)
_uses("InteractingNetworks.RandomlySetCrossLinks[uses]", _IN, "InteractingNetworks.RandomlySetCrossLinks", ("C17", "C20"),
      {"nodes1": "arr:int32:1", "nodes2": "arr:int32:1", "cross_A": "arr:int8:2"}, [],
      {"_randomlySetCrossLinks": ["len(arg3)==arg5 and len(arg4)==arg6", "arg5>=0 and arg6>=0", "len(arg1)==arg5",
                                  "shape(arg1,0)==arg5 and shape(arg1,1)==arg6",
                                  # stronger than the kernel's `binary`: the matrix handed over is empty
                                  "all(arg1[i,j]==0 for i in range(arg5) for j in range(arg6))",
                                  "all(arg3[i]==nodes1[i] for i in range(arg5)) and all(arg4[j]==nodes2[j] for j in range(arg6))"]})

# kernel(A, cross_A, cross_links, nodes1, nodes2, number_cross_links, number_swaps)
# assumed: everything about shapes - shape(A,1)==shape(A,0) (`.astype` not modelled), shape(cross_A)==(len(nodes1),len(nodes2))
#   (result of network.cross_adjacency on the *lists*; the arrays nodes1/nodes2 are built separately from the same lists),
#   cross_links is the table of the non-zero entries of cross_A with number_cross_links rows (np.array(cross_A.nonzero()).T),
#   number_cross_links>=1, node index ranges / distinctness / disjointness (caller's lists).
# What is proved: the kernel is called exactly once and gets cross_A, nodes1, nodes2 in this order.
_uses("InteractingNetworks.RandomlyRewireCrossLinks[uses]", _IN, "InteractingNetworks.RandomlyRewireCrossLinks", ("C17", "C20"),
      {"nodes1": "arr:int32:1", "nodes2": "arr:int32:1", "cross_A": "arr:int8:2", "swaps": "float"}, [],
      {"_randomlyRewireCrossLinks": ["len(arg3)==len(nodes1) and len(arg4)==len(nodes2)", "len(arg1)==len(cross_A)",
                                     "shape(arg1,1)==shape(cross_A,1)",
                                     "all(arg3[i]==nodes1[i] for i in range(len(nodes1))) and all(arg4[j]==nodes2[j] for j in range(len(nodes2)))",
                                     "all(arg1[i,j]==cross_A[i,j] for i in range(shape(cross_A,0)) for j in range(shape(cross_A,1)))"]})

# ============================================================================ InteractingNetworks: cross transitivity / clustering
# region requires (all four): Network.adjacency (setter) rejects non-square input and sets self.N; getter = sp_A.toarray()
_ADJ_IN = {"self.N": "int", "self.adjacency": "arr:int16:2"}
_ADJ_RQ = ["self.N>=0", "shape(self.adjacency,0)==self.N and shape(self.adjacency,1)==self.N"]
_A0 = ["len(arg0)==self.N", "shape(arg0,1)==shape(arg0,0)"]
# NumPy semantics assumed for np.eye(n, dtype=...): the n x n identity
_EYE = {"np.eye": {"returns": "arr:int8:2", "ensures": [
    "shape(result,0)==arg0 and shape(result,1)==arg0",
    "all(result[a,b]==ite(a==b,1,0) for a in range(arg0) for b in range(arg0))"]}}

# kernel(A, nodes1, nodes2)
# assumed: node indices inside [0, N) (caller's lists); len(nodes) <= INT32_MAX
_uses("InteractingNetworks.cross_transitivity[uses]", _IN, "InteractingNetworks.cross_transitivity", ("C11", "C04", "C20"),
      _ADJ_IN, _ADJ_RQ,
      {"_cross_transitivity": _A0 + ["all(arg0[a,b]==self.adjacency[a,b] for a in range(self.N) for b in range(self.N))"]})

# kernel(A, norm, nodes1, nodes2, cross_clustering)
# call fact: InteractingNetworks.cross_degree(self, l1, l2) = row sums of cross_adjacency(l1, l2): one entry per node of l1
# assumed: shape(cross_clustering,0)==len(nodes1) (np.zeros_like(nodes1, ...) is not modelled); node index ranges
_c = _uses("InteractingNetworks.cross_local_clustering[uses]", _IN, "InteractingNetworks.cross_local_clustering", ("C11", "C04", "C20"),
           dict(_ADJ_IN, nodes1="arr:int32:1", nodes2="arr:int32:1"), _ADJ_RQ,
           {"_cross_local_clustering": _A0 + ["len(arg1)==len(arg2)", "len(arg2)==len(nodes1) and len(arg3)==len(nodes2)",
                                              "all(arg0[a,b]==self.adjacency[a,b] for a in range(self.N) for b in range(self.N))",
                                              "all(arg2[i]==nodes1[i] for i in range(len(nodes1))) and all(arg3[j]==nodes2[j] for j in range(len(nodes2)))"]})
_c.call_facts = {"InteractingNetworks.cross_degree": {"returns": "arr:int64:1", "ensures": ["shape(result,0)==shape(arg1,0)"]}}

# kernel(A, nsi_cc, nodes1, nodes2, node_weights)     A = adjacency + identity
# region requires: Network.node_weights (setter) rejects a weight vector whose length is not self.N
# assumed: node index ranges (caller's lists)
_c = _uses("InteractingNetworks.nsi_cross_local_clustering[uses]", _IN, "InteractingNetworks.nsi_cross_local_clustering",
           ("C11", "C02", "C04", "C20"),
           dict(_ADJ_IN, nodes1="arr:int32:1", nodes2="arr:int32:1", **{"self.node_weights": "arr:float64:1"}),
           _ADJ_RQ + ["shape(self.node_weights,0)==self.N"],
           {"_nsi_cross_local_clustering": _A0 + ["len(arg1)==len(arg2)", "len(arg4)==len(arg0)",
                                                  "len(arg2)==len(nodes1) and len(arg3)==len(nodes2)",
                                                  "all(arg1[i]==0 for i in range(len(arg2)))",
                                                  "all(arg0[a,b]==self.adjacency[a,b]+ite(a==b,1,0) for a in range(self.N) for b in range(self.N))",
                                                  "all(arg4[a]==self.node_weights[a] for a in range(self.N))"]})
_c.call_facts = dict(_EYE)

# kernel(A, nodes1, nodes2, node_weights)
_c = _uses("InteractingNetworks.nsi_cross_transitivity[uses]", _IN, "InteractingNetworks.nsi_cross_transitivity",
           ("C11", "C02", "C04", "C20"),
           dict(_ADJ_IN, **{"self.node_weights": "arr:float64:1"}), _ADJ_RQ + ["shape(self.node_weights,0)==self.N"],
           {"_nsi_cross_transitivity": _A0 + ["len(arg3)==len(arg0)",
                                              "all(arg0[a,b]==self.adjacency[a,b]+ite(a==b,1,0) for a in range(self.N) for b in range(self.N))",
                                              "all(arg3[a]==self.node_weights[a] for a in range(self.N))"]})
_c.call_facts = dict(_EYE)
