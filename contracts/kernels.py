"""Sidecar contracts of the compiled kernels (Cython and C), keyed by function name.

`K(name, module, ...)` registers a contract; property modules select jobs with `jobs_for(tags)`.
Every `requires` is a fact the *callers* must establish (checked at the wrapper / Python call
sites by the property modules, or listed there as an assumption); every `ensures` is either the
nested-sum / fold specification of the kernel or the clause of the property it carries.
Loop invariants are keyed by the dotted path of loop variables (`while` for while-loops,
`#n` for the n-th sibling with the same token, `inline:<f>` when a helper is inlined).
"""
from pvc.runner import Job
from pvc.symex import Contract

REG = {}


def K(name, module, lang="cy", props=(), func=None, **kw):
    c = Contract(func or name, name=name, **kw)
    REG[name] = (Job(module, func or name, c, lang=lang, tag=name), tuple(props))
    return c


def all_jobs():
    return [j for j, _ in REG.values()]


def jobs_for(prop, checks=None, names=None):
    out = []
    for nm, (j, props) in REG.items():
        if prop in props and (names is None or nm in names):
            out.append(j)
        elif prop == "C06" and j.lang in ("cy", "c") and (names is None or nm in names):
            # C06 at kernel level: only the frame obligations (read-only array parameters are not written)
            fj = Job(j.module, j.func, j.contract, lang=j.lang, tag=j.tag + "[frame]")
            fj.only_kinds = {"frame"}
            out.append(fj)
    return out


INT32 = 2147483647

# ============================================================================ timeseries: distances
for metric, ghost, step, fin in (
        ("manhattan", "msum", "msum(a,b,l)+abs({x}[a,l]-{y}[b,l])", "{r}==msum({a},{b},dim)"),
        ("euclidean", "esum", "esum(a,b,l)+abs({x}[a,l]-{y}[b,l])*abs({x}[a,l]-{y}[b,l])",
         "{r}==sqrt(esum({a},{b},dim))"),
        ("supremum", "smax", "ite(abs({x}[a,l]-{y}[b,l])>smax(a,b,l), abs({x}[a,l]-{y}[b,l]), smax(a,b,l))",
         "{r}==smax({a},{b},dim)")):
    acc = {"manhattan": "sum", "euclidean": "sum", "supremum": "diff"}[metric]
    # ---- rp variant: symmetric, zero diagonal, strict lower triangle filled and mirrored
    K(f"_{metric}_distance_matrix_rp", "timeseries", props=("C07", "C20"),
      requires=["n_time>=0", "dim>=0", "shape(embedding,0)==n_time", "shape(embedding,1)==dim"],
      ghost={ghost: ("int", "int", "int", "float")},
      defs=[f"all({ghost}(a,b,0)==0 for a in range(n_time) for b in range(n_time))",
            f"all({ghost}(a,b,l+1)=={step.format(x='embedding', y='embedding')} "
            "for a in range(n_time) for b in range(n_time) for l in range(dim))"],
      ensures=["shape(result,0)==n_time and shape(result,1)==n_time",
               "all(" + fin.format(r="result[a,b]", a="a", b="b") + " and result[b,a]==result[a,b] "
               "for a in range(n_time) for b in range(a))",
               "all(result[a,a]==0 for a in range(n_time))"],
      loops={"j": ["all(" + fin.format(r="distance[a,b]", a="a", b="b") + " and distance[b,a]==distance[a,b] "
                   "for a in range(j) for b in range(a))",
                   "all(distance[a,a]==0 for a in range(n_time))"],
             "j.k": ["all(" + fin.format(r="distance[a,b]", a="a", b="b") + " and distance[b,a]==distance[a,b] "
                     "for a in range(j) for b in range(a))",
                     "all(distance[a,a]==0 for a in range(n_time))",
                     "all(" + fin.format(r="distance[j,b]", a="j", b="b") + " and distance[b,j]==distance[j,b] "
                     "for b in range(k))"],
             "j.k.l": [f"{acc}=={ghost}(j,k,l)"]})
    # ---- crp variant: full rectangular matrix
    K(f"_{metric}_distance_matrix_crp", "timeseries", props=("C07", "C20"),
      requires=["ntime_x>=0", "ntime_y>=0", "dim>=0", "shape(x_embedded,0)==ntime_x", "shape(x_embedded,1)==dim",
                "shape(y_embedded,0)==ntime_y", "shape(y_embedded,1)==dim"],
      ghost={ghost: ("int", "int", "int", "float")},
      defs=[f"all({ghost}(a,b,0)==0 for a in range(ntime_x) for b in range(ntime_y))",
            f"all({ghost}(a,b,l+1)=={step.format(x='x_embedded', y='y_embedded')} "
            "for a in range(ntime_x) for b in range(ntime_y) for l in range(dim))"],
      ensures=["shape(result,0)==ntime_x and shape(result,1)==ntime_y",
               "all(" + fin.format(r="result[a,b]", a="a", b="b") + " for a in range(ntime_x) for b in range(ntime_y))"],
      loops={"j": ["all(" + fin.format(r="distance[a,b]", a="a", b="b") + " for a in range(j) for b in range(ntime_y))"],
             "j.k": ["all(" + fin.format(r="distance[a,b]", a="a", b="b") + " for a in range(j) for b in range(ntime_y))",
                     "all(" + fin.format(r="distance[j,b]", a="j", b="b") + " for b in range(k))"],
             "j.k.l": [f"{acc}=={ghost}(j,k,l)"]})

# ============================================================================ timeseries: embedding
K("_embed_time_series", "timeseries", props=("C07", "C20"),
  requires=["dim>=1", "tau>=0", "n_time>=0", "(dim-1)*tau<=n_time", "(dim-1)*tau<=%d" % INT32,
            "shape(time_series,0)==n_time",
            "shape(embedding,0)==n_time-(dim-1)*tau", "shape(embedding,1)==dim"],
  ensures=["all(embedding[k,j]==time_series[k+j*tau] for j in range(dim) for k in range(n_time-(dim-1)*tau))"],
  loops={"j": ["all(embedding[k,jj]==time_series[k+jj*tau] for jj in range(j) for k in range(n_time-(dim-1)*tau))",
               "len_embedded==n_time-(dim-1)*tau", "D==dim"],
         "j.k": ["all(embedding[k,jj]==time_series[k+jj*tau] for jj in range(j) for k in range(n_time-(dim-1)*tau))",
                 "all(embedding[kk,j]==time_series[kk+j*tau] for kk in range(k))",
                 "index==j*tau+k", "len_embedded==n_time-(dim-1)*tau", "D==dim"]})

K("_embed_time_series_array", "timeseries", props=("C07", "C15", "C20"),
  requires=["dimension>=1", "delay>=0", "n_time>=0", "n>=0", "(dimension-1)*delay<=n_time",
            "(dimension-1)*delay<=%d" % INT32,
            "shape(time_series_array,0)==n", "shape(time_series_array,1)==n_time",
            "shape(embedding,0)==n", "shape(embedding,1)==n_time-(dimension-1)*delay",
            "shape(embedding,2)==dimension"],
  ensures=["all(embedding[i,k,j]==time_series_array[i,k+j*delay] for i in range(n) for j in range(dimension) "
           "for k in range(n_time-(dimension-1)*delay))"],
  loops={"i": ["all(embedding[ii,k,j]==time_series_array[ii,k+j*delay] for ii in range(i) for j in range(dimension) "
               "for k in range(n_time-(dimension-1)*delay))", "len_embedded==n_time-(dimension-1)*delay"],
         "i.j": ["all(embedding[ii,k,jj]==time_series_array[ii,k+jj*delay] for ii in range(i) for jj in range(dimension) "
                 "for k in range(n_time-(dimension-1)*delay))",
                 "all(embedding[i,k,jj]==time_series_array[i,k+jj*delay] for jj in range(j) "
                 "for k in range(n_time-(dimension-1)*delay))", "len_embedded==n_time-(dimension-1)*delay"],
         "i.j.k": ["all(embedding[ii,kk,jj]==time_series_array[ii,kk+jj*delay] for ii in range(i) for jj in range(dimension) "
                   "for kk in range(n_time-(dimension-1)*delay))",
                   "all(embedding[i,kk,jj]==time_series_array[i,kk+jj*delay] for jj in range(j) "
                   "for kk in range(n_time-(dimension-1)*delay))",
                   "all(embedding[i,kk,j]==time_series_array[i,kk+j*delay] for kk in range(k))",
                   "index==j*delay+k", "len_embedded==n_time-(dimension-1)*delay"]})

# ============================================================================ timeseries: visibility graphs
def _vis_contract(name, has_t, inner, missing):
    """Visibility criterion  V(a,b) = endpoints ok and all(inner(a,b,q) for a<q<b).
    `inner` is a spec template over {a},{b},q.  With missing values (NaN-aware encoding) a
    missing sample blocks visibility (as endpoint or in between)."""
    def V(a, b):
        body = inner.format(a=a, b=b)
        if missing:
            return (f"mv_indices[{a}]==0 and mv_indices[{b}]==0 and "
                    f"all(mv_indices[q]==0 and {body} for q in range({a}+1,{b}))")
        return f"all({body} for q in range({a}+1,{b}))"
    adj = "iff(A[a,a+1]==1, mv_indices[a]==0 and mv_indices[a+1]==0)" if missing else "A[a,a+1]==1"
    far = ("all(iff(A[a,b]==1, {V}) and (A[a,b]==0 or A[a,b]==1) and A[b,a]==A[a,b] "
           "for a in range({hi}) for b in range(a+2,N))")
    req = ["N>=0", "shape(x,0)==N", "shape(A,0)==N", "shape(A,1)==N",
           "all(A[a,b]==0 for a in range(N) for b in range(N))"]
    extra = {}
    if has_t:
        req += ["shape(t,0)==N", "all(t[a]<t[b] for a in range(N) for b in range(a+1,N))"]
        # sl(a,q) names the slope expression of the code; its definition is the expression itself
        extra = dict(ghost={"sl": ("int", "int", "float")},
                     defs=["all(sl(a,q)==(x[q]-x[a])/(t[q]-t[a]) for a in range(N) for q in range(N))"])
    if missing:
        req += ["shape(mv_indices,0)==N", "all(mv_indices[a]==0 or mv_indices[a]==1 for a in range(N))",
                "all(iff(mv_indices[a]==1, isnan(x[a])) for a in range(N))",
                "all(not isnan(t[a]) for a in range(N))"]
        extra["nan_aware"] = True
    untouched = "all(A[a,b]==0 for a in range(N) for b in range(N) if (a>=i and b>=i) or a==b or a==b+1 or b==a+1)"
    body_ij = inner.format(a="i", b="j")
    wh = ["i+1<=k and k<=j"]
    if missing:
        wh += [f"all(mv_indices[q]==0 and {body_ij} for q in range(i+1,k))",
               "implies(k>i+1, mv_indices[i]==0 and mv_indices[j]==0)"]
    else:
        wh += [f"all({body_ij} for q in range(i+1,k))"]
    return K(name, "timeseries", props=("C14", "C20"), **extra,
             requires=req,
             ensures=[far.format(V=V("a", "b"), hi="N"),
                      "all(" + adj + " and A[a+1,a]==A[a,a+1] for a in range(N-1))",
                      "all(A[a,a]==0 for a in range(N))"],
             loops={"i": [far.format(V=V("a", "b"), hi="i"), untouched],
                    "i.j": [far.format(V=V("a", "b"), hi="i"), untouched.replace("(a>=i and b>=i)", "(a>i and b>i)"),
                            "all(iff(A[i,b]==1, " + V("i", "b") + ") and (A[i,b]==0 or A[i,b]==1) and A[b,i]==A[i,b] for b in range(i+2,j))",
                            "all(A[i,b]==0 and A[b,i]==0 for b in range(j,N))",
                            "A[i,i]==0 and (i+1>=N or (A[i,i+1]==0 and A[i+1,i]==0))"],
                    "i.j.while": wh,
                    "i#2": [far.format(V=V("a", "b"), hi="N"),
                            "all(" + adj + " and A[a+1,a]==A[a,a+1] for a in range(i))",
                            "all(A[a,a+1]==0 and A[a+1,a]==0 for a in range(i,N-1))",
                            "all(A[a,a]==0 for a in range(N))"]})


_NVG = "sl({a},q) < sl({a},{b})"
_HVG = "x[q] < min(x[{a}],x[{b}])"
_vis_contract("_visibility_relations_no_missingvalues", True, _NVG, False)
_vis_contract("_visibility_relations_horizontal", False, _HVG, False)
_vis_contract("_visibility_relations_missingvalues", True, _NVG, True)

# ============================================================================ timeseries: RQA line distributions
def _line_contract(wrapper, vertical, black, sequential, missing):
    """One instantiation of the generic `_line_dist` kernel, verified through its `def` wrapper with
    the generic kernel (and, in sequential mode, `metric_supremum`) inlined - so the parameters each
    wrapper passes (colour, line type, skip_main, metric) are part of what is verified.

    Postcondition (the property's own words, "a direct run-length count of the matrix"):
        hist[L-1] = hist0[L-1] + #{(line i, end position b) : MR(i,b,L)}
    where MR(i,b,L) - "a maximal run of exactly L line cells of line i ends just before position b" -
    is a non-recursive predicate over the matrix; the count is the ghost fold `cnt`/`tot` of the
    indicator of MR (counting needs a recursive definition; MR itself does not mimic the code).
    RUN invariant: k = length of the maximal block of line cells ending just before the current cell.
    With missing values only index safety and the k/missing_flag protocol are claimed here."""
    P = "inline:_line_dist"
    if vertical:
        I_of, J, outer = "{i}", "n_time", "n_time"
        Jf = lambda i: "n_time"
    else:
        I_of, J, outer = "(n_time-1)-{i}+{j}", "(i+1)", "n_time-1"
        Jf = lambda i: f"({i}+1)"
    if sequential:
        cellv = "(smax(" + I_of + ",{j},dim) < eps)"
        if not black:
            cellv = "(not " + cellv + ")"
    else:
        cellv = "(R[" + I_of + ",{j}]==1)" if black else "(R[" + I_of + ",{j}]==0)"

    def CELL(i, j):
        return cellv.format(i=i, j=j)
    req = ["n_time>=0", "shape(hist,0)==n_time"]
    ghost, defs = {}, []
    if sequential:
        req += ["dim>=1", "shape(E,0)==n_time", "shape(E,1)==dim"]
        ghost = {"smax": ("int", "int", "int", "float")}
        defs = ["all(smax(a,b,0)==0 for a in range(n_time) for b in range(n_time))",
                "all(smax(a,b,l+1)==ite(abs(E[a,l]-E[b,l])>smax(a,b,l), abs(E[a,l]-E[b,l]), smax(a,b,l)) "
                "for a in range(n_time) for b in range(n_time) for l in range(dim))"]
    else:
        req += ["shape(R,0)==n_time", "shape(R,1)==n_time"]
    if missing:
        req += ["shape(M,0)==n_time"]
        loops = {f"{P}.i": ["k==0", "missing_flag==0", "N==" + outer, "shape(hist,0)==n_time"],
                 f"{P}.i.j": ["0<=k and k<=j", "implies(missing_flag!=0, k==0)", "N==" + outer]}
        if sequential:
            loops[f"{P}.i.j.inline:metric_supremum.l"] = ["diff==smax(I,j,l)"]
        return K(wrapper, "timeseries", props=("C08", "C20"), requires=req, ghost=ghost, defs=defs, loops=loops,
                 checks=("bounds", "narrow", "divzero"))
    # ---- ghost direct count
    ghost.update({"cell": ("int", "int", "bool"), "MR": ("int", "int", "int", "bool"),
                  "cnt": ("int", "int", "int", "int"), "tot": ("int", "int", "int")})
    defs += [
        # cell(a,q): cell q of line a is a line cell (colour / threshold predicate of this instantiation)
        "all(iff(cell(a,q), " + CELL("a", "q") + ") for a in range(" + outer + ") for q in range(" + Jf("a") + "))",
        # maximal run of exactly L cells ending just before position b (b = J: end of the line)
        "all(iff(MR(a,b,L), b-L>=0 and all(cell(a,q) for q in range(b-L,b)) and (b-L==0 or not cell(a,b-L-1)) "
        "and (b==" + Jf("a") + " or not cell(a,b))) "
        "for a in range(" + outer + ") for b in range(1," + Jf("a") + "+1) for L in range(1,n_time+1))",
        "all(cnt(a,1,L)==0 and cnt(a,0,L)==0 for a in range(" + outer + ") for L in range(1,n_time+1))",
        "all(cnt(a,b+1,L)==cnt(a,b,L)+ite(MR(a,b,L),1,0) for a in range(" + outer + ") "
        "for b in range(1," + Jf("a") + "+1) for L in range(1,n_time+1))",
        "all(tot(0,L)==0 for L in range(1,n_time+1))",
        "all(tot(a+1,L)==tot(a,L)+cnt(a," + Jf("a") + "+1,L) for a in range(" + outer + ") for L in range(1,n_time+1))",
    ]
    run = ["0<=k and k<=j", "all(cell(i,q) for q in range(j-k,j))", "implies(k<j, not cell(i,j-k-1))",
           "missing_flag==0", "N==" + outer, "I==I or True"]
    acc_outer = "all(hist[L-1]==old(hist[L-1])+tot(i,L) for L in range(1,n_time+1))"
    acc_inner = "all(hist[L-1]==old(hist[L-1])+tot(i,L)+cnt(i,j,L) for L in range(1,n_time+1))"
    loops = {f"{P}.i": ["k==0", "missing_flag==0", "N==" + outer, "shape(hist,0)==n_time", acc_outer],
             f"{P}.i.j": run + [acc_inner]}
    if sequential:
        loops[f"{P}.i.j.inline:metric_supremum.l"] = ["diff==smax(I,j,l)"]
    asserts = {"store:hist": ["idx0==k-1", "k>=1", "MR(i,j,k)"],
               "store:hist#2": ["idx0==k-1", "k>=1", "MR(i," + J + ",k)"]}
    return K(wrapper, "timeseries", props=("C08", "C20"), requires=req, ghost=ghost, defs=defs, loops=loops,
             asserts=asserts,
             ensures=["all(hist[L-1]==old(hist[L-1])+tot(" + outer + ",L) for L in range(1,n_time+1))"],
             checks=("bounds", "narrow", "divzero"))


_line_contract("_vertline_dist", True, True, False, False)
_line_contract("_diagline_dist", False, True, False, False)
_line_contract("_white_vertline_dist", True, False, False, False)
_line_contract("_vertline_dist_sequential", True, True, True, False)
_line_contract("_diagline_dist_sequential", False, True, True, False)
_line_contract("_vertline_dist_missingvalues", True, True, False, True)
_line_contract("_diagline_dist_missingvalues", False, True, False, True)
_line_contract("_vertline_dist_sequential_missingvalues", True, True, True, True)
_line_contract("_diagline_dist_sequential_missingvalues", False, True, True, True)

# ============================================================================ core: grid distances (C12)
K("_calculate_angular_distance", "core", props=("C12", "C20"), float_mode="UF",
  requires=["N>=0", "shape(cos_lat,0)==N", "shape(sin_lat,0)==N", "shape(cos_lon,0)==N", "shape(sin_lon,0)==N",
            "shape(cosangdist,0)==N", "shape(cosangdist,1)==N"],
  ghost={"ce": ("int", "int", "float")},
  defs=["all(ce(a,b)==sin_lat[a]*sin_lat[b]+cos_lat[a]*cos_lat[b]*(sin_lon[a]*sin_lon[b]+cos_lon[a]*cos_lon[b]) "
        "for a in range(N) for b in range(N))"],
  ensures=["all(cosangdist[a,b]==ite(ce(a,b)>1, 1, ite(ce(a,b)<-1, -1, ce(a,b))) and cosangdist[b,a]==cosangdist[a,b] "
           "and -1<=cosangdist[a,b] and cosangdist[a,b]<=1 for a in range(N) for b in range(a+1))"],
  loops={"i": ["all(cosangdist[a,b]==ite(ce(a,b)>1, 1, ite(ce(a,b)<-1, -1, ce(a,b))) and cosangdist[b,a]==cosangdist[a,b] "
               "and -1<=cosangdist[a,b] and cosangdist[a,b]<=1 for a in range(i) for b in range(a+1))"],
         "i.j": ["all(cosangdist[a,b]==ite(ce(a,b)>1, 1, ite(ce(a,b)<-1, -1, ce(a,b))) and cosangdist[b,a]==cosangdist[a,b] "
                 "and -1<=cosangdist[a,b] and cosangdist[a,b]<=1 for a in range(i) for b in range(a+1))",
                 "all(cosangdist[i,b]==ite(ce(i,b)>1, 1, ite(ce(i,b)<-1, -1, ce(i,b))) and cosangdist[b,i]==cosangdist[i,b] "
                 "and -1<=cosangdist[i,b] and cosangdist[i,b]<=1 for b in range(j))"]})

K("_calculate_euclidean_distance", "core", props=("C12", "C20"),
  requires=["N_dim>=0", "N_nodes>=0", "shape(x,0)==N_dim", "shape(x,1)==N_nodes",
            "shape(distance,0)==N_nodes", "shape(distance,1)==N_nodes"],
  ghost={"esq": ("int", "int", "int", "float")},
  defs=["all(esq(a,b,0)==0 for a in range(N_nodes) for b in range(N_nodes))",
        "all(esq(a,b,l+1)==esq(a,b,l)+(x[l,a]-x[l,b])*(x[l,a]-x[l,b]) for a in range(N_nodes) for b in range(N_nodes) "
        "for l in range(N_dim))"],
  ensures=["all(distance[a,b]==sqrt(esq(a,b,N_dim)) and distance[b,a]==distance[a,b] for a in range(N_nodes) for b in range(a+1))",
           "all(distance[a,a]==0 for a in range(N_nodes))"],
  loops={"i": ["all(distance[a,b]==sqrt(esq(a,b,N_dim)) and distance[b,a]==distance[a,b] for a in range(i) for b in range(a+1))",
               "all(distance[a,a]==0 for a in range(i))"],
         "i.j": ["all(distance[a,b]==sqrt(esq(a,b,N_dim)) and distance[b,a]==distance[a,b] for a in range(i) for b in range(a+1))",
                 "all(distance[a,a]==0 for a in range(i))",
                 "all(distance[i,b]==sqrt(esq(i,b,N_dim)) and distance[b,i]==distance[i,b] for b in range(j))",
                 "implies(j>i, distance[i,i]==0)"],
         "i.j.k": ["expr==esq(i,j,k)", "implies(i==j, expr==0)"]})

# ============================================================================ core: geographical rewiring (C17)
def _rewire_contract(wrapper, cond, with_degree):
    P = "inline:_randomly_rewire_geomodel"
    N = "shape(A,0)"
    simple = ["all(A[a,b]==A[b,a] and (A[a,b]==0 or A[a,b]==1) for a in range(%s) for b in range(%s))" % (N, N),
              "all(A[a,a]==0 for a in range(%s))" % N]
    table = ["all(0<=edges[e,0] and edges[e,0]<%s and 0<=edges[e,1] and edges[e,1]<%s and edges[e,0]!=edges[e,1] "
             "and A[edges[e,0],edges[e,1]]==1 for e in range(E))" % (N, N),
             # rows are pairwise distinct as unordered pairs
             "all(not (edges[e,0]==edges[f,0] and edges[e,1]==edges[f,1]) and not (edges[e,0]==edges[f,1] and edges[e,1]==edges[f,0]) "
             "for e in range(E) for f in range(e))"]
    degs = ["all(rowsum(A,a)==rowsum(old(A),a) for a in range(%s))" % N]
    req = ["shape(A,1)==shape(A,0)", "shape(D,0)==shape(A,0)", "shape(D,1)==shape(A,0)", "shape(edges,0)==E",
           "shape(edges,1)==2", "E>=1"] + simple + table
    if with_degree:
        req += ["shape(degree,0)==shape(A,0)"]
    c1 = ("((abs(D[s,t]-D[k,t])<eps and abs(D[k,l]-D[s,l])<eps) or (abs(D[s,t]-D[s,l])<eps and abs(D[k,l]-D[k,t])<eps))")
    c2 = ("(abs(D[s,t]-D[s,l])<eps and abs(D[t,s]-D[t,k])<eps and abs(D[k,l]-D[k,t])<eps and abs(D[l,k]-D[l,s])<eps)")
    accepted = ["s!=k and s!=l and t!=k and t!=l", "A[s,l]==0 and A[t,k]==0", "A[s,t]==1 and A[k,l]==1",
                c1 if cond == "c1" else c2]
    if with_degree:
        accepted.append("degree[s]==degree[k] and degree[t]==degree[l]")
    inv = simple + table + degs
    return K(wrapper, "core", props=("C17", "C20"), requires=req,
             loops={P + ".while": inv + ["shape(edges,0)==E"]},
             ensures=inv, asserts={"store:A": accepted},
             rtc_scope=4, rtc_prefs=["shape(A,0)==4", "E==2", "iterations==2", "eps==1.0",
                                     "all(D[a,b]==0 for a in range(4) for b in range(4))",
                                     "edges[0,0]==0 and edges[0,1]==1 and edges[1,0]==2 and edges[1,1]==3",
                                     "all(A[a,b]==ite((a==0 and b==1) or (a==1 and b==0) or (a==2 and b==3) or (a==3 and b==2),1,0) for a in range(4) for b in range(4))"]
             + (["all(degree[a]==1 for a in range(4))"] if with_degree else []),
             checks=("bounds", "narrow", "divzero"))


_rewire_contract("_randomly_rewire_geomodel_I", "c1", False)
_rewire_contract("_randomly_rewire_geomodel_II", "c2", False)
_rewire_contract("_randomly_rewire_geomodel_III", "c2", True)

# ============================================================================ core: cross-link kernels (C17)
_NODES = ["shape(nodes1,0)==m", "shape(nodes2,0)==n", "m>=0", "n>=0", "shape(A,1)==shape(A,0)",
          "all(0<=nodes1[i] and nodes1[i]<shape(A,0) for i in range(m))",
          "all(0<=nodes2[j] and nodes2[j]<shape(A,0) for j in range(n))",
          "all(nodes1[i]!=nodes1[p] for i in range(m) for p in range(i))",
          "all(nodes2[j]!=nodes2[p] for j in range(n) for p in range(j))",
          "all(nodes1[i]!=nodes2[j] for i in range(m) for j in range(n))",
          "shape(cross_A,0)==m", "shape(cross_A,1)==n"]
_CROSSPAIR = "any((a==nodes1[i] and b==nodes2[j]) or (b==nodes1[i] and a==nodes2[j]) for i in range(m) for j in range(n))"
_OW_DONE = "all(A[nodes1[i],nodes2[j]]==cross_A[i,j] and A[nodes2[j],nodes1[i]]==cross_A[i,j] for i in range({hi}) for j in range(n))"
_OW_FRAME = ("all(A[a,b]==old(A[a,b]) for a in range(shape(A,0)) for b in range(shape(A,0)) if not " + _CROSSPAIR + ")")
K("overwriteAdjacency", "core", props=("C17", "C20"), requires=_NODES,
  ensures=[_OW_DONE.format(hi="m"), _OW_FRAME], modifies=["A"],
  loops={"i": [_OW_DONE.format(hi="i"), _OW_FRAME],
         "i.j": [_OW_DONE.format(hi="i"), _OW_FRAME,
                 "all(A[nodes1[i],nodes2[p]]==cross_A[i,p] and A[nodes2[p],nodes1[i]]==cross_A[i,p] for p in range(j))"]})

_BIN = "all(cross_A[i,j]==0 or cross_A[i,j]==1 for i in range(m) for j in range(n))"
K("_randomlySetCrossLinks", "core", props=("C17", "C20"),
  requires=_NODES + [_BIN, "m>=1", "n>=1"],
  ensures=[_BIN, _OW_DONE.format(hi="m"), _OW_FRAME],
  loops={"_": [_BIN], "_.while": [_BIN]},
  asserts={"store:cross_A": ["cross_A[i,j]==0"]},
  rtc_prefs=["number_cross_links==1", "all(cross_A[i,j]==0 for i in range(m) for j in range(n))", "m==2", "n==2"])

_TAB = ("all(0<=cross_links[e,0] and cross_links[e,0]<m and 0<=cross_links[e,1] and cross_links[e,1]<n "
        "and cross_A[cross_links[e,0],cross_links[e,1]]==1 for e in range(number_cross_links))")
_TABD = ("all(not (cross_links[e,0]==cross_links[f,0] and cross_links[e,1]==cross_links[f,1]) "
         "for e in range(number_cross_links) for f in range(e))")
_ROWS = "all(rowsum(cross_A,a)==rowsum(old(cross_A),a) for a in range(m))"


def _sh(t):
    """same clause with the locals m, n replaced by the shapes they are initialised from"""
    import re
    t = re.sub(r"\bm\b", "shape(nodes1,0)", t)
    return re.sub(r"\bn\b", "shape(nodes2,0)", t)


K("_randomlyRewireCrossLinks", "core", props=("C17", "C20"),
  requires=[_sh(r) for r in _NODES if r not in ("shape(nodes1,0)==m", "shape(nodes2,0)==n", "m>=0", "n>=0")] +
  [_sh(_BIN), _sh(_TAB), _TABD,
   "shape(cross_links,0)==number_cross_links", "shape(cross_links,1)==2", "number_cross_links>=1",
   "shape(nodes1,0)<=%d" % INT32, "shape(nodes2,0)<=%d" % INT32],
  ensures=[_sh(_BIN), _sh(_TAB), _TABD, _sh(_ROWS), _sh(_OW_DONE.format(hi="m")), _sh(_OW_FRAME)],
  loops={"_": [_BIN, _TAB, _TABD, _ROWS, "m==shape(nodes1,0) and n==shape(nodes2,0)"],
         "_.while": [_BIN, _TAB, _TABD, _ROWS, "m==shape(nodes1,0) and n==shape(nodes2,0)"]},
  asserts={"store:cross_A": ["cross_A[a,b]==1 and cross_A[c,d]==1 and cross_A[a,d]==0 and cross_A[c,b]==0"]},
  rtc_scope=4,
  rtc_prefs=["shape(nodes1,0)==2", "shape(nodes2,0)==2", "number_cross_links==2", "number_swaps==2",
             "cross_A[0,0]==1 and cross_A[1,1]==1 and cross_A[0,1]==0 and cross_A[1,0]==0",
             "cross_links[0,0]==0 and cross_links[0,1]==0 and cross_links[1,0]==1 and cross_links[1,1]==1"])
for _nm in ("_randomlySetCrossLinks", "_randomlyRewireCrossLinks"):
    REG[_nm][0].contract.callee_contracts = {"overwriteAdjacency": REG["overwriteAdjacency"][0].contract}

# ============================================================================ core: random-walk betweenness chunk kernels (C19, C03, C02)
def _newman_contract(name, nsi):
    """ROWLOCAL: every ghost function takes ABSOLUTE row indices only, so the value computed for
    absolute row i does not depend on how the node range was cut into chunks; and the value equals
    the triple-sum definition (fold of the summand over t < s, s, j)."""
    term = "abs(V[i,s]-V[j,s]-V[i,t]+V[j,t])"
    if nsi:
        tstep = "T(i,j,s,t)+ite(NA(i,t)!=0, w[t]*" + term + ", 0)"
        sstep = "S(i,j,s)+ite(NA(i,s)!=0, w[s]*T(i,j,s,s), 0)"
        jstep = "Jn(i,j)+ite(Arow(i,j)!=0, w[j]*S(i,j,N), 0)"
    else:
        tstep = "T(i,j,s,t)+ite(i!=t, " + term + ", 0)"
        sstep = "S(i,j,s)+ite(i!=s, T(i,j,s,s), 0)"
        jstep = "Jn(i,j)+ite(Arow(i,j)!=0, S(i,j,N), 0)"
    ghost = {"Arow": ("int", "int", "int"), "T": ("int", "int", "int", "int", "float"),
             "S": ("int", "int", "int", "float"), "Jn": ("int", "int", "float")}
    req = ["N>=0", "0<=start_i and start_i<=end_i and end_i<=N", "shape(this_A,0)==end_i-start_i", "shape(this_A,1)==N",
           "shape(V,0)==N", "shape(V,1)==N",
           "all(this_A[r,j]==Arow(r+start_i,j) for r in range(end_i-start_i) for j in range(N))"]
    if nsi:
        ghost["NA"] = ("int", "int", "int")
        req += ["shape(w,0)==N", "shape(this_not_adj_or_equal,0)==end_i-start_i", "shape(this_not_adj_or_equal,1)==N",
                "all(this_not_adj_or_equal[r,s]==NA(r+start_i,s) for r in range(end_i-start_i) for s in range(N))"]
    dom = "for i in range(N) for j in range(N)"
    defs = [f"all(T(i,j,s,0)==0 {dom} for s in range(N))",
            f"all(T(i,j,s,t+1)=={tstep} {dom} for s in range(N) for t in range(N))",
            f"all(S(i,j,0)==0 {dom})",
            f"all(S(i,j,s+1)=={sstep} {dom} for s in range(N))",
            "all(Jn(i,0)==0 for i in range(N))",
            f"all(Jn(i,j+1)=={jstep} {dom})"]
    done = "all(this_betweenness[r]==Jn(r+start_i,N) for r in range({hi}))"
    zero = "all(this_betweenness[r]==0 for r in range({lo},end_i-start_i))"
    # float_mode UF: every float operation is uninterpreted, so "equals the triple-sum definition" means
    # "computes exactly these operations in exactly this order" and the obligations are pure EUF + arrays
    return K(name, "core", props=("C19", "C03", "C02", "C20"), requires=req, ghost=ghost, defs=defs, float_mode="UF",
             ensures=["shape(result[0],0)==end_i-start_i", "all(result[0][r]==Jn(r+start_i,N) for r in range(end_i-start_i))",
                      "result[1]==start_i and result[2]==end_i"],
             loops={"i_rel": [done.format(hi="i_rel"), zero.format(lo="i_rel"), "this_N==end_i-start_i"],
                    "i_rel.j": [done.format(hi="i_rel"), zero.format(lo="i_rel+1"), "this_N==end_i-start_i",
                                "i_abs==i_rel+start_i", "this_betweenness[i_rel]==Jn(i_abs,j)"],
                    "i_rel.j.s": ["sum_j==S(i_abs,j,s)", "i_abs==i_rel+start_i"],
                    "i_rel.j.s.t": ["sum_s==T(i_abs,j,s,t)", "Vis_minus_Vjs==V[i_abs,s]-V[j,s]", "i_abs==i_rel+start_i"]})


_newman_contract("_mpi_newman_betweenness", False)
_newman_contract("_mpi_nsi_newman_betweenness", True)

# ============================================================================ core: cross transitivity / clustering (C11, C02, C04)
_XN = ["shape(A,1)==shape(A,0)", "all(0<=nodes1[i] and nodes1[i]<shape(A,0) for i in range(shape(nodes1,0)))",
       "all(0<=nodes2[j] and nodes2[j]<shape(A,0) for j in range(shape(nodes2,0)))",
       "shape(nodes1,0)<=%d" % INT32, "shape(nodes2,0)<=%d" % INT32]
_M, _Nn = "shape(nodes1,0)", "shape(nodes2,0)"
_dom3 = f"for i in range({_M}) for j in range({_Nn})"

# ---- _cross_transitivity: ordered triple counts over (i in 1, k < j in 2)
K("_cross_transitivity", "core", props=("C11", "C04", "C20"),
  requires=_XN,
  ghost={"tk": ("int", "int", "int", "int"), "gk": ("int", "int", "int", "int"),
         "tj": ("int", "int", "int"), "gj": ("int", "int", "int"), "ti": ("int", "int"), "gi": ("int", "int")},
  defs=[f"all(tk(i,j,0)==0 and gk(i,j,0)==0 {_dom3})",
        f"all(tk(i,j,k+1)==tk(i,j,k)+ite(A[nodes1[i],nodes2[k]]!=0,1,0) {_dom3} for k in range({_Nn}))",
        f"all(gk(i,j,k+1)==gk(i,j,k)+ite(A[nodes2[j],nodes2[k]]!=0 and A[nodes2[k],nodes1[i]]!=0,1,0) {_dom3} for k in range({_Nn}))",
        f"all(tj(i,0)==0 and gj(i,0)==0 for i in range({_M}))",
        f"all(tj(i,j+1)==tj(i,j)+ite(A[nodes1[i],nodes2[j]]!=0, tk(i,j,j), 0) {_dom3})",
        f"all(gj(i,j+1)==gj(i,j)+ite(A[nodes1[i],nodes2[j]]!=0, gk(i,j,j), 0) {_dom3})",
        "ti(0)==0 and gi(0)==0",
        f"all(ti(i+1)==ti(i)+tj(i,{_Nn}) and gi(i+1)==gi(i)+gj(i,{_Nn}) for i in range({_M}))",
        f"all(tk(i,j,k)>=0 and gk(i,j,k)>=0 {_dom3} for k in range({_Nn}+1))"],
  ensures=[f"implies(ti({_M})!=0, result==real(gi({_M}))/real(ti({_M})))", f"implies(ti({_M})==0, result==0)"],
  loops={"i": ["triples==ti(i) and triangles==gi(i)", f"m=={_M} and n=={_Nn}"],
         "i.j": ["triples==ti(i)+tj(i,j) and triangles==gi(i)+gj(i,j)", f"m=={_M} and n=={_Nn}", "n1==nodes1[i]"],
         "i.j.k": ["triples==ti(i)+tj(i,j)+tk(i,j,k) and triangles==gi(i)+gj(i,j)+gk(i,j,k)", f"m=={_M} and n=={_Nn}",
                   "n1==nodes1[i] and n2==nodes2[j]"]},
  checks=("bounds", "narrow", "divzero"))

# ---- _cross_local_clustering
K("_cross_local_clustering", "core", props=("C11", "C04", "C20"),
  requires=_XN + [f"shape(norm,0)=={_M}", f"shape(cross_clustering,0)=={_M}"],
  ghost={"gk": ("int", "int", "int", "int"), "gj": ("int", "int", "int")},
  defs=[f"all(gk(i,j,0)==0 {_dom3})",
        f"all(gk(i,j,k+1)==gk(i,j,k)+ite(A[nodes2[j],nodes2[k]]!=0 and A[nodes2[k],nodes1[i]]!=0,1,0) {_dom3} for k in range({_Nn}))",
        f"all(gj(i,0)==0 for i in range({_M}))",
        f"all(gj(i,j+1)==gj(i,j)+ite(A[nodes1[i],nodes2[j]]!=0, gk(i,j,j), 0) {_dom3})"],
  ensures=[f"all(implies(norm[i]!=0, cross_clustering[i]==real(gj(i,{_Nn}))/norm[i]) for i in range({_M}))",
           f"all(implies(norm[i]==0, cross_clustering[i]==old(cross_clustering[i])) for i in range({_M}))"],
  loops={"i": [f"all(implies(norm[p]!=0, cross_clustering[p]==real(gj(p,{_Nn}))/norm[p]) for p in range(i))",
               f"all(implies(norm[p]==0 or p>=i, cross_clustering[p]==old(cross_clustering[p])) for p in range({_M}))",
               f"m=={_M} and n=={_Nn}"],
         "i.j": ["counter==gj(i,j)", "n1==nodes1[i]", f"m=={_M} and n=={_Nn}"],
         "i.j.k": ["counter==gj(i,j)+gk(i,j,k)", "n1==nodes1[i] and n2==nodes2[j]", f"m=={_M} and n=={_Nn}"]},
  checks=("bounds", "narrow", "divzero"))

# ---- _nsi_cross_transitivity
K("_nsi_cross_transitivity", "core", props=("C11", "C02", "C04", "C20"),
  requires=_XN + ["shape(node_weights,0)==shape(A,0)"],
  ghost={"aq": ("int", "int", "int", "float"), "bq": ("int", "int", "int", "float"),
         "ap": ("int", "int", "float"), "bp": ("int", "int", "float"), "av": ("int", "float"), "bv": ("int", "float")},
  defs=[f"all(aq(i,j,j+1)==0 and bq(i,j,j+1)==0 {_dom3})",
        # q runs over (p, n): partial sums from p+1 up to q (exclusive)
        f"all(bq(i,j,q+1)==bq(i,j,q)+ite(A[nodes1[i],nodes2[q]]!=0, 2*node_weights[nodes2[j]]*node_weights[nodes2[q]]*node_weights[nodes1[i]], 0) "
        f"{_dom3} for q in range(j+1,{_Nn}))",
        f"all(aq(i,j,q+1)==aq(i,j,q)+ite(A[nodes1[i],nodes2[q]]!=0 and A[nodes2[j],nodes2[q]]!=0, "
        f"2*node_weights[nodes2[j]]*node_weights[nodes2[q]]*node_weights[nodes1[i]], 0) {_dom3} for q in range(j+1,{_Nn}))",
        f"all(ap(i,0)==0 and bp(i,0)==0 for i in range({_M}))",
        f"all(ap(i,j+1)==ap(i,j)+ite(A[nodes1[i],nodes2[j]]!=0, node_weights[nodes2[j]]*node_weights[nodes2[j]]*node_weights[nodes1[i]]+aq(i,j,{_Nn}), 0) {_dom3})",
        f"all(bp(i,j+1)==bp(i,j)+ite(A[nodes1[i],nodes2[j]]!=0, node_weights[nodes2[j]]*node_weights[nodes2[j]]*node_weights[nodes1[i]]+bq(i,j,{_Nn}), 0) {_dom3})",
        "av(0)==0 and bv(0)==0",
        f"all(av(i+1)==av(i)+ap(i,{_Nn}) and bv(i+1)==bv(i)+bp(i,{_Nn}) for i in range({_M}))"],
  ensures=[f"implies(bv({_M})!=0, result==av({_M})/bv({_M}))"],
  loops={"v": ["T1==av(v) and T2==bv(v)", f"m=={_M} and n=={_Nn}"],
         "v.p": ["T1==av(v)+ap(v,p) and T2==bv(v)+bp(v,p)", "node_v==nodes1[v] and weight_v==node_weights[nodes1[v]]", f"m=={_M} and n=={_Nn}"],
         "v.p.q": ["T1==av(v)+ap(v,p)+weight_p*weight_p*weight_v+aq(v,p,q) and T2==bv(v)+bp(v,p)+weight_p*weight_p*weight_v+bq(v,p,q)",
                   "node_v==nodes1[v] and weight_v==node_weights[nodes1[v]] and node_p==nodes2[p] and weight_p==node_weights[nodes2[p]]",
                   "ppv==weight_p*weight_p*weight_v", f"m=={_M} and n=={_Nn}"]},
  checks=("bounds", "narrow"))

# ============================================================================ raw-pointer C functions (C20, C18, C10)
_FIT = "<=%d" % INT32
K("_spearman_corr", "climate", lang="c", props=("C20", "C10"),
  requires=["m>=0", "tmax>=0", "extent(final_mask)==m*tmax", "extent(time_series_ranked)==m*tmax",
            "extent(spearman_rho)==m*m", "m*m" + _FIT, "m*tmax" + _FIT],
  loops={"i": ["zerocount==0"], "i.j": ["zerocount==0"], "i.j.t": ["0<=zerocount and zerocount<=t"],
         "i.j.t#2": ["0<=zerocount and zerocount<=tmax"], "i.j.t#3": ["0<=zerocount and zerocount<=tmax"],
         "i.j.t#4": ["0<=zerocount and zerocount<=tmax"]},
  checks=("bounds", "overflow"), modifies=["spearman_rho"])

K("_mutual_information", "climate", lang="c", props=("C20", "C10"),
  requires=["N>=0", "n_samples>=0", "n_bins>=1", "extent(anomaly)==N*n_samples", "extent(symbolic)==N*n_samples",
            "extent(hist)==N*n_bins", "extent(hist2d)==n_bins*n_bins", "extent(mi)==N*N",
            "N*N" + _FIT, "N*n_samples" + _FIT, "N*n_bins" + _FIT, "n_bins*n_bins" + _FIT,
            "scaling>=0", "all(anomaly[q]>=range_min for q in range(N*n_samples))"],
  loops={"i": ["in_samples==i*n_samples", "in_bins==i*n_bins",
               "all(0<=symbolic[q] and symbolic[q]<n_bins for q in range(i*n_samples))"],
         "i.k": ["offset(p_anomaly)==in_samples+k", "offset(p_symbolic)==in_samples+k",
                 "all(0<=symbolic[q] and symbolic[q]<n_bins for q in range(i*n_samples+k))"],
         "i#2": ["in_samples==i*n_samples", "in_bins==i*n_bins", "in_nodes==i*N",
                 "all(0<=symbolic[q] and symbolic[q]<n_bins for q in range(N*n_samples))"],
         "i#2.j": ["jn_samples==j*n_samples", "jn_bins==j*n_bins", "offset(p_mi)==in_nodes+j", "offset(p_mi2)==i+j*N",
                   "all(0<=symbolic[q] and symbolic[q]<n_bins for q in range(N*n_samples))"],
         "i#2.j.k": ["offset(p_symbolic1)==in_samples+k", "offset(p_symbolic2)==jn_samples+k"],
         "i#2.j.l": ["offset(p_hist1)==in_bins+l", "ln_bins==l*n_bins"],
         "i#2.j.l.m": ["offset(p_hist2)==jn_bins+m", "offset(p_hist2d)==ln_bins+m"],
         "i#2.j.l#2": ["ln_bins==l*n_bins"],
         "i#2.j.l#2.m": ["offset(p_hist2d)==ln_bins+m"]},
  checks=("bounds", "narrow"), modifies=["symbolic", "hist", "hist2d", "mi"])

K("_test_pearson_correlation_fast", "timeseries", lang="c", props=("C20", "C10"),
  requires=["N>=0", "n_time>=0", "extent(original_data)==N*n_time", "extent(surrogates)==N*n_time",
            "extent(correlation)==N*N", "N*N" + _FIT, "N*n_time" + _FIT],
  loops={"i.j": ["offset(p_correlation)==i*N+j"],
         "i.j.k": ["offset(p_original)==i*n_time+k", "offset(p_surrogates)==j*n_time+k"]},
  checks=("bounds", "overflow"), modifies=["correlation"])

_SYM = "all(0<=symbolic_original[q] and symbolic_original[q]<n_bins and 0<=symbolic_surrogates[q] and symbolic_surrogates[q]<n_bins for q in range({hi}))"
K("_test_mutual_information_fast", "timeseries", lang="c", props=("C20", "C10"),
  requires=["N>=0", "n_time>=0", "n_bins>=1", "extent(original_data)==N*n_time", "extent(surrogates)==N*n_time",
            "extent(symbolic_original)==N*n_time", "extent(symbolic_surrogates)==N*n_time",
            "extent(hist_original)==N*n_bins", "extent(hist_surrogates)==N*n_bins", "extent(hist2d)==n_bins*n_bins",
            "extent(mi)==N*N", "N*N" + _FIT, "N*n_time" + _FIT, "N*n_bins" + _FIT, "n_bins*n_bins" + _FIT,
            "scaling>=0", "all(original_data[q]>=range_min and surrogates[q]>=range_min for q in range(N*n_time))"],
  loops={"i": ["in_time==i*n_time", "in_bins==i*n_bins", _SYM.format(hi="i*n_time")],
         "i.k": ["offset(p_original)==in_time+k", "offset(p_surrogates)==in_time+k",
                 "offset(p_symbolic_original)==in_time+k", "offset(p_symbolic_surrogates)==in_time+k",
                 _SYM.format(hi="i*n_time+k")],
         "i#2": ["in_time==i*n_time", "in_bins==i*n_bins", _SYM.format(hi="N*n_time")],
         "i#2.j": ["jn_time==j*n_time", "jn_bins==j*n_bins", "offset(p_mi)==i*N+j", _SYM.format(hi="N*n_time")],
         "i#2.j.k": ["offset(p_symbolic_original)==in_time+k", "offset(p_symbolic_surrogates)==jn_time+k"],
         "i#2.j.l": ["offset(p_hist_original)==in_bins+l"],
         "i#2.j.l.m": ["offset(p_hist_surrogates)==jn_bins+m", "offset(p_hist2d)==l*n_bins+m"],
         "i#2.j.l#2.m": ["offset(p_hist2d)==l*n_bins+m"]},
  checks=("bounds", "narrow"),
  modifies=["symbolic_original", "symbolic_surrogates", "hist_original", "hist_surrogates", "hist2d", "mi"])

# functional specification (C18 "equal the direct evaluation of their defining sums"): the value returned for node i is
#   sum_{t<N} sum_{s<t, s!=i, t!=i}  2/(N(N-1)) * sum_{j<N} Y[i,j] * |Is (R[i,s]-R[j,s]) + It (R[j,t]-R[i,t])| / 2
# written with ghost partial sums in the order the code accumulates them (UF float mode: exactly these operations)
_VJ = "admittance[i*N+j]*fabs(Is*(R[i*N+s]-R[j*N+s])+It*(R[j*N+t]-R[i*N+t]))/2.0"
K("_vertex_current_flow_betweenness_fast", "core", lang="c", props=("C20", "C18"), float_mode="UF",
  requires=["N>=0", "0<=i and i<N", "extent(admittance)==N*N", "extent(R)==N*N", "N*N" + _FIT],
  ghost={"JJ": ("int", "int", "int", "float"), "VS": ("int", "int", "float"), "VT": ("int", "float")},
  defs=["all(JJ(t,s,0)==0.0 for t in range(N) for s in range(t))",
        "all(JJ(t,s,j+1)==JJ(t,s,j)+" + _VJ + " for t in range(N) for s in range(t) for j in range(N))",
        "VT(0)==0.0",
        "all(VS(t,0)==VT(t) for t in range(N))",
        "all(VS(t,s+1)==ite(i==t or i==s, VS(t,s), VS(t,s)+2.0*JJ(t,s,N)/(N*(N-1))) for t in range(N) for s in range(t))",
        "all(VT(t+1)==VS(t,t) for t in range(N))"],
  ensures=["result==VT(N)"],
  loops={"t": ["VCFB==VT(t)"], "t.s": ["VCFB==VS(t,s)"], "t.s.j": ["J==JJ(t,s,j)", "VCFB==VS(t,s)", "i!=t and i!=s"]},
  checks=("bounds", "overflow"))
# edge current flow betweenness: ECFB[i,j] += (float) 2/(N(N-1)) * sum_{t<N} sum_{s<t} Y[i,j] |Is (R[i,s]-R[j,s]) + It (R[j,t]-R[i,t])|
_EJ = "admittance[i*N+j]*fabs(Is*(R[i*N+s]-R[j*N+s])+It*(R[j*N+t]-R[i*N+t]))"
K("_edge_current_flow_betweenness_fast", "core", lang="c", props=("C20", "C18"), float_mode="UF",
  requires=["N>=0", "extent(admittance)==N*N", "extent(R)==N*N", "extent(ECFB)==N*N", "N*N" + _FIT],
  ghost={"ES": ("int", "int", "int", "int", "float"), "ET": ("int", "int", "int", "float")},
  defs=["all(ET(i,j,0)==0.0 for i in range(N) for j in range(N))",
        "all(ES(i,j,t,0)==ET(i,j,t) for i in range(N) for j in range(N) for t in range(N))",
        "all(ES(i,j,t,s+1)==ES(i,j,t,s)+" + _EJ + " for i in range(N) for j in range(N) for t in range(N) for s in range(t))",
        "all(ET(i,j,t+1)==ES(i,j,t,t) for i in range(N) for j in range(N) for t in range(N))"],
  # per-store statement: the quantity added to element (i,j) is 2/(N(N-1)) times the defining double sum ET(i,j,N)
  # (each (i,j) is visited exactly once by the two enclosing counting loops; the frame of the other elements is not
  # stated for the flat array - quantified flat indices a*N+b are nonlinear)
  asserts={"store:ECFB": ["J==ET(i,j,N)", "idx0==i*N+j"]},
  loops={"i.j.t": ["J==ET(i,j,t)"], "i.j.t.s": ["J==ES(i,j,t,s)"]},
  checks=("bounds", "overflow"), modifies=["ECFB"])

# ---- Cython wrappers that hand raw data pointers to C: the call must satisfy the C contract
# (extent / element-width / contiguity obligations arise at the `<T*> PyArray_DATA(x)` casts and at the call)
def _wrap(name, module, callee, requires, props=("C20",)):
    c = K(name, module, props=props, requires=requires, checks=("bounds", "overflow", "narrow", "width", "contig", "pre", "buffer"))
    c.callee_contracts = {callee: REG[callee][0].contract}
    return c


_wrap("spearman_corr", "climate", "_spearman_corr",
      ["m>=0", "tmax>=0", "shape(final_mask,0)==m", "shape(final_mask,1)==tmax", "shape(time_series_ranked,0)==m",
       "shape(time_series_ranked,1)==tmax", "m*m" + _FIT, "m*tmax" + _FIT], props=("C20", "C10"))
_wrap("mutual_information", "climate", "_mutual_information",
      ["N>=0", "n_samples>=0", "n_bins>=1", "shape(anomaly,0)==N", "shape(anomaly,1)==n_samples",
       "N*N" + _FIT, "N*n_samples" + _FIT, "N*n_bins" + _FIT, "n_bins*n_bins" + _FIT, "scaling>=0",
       "all(anomaly[a,b]>=range_min for a in range(N) for b in range(n_samples))"], props=("C20", "C10"))
_wrap("_test_pearson_correlation", "timeseries", "_test_pearson_correlation_fast",
      ["N>=0", "n_time>=1", "shape(original_data,0)==N", "shape(original_data,1)==n_time",
       "shape(surrogates,0)==N", "shape(surrogates,1)==n_time", "N*N" + _FIT, "N*n_time" + _FIT], props=("C20", "C10"))
_wrap("_vertex_current_flow_betweenness", "core", "_vertex_current_flow_betweenness_fast",
      # the shapes of admittance / R are no longer assumed: the wrapper checks them and raises ValueError
      ["N>=0", "0<=i and i<N", "contiguous(admittance) and contiguous(R)", "N*N" + _FIT], props=("C20", "C18"))
_wrap("_edge_current_flow_betweenness", "core", "_edge_current_flow_betweenness_fast",
      ["N>=0", "contiguous(admittance) and contiguous(R)", "N*N" + _FIT], props=("C20", "C18"))

_wrap("_test_mutual_information", "timeseries", "_test_mutual_information_fast",
      ["N>=1", "n_time>=1", "n_bins>=1", "shape(original_data,0)==N", "shape(original_data,1)==n_time",
       "shape(surrogates,0)==N", "shape(surrogates,1)==n_time", "N*N" + _FIT, "N*n_time" + _FIT, "N*n_bins" + _FIT,
       "n_bins*n_bins" + _FIT], props=("C20", "C10"))

# ============================================================================ core: cliquishness (C03, C20)
for _order, _nm in ((4, "_local_cliquishness_4thorder"), (5, "_local_cliquishness_5thorder")):
    _d = "degree_i"
    _loops = {"i": ["shape(neighbors,0)==N"],
              "i.j": ["0<=index and index<=j"],
              "i.j#2": [f"0<=counter and counter<=j*{_d}*{_d}" + (f"*{_d}" if _order == 5 else ""), f"0<={_d} and {_d}<=N"],
              "i.j#2.k": [f"0<=counter and counter<=j*{_d}*{_d}" + (f"*{_d}+k*{_d}*{_d}" if _order == 5 else f"+k*{_d}"),
                          f"0<={_d} and {_d}<=N"],
              "i.j#2.k.l": [f"0<=counter and counter<=j*{_d}*{_d}" + (f"*{_d}+k*{_d}*{_d}+l*{_d}" if _order == 5 else f"+k*{_d}+l"),
                            f"0<={_d} and {_d}<=N"]}
    if _order == 5:
        _loops["i.j#2.k.l.m"] = [f"0<=counter and counter<=j*{_d}*{_d}*{_d}+k*{_d}*{_d}+l*{_d}+m", f"0<={_d} and {_d}<=N"]
    for _k in _loops:
        _loops[_k] = _loops[_k] + ["all(0<=neighbors[q] and neighbors[q]<N for q in range(N))"]
    K(_nm, "core", props=("C03", "C20"),
      requires=["N>=0", "N<=32767", "shape(A,0)==N", "shape(A,1)==N", "shape(degree,0)==N",
                "all(0<=degree[a] and degree[a]<=N for a in range(N))",
                "all(0<=A[a,b] and A[a,b]<=1 for a in range(N) for b in range(N))"],
      loops=_loops, checks=("bounds", "overflow", "narrow", "divzero"))

# ============================================================================ timeseries: adaptive neighbourhood, bootstrap, sampling (C07, C08)
K("_set_adaptive_neighborhood_size", "timeseries", props=("C07", "C20"),
  requires=["n_time>=0", "adaptive_neighborhood_size>=0", "shape(sorted_neighbors,0)==n_time", "shape(sorted_neighbors,1)==n_time",
            "shape(order,0)==n_time", "shape(recurrence,0)==n_time", "shape(recurrence,1)==n_time",
            "all(0<=order[a] and order[a]<n_time for a in range(n_time))",
            "all(0<=sorted_neighbors[a,b] and sorted_neighbors[a,b]<n_time for a in range(n_time) for b in range(n_time))",
            "all(recurrence[a,b]==recurrence[b,a] and (recurrence[a,b]==0 or recurrence[a,b]==1) for a in range(n_time) for b in range(n_time))"],
  ensures=["all(recurrence[a,b]==recurrence[b,a] and (recurrence[a,b]==0 or recurrence[a,b]==1) for a in range(n_time) for b in range(n_time))",
           # entries are only ever switched on
           "all(implies(old(recurrence[a,b])==1, recurrence[a,b]==1) for a in range(n_time) for b in range(n_time))"],
  loops={k: ["all(recurrence[a,b]==recurrence[b,a] and (recurrence[a,b]==0 or recurrence[a,b]==1) for a in range(n_time) for b in range(n_time))",
             "all(implies(old(recurrence[a,b])==1, recurrence[a,b]==1) for a in range(n_time) for b in range(n_time))"] +
         (["i+1<=k and k<=max(n_time,i+1)", "0<=l and l<n_time"] if k.endswith("while") else [])
         for k in ("i", "i.j", "i.j.while")})

for _m in ("manhattan", "euclidean", "supremum"):
    K(f"_bootstrap_distance_matrix_{_m}", "timeseries", props=("C07", "C20"),
      requires=["n_time>=1", "dim>=0", "M>=0", "shape(embedding,0)==n_time", "shape(embedding,1)==dim", "shape(distances,0)==M"],
      checks=("bounds", "narrow", "buffer", "overflow"))

K("_rejection_sampling", "timeseries", props=("C08", "C20"),
  requires=["N>=1", "M>=0", "shape(dist,0)==N", "shape(resampled_dist,0)==N"], checks=("bounds",))

K("_recurrence_plot", "timeseries", props=("C15", "C07", "C20"),
  requires=["n_time>=0", "dimension>=0", "shape(embedding,0)==n_time", "shape(embedding,1)==dimension",
            "shape(R,0)==n_time", "shape(R,1)==n_time", "all(R[a,b]==1 for a in range(n_time) for b in range(n_time))"],
  ensures=["all(R[a,b]==R[b,a] and (R[a,b]==0 or R[a,b]==1) for a in range(n_time) for b in range(n_time))",
           "all(R[a,a]==1 for a in range(n_time))",
           "all(iff(R[a,b]==0, any(abs(embedding[a,l]-embedding[b,l])>threshold for l in range(dimension))) "
           "for a in range(n_time) for b in range(a))"],
  loops={"j": ["all(R[a,b]==R[b,a] and (R[a,b]==0 or R[a,b]==1) for a in range(n_time) for b in range(n_time))",
               "all(R[a,a]==1 for a in range(n_time))", "T==n_time and D==dimension",
               "all(iff(R[a,b]==0, any(abs(embedding[a,l]-embedding[b,l])>threshold for l in range(dimension))) for a in range(j) for b in range(a))",
               "all(R[a,b]==1 for a in range(j,n_time) for b in range(a))"],
         "j.k": ["all(R[a,b]==R[b,a] and (R[a,b]==0 or R[a,b]==1) for a in range(n_time) for b in range(n_time))",
                 "all(R[a,a]==1 for a in range(n_time))", "T==n_time and D==dimension",
                 "all(iff(R[a,b]==0, any(abs(embedding[a,l]-embedding[b,l])>threshold for l in range(dimension))) for a in range(j) for b in range(a))",
                 "all(iff(R[j,b]==0, any(abs(embedding[j,l]-embedding[b,l])>threshold for l in range(dimension))) for b in range(k))",
                 "all(R[j,b]==1 for b in range(k,j))", "all(R[a,b]==1 for a in range(j+1,n_time) for b in range(a))"],
         "j.k.l": ["all(not (abs(embedding[j,q]-embedding[k,q])>threshold) for q in range(l))", "T==n_time and D==dimension",
                   "unchanged(R)"]})

# ============================================================================ timeseries: time-directed clustering (C14)
for _nm, _out, _jr, _kr in (("_retarded_local_clustering", "retarded_clustering", "range(i)", "range(j)"),
                            ("_advanced_local_clustering", "advanced_clustering", "range(i+1,N)", "range(i+1,j)")):
    _jlo, _klo = ("0", "0") if "retarded" in _nm else ("i+1", "i+1")
    K(_nm, "timeseries", props=("C14", "C20"),
      requires=["N>=0", "shape(A,0)==N", "shape(A,1)==N", "shape(norm,0)==N", f"shape({_out},0)==N"],
      ghost={"ck": ("int", "int", "int", "int"), "cj": ("int", "int", "int")},
      defs=[f"all(ck(i,j,{_klo})==0 for i in range(N) for j in range(N))",
            "all(ck(i,j,k+1)==ck(i,j,k)+ite(A[i,j]==1 and A[j,k]==1 and A[k,i]==1,1,0) for i in range(N) for j in range(N) for k in range(N))",
            f"all(cj(i,{_jlo})==0 for i in range(N))",
            "all(cj(i,j+1)==cj(i,j)+ck(i,j,j) for i in range(N) for j in range(N))"],
      ensures=[f"all(implies(norm[i]!=0, {_out}[i]==real(cj(i," + ("i" if "retarded" in _nm else "N") + f"))/norm[i]) for i in range(" + ("N" if "retarded" in _nm else "N-2") + "))"],
      loops={"i": [f"all(implies(norm[p]!=0, {_out}[p]==real(cj(p," + ("p" if "retarded" in _nm else "N") + "))/norm[p]) for p in range(i))"],
             "i.j": ["counter==cj(i,j)"], "i.j.k": ["counter==cj(i,j)+ck(i,j,k)"]},
      checks=("bounds", "narrow", "divzero"))

# ============================================================================ funcnet kernels (C10, C20)
K("_symmetrize_by_absmax", "funcnet", props=("C10", "C20"),
  requires=["N>=0", "shape(similarity_matrix,0)==N", "shape(similarity_matrix,1)==N", "shape(lag_matrix,0)==N",
            "shape(lag_matrix,1)==N", "all(-127<=lag_matrix[a,b] and lag_matrix[a,b]<=127 for a in range(N) for b in range(N))"],
  # after the call the value matrix is symmetric, the lag matrix antisymmetric, the diagonal untouched
  # and every lag still fits int8 (negation of -128 would not)
  ensures=["all(similarity_matrix[a,b]==similarity_matrix[b,a] and lag_matrix[a,b]==-lag_matrix[b,a] for a in range(N) for b in range(a+1,N))", "all(similarity_matrix[a,a]==old(similarity_matrix[a,a]) and lag_matrix[a,a]==old(lag_matrix[a,a]) for a in range(N))", "all(-127<=lag_matrix[a,b] and lag_matrix[a,b]<=127 for a in range(N) for b in range(N))"],
  loops={"i": ["all(similarity_matrix[a,b]==similarity_matrix[b,a] and lag_matrix[a,b]==-lag_matrix[b,a] for a in range(i) for b in range(a+1,N))", "all(similarity_matrix[a,a]==old(similarity_matrix[a,a]) and lag_matrix[a,a]==old(lag_matrix[a,a]) for a in range(N))", "all(-127<=lag_matrix[a,b] and lag_matrix[a,b]<=127 for a in range(N) for b in range(N))"],
         "i.j": ["all(similarity_matrix[a,b]==similarity_matrix[b,a] and lag_matrix[a,b]==-lag_matrix[b,a] for a in range(i) for b in range(a+1,N))", "all(similarity_matrix[a,a]==old(similarity_matrix[a,a]) and lag_matrix[a,a]==old(lag_matrix[a,a]) for a in range(N))", "all(-127<=lag_matrix[a,b] and lag_matrix[a,b]<=127 for a in range(N) for b in range(N))",
                 "all(similarity_matrix[i,b]==similarity_matrix[b,i] and lag_matrix[i,b]==-lag_matrix[b,i] for b in range(i+1,j))"]})

# cross-correlation kernels: value = fold of the lagged products / corr_range, stored as float32;
# reversed lag bookkeeping: slot tau_max - tau holds the product of array[tau,i,:] with array[tau_max,j,:]
_CCG = {"cc": ("int", "int", "int", "int", "float")}
_CCD = ["all(cc(i,j,tau,0)==0 for i in range(N) for j in range(N) for tau in range(tau_max+1))",
        "all(cc(i,j,tau,k+1)==cc(i,j,tau,k)+array[tau,i,k]*array[tau_max,j,k] for i in range(N) for j in range(N) "
        "for tau in range(tau_max+1) for k in range(corr_range))"]
_CCR = ["N>=0", "tau_max>=0", "tau_max<=2147483646", "corr_range>=1", "shape(array,0)==tau_max+1", "shape(array,1)==N", "shape(array,2)==corr_range"]
K("_cross_correlation_all", "funcnet", props=("C10", "C20"), requires=_CCR, ghost=_CCG, defs=_CCD,
  ensures=["shape(result,0)==N and shape(result,1)==N and shape(result,2)==tau_max+1",
           "all(result[i,j,tau_max-tau]==cc(i,j,tau,corr_range)/corr_range for i in range(N) for j in range(N) for tau in range(tau_max+1))"],
  loops={"i": ["all(lagfuncs[a,j,tau_max-tau]==cc(a,j,tau,corr_range)/corr_range for a in range(i) for j in range(N) for tau in range(tau_max+1))"],
         "i.j": ["all(lagfuncs[a,b,tau_max-tau]==cc(a,b,tau,corr_range)/corr_range for a in range(i) for b in range(N) for tau in range(tau_max+1))",
                 "all(lagfuncs[i,b,tau_max-tau]==cc(i,b,tau,corr_range)/corr_range for b in range(j) for tau in range(tau_max+1))"],
         "i.j.tau": ["all(lagfuncs[a,b,tau_max-t]==cc(a,b,t,corr_range)/corr_range for a in range(i) for b in range(N) for t in range(tau_max+1))",
                     "all(lagfuncs[i,b,tau_max-t]==cc(i,b,t,corr_range)/corr_range for b in range(j) for t in range(tau_max+1))",
                     "all(lagfuncs[i,j,tau_max-t]==cc(i,j,t,corr_range)/corr_range for t in range(tau))"],
         "i.j.tau.k": ["crossij==cc(i,j,tau,k)"]},
  checks=("bounds", "overflow", "divzero"))

K("_cross_correlation_max", "funcnet", props=("C10", "C20"),
  requires=_CCR + ["tau_max<=127"], ghost=_CCG, defs=_CCD,
  # value at a lag index of maximal magnitude, lag = tau_max - argmax, which fits int8 because tau_max <= 127
  ensures=["shape(result[0],0)==N and shape(result[1],0)==N",
           "all(0<=result[1][i,j] and result[1][i,j]<=tau_max for i in range(N) for j in range(N))"],
  loops={"i": ["all(0<=lag_matrix[a,b] and lag_matrix[a,b]<=tau_max for a in range(N) for b in range(N))"],
         "i.j": ["all(0<=lag_matrix[a,b] and lag_matrix[a,b]<=tau_max for a in range(N) for b in range(N))"],
         "i.j.tau": ["0<=argmax and argmax<=tau_max",
                     "all(abs(cc(i,j,u,corr_range))<=abs(max) for u in range(tau))"],
         "i.j.tau.k": ["crossij==cc(i,j,tau,k)"]},
  checks=("bounds", "overflow", "divzero", "narrow"))

K("_get_nearest_neighbors", "funcnet", props=("C10", "C20"),
  requires=["dim>=1", "T>=1", "k>=0", "k<2147483646", "dim_x>=1", "dim_y>=1", "dim_x+dim_y<=dim",
            "shape(array,0)==dim", "shape(array,1)==T"],
  loops={"i": [], "i.while": ["0<=n and n<=T"], "i.while.t": ["0<=n and n<=t"], "i.while.t.while": ["0<=d and d<=dim"],
         "i.j": ["n<=T"], "i.j.d": [], "i.j.while": ["-1<=m and m<=k"], "i.j#2": ["0<=kz and kz<=j and 0<=kxz and kxz<=j and 0<=kyz and kyz<=j"],
         "i.j#2.d": [], "i.j#2.d#2": [], "i.j#2.d#3": []},
  checks=("bounds", "overflow", "narrow", "divzero"))
for _k in REG["_get_nearest_neighbors"][0].contract.loops:
    REG["_get_nearest_neighbors"][0].contract.loops[_k] = REG["_get_nearest_neighbors"][0].contract.loops[_k] + \
        ["all(0<=indexfound[q] and indexfound[q]<T for q in range(T))"]

# ============================================================================ Python master loops of the distributed measures (C19)
# CHUNKS / SUBMIT / COLLECT on the real master code: the region `if mpi.available:` of each method is
# executed symbolically (py_mode).  N is the size of the connected component (>= 2: components with one
# node are skipped by the callers), mpi.size >= 2.
def _chunks(name, method, iv, collect_slice=True):
    sub = ["kw_id==%s" % iv, "0<=start_i and start_i<end_i and end_i<=N",
           "start_i==%s*step" % iv, "end_i==ite((%s+1)*step<N, (%s+1)*step, N)" % (iv, iv),
           "implies(%s==parts-1, end_i==N)" % iv]
    asserts = {"call:mpi.submit_call": sub}
    call_facts = {}
    if collect_slice:
        # results are written to the slice the job itself reports (= the slice it was submitted with)
        asserts["store:component_betweenness"] = [
            "lo0==%s*step" % iv, "hi0==ite((%s+1)*step<N, (%s+1)*step, N)" % (iv, iv), "implies(%s==parts-1, hi0==N)" % iv]
        # protocol assumption (FIFO model of utils/mpi.py, exercised by the bounded layer): get_result(id) returns the
        # value of the call submitted with that id; the kernel contract (ROWLOCAL) says this value is
        # (row values, start_i, end_i) of that job
        call_facts = {"mpi.get_result": {"returns": 3, "types": ["obj", "int", "int"],
                                         "ensures": ["result_1==arg0*step", "result_2==ite((arg0+1)*step<N, (arg0+1)*step, N)"]}}
    inv = ["max_parts>=1", "step>=1", "step*max_parts>=N", "(step-1)*max_parts<N", "parts>=1", "parts*step>=N", "(parts-1)*step<N"]
    c = K(name, "core/network.py", lang="py", func=method, props=("C19",), py_mode=True, inputs={"N": "int"},
          requires=["N>=2"],
          # the float expressions are exact ceilings for N < 2^26 (assumption listed in the evidence)
          # SUBMIT: exactly one job per chunk index has been submitted when collection starts,
          # whatever the verbosity; COLLECT: exactly one result is fetched per chunk index
          loops={iv: inv + ["count('mpi.submit_call')==%s" % iv],
                 iv + "#2": ["parts>=1", "step>=1", "parts*step>=N", "(parts-1)*step<N",
                             "count('mpi.submit_call')==parts", "count('mpi.get_result')==%s" % iv]},
          count_calls=("mpi.submit_call", "mpi.get_result"),
          asserts=asserts, call_facts=call_facts, checks=("divzero",))
    c.region = "if:mpi.available"
    return c


_chunks("newman_betweenness[master]", "Network.newman_betweenness", "index")
_chunks("nsi_newman_betweenness[master]", "Network.nsi_newman_betweenness", "idx")
_chunks("nsi_arenas_betweenness[master]", "Network.nsi_arenas_betweenness", "index", collect_slice=False)

# ============================================================================ Python/NumPy glue under contract (py_mode, NumPy-lite semantics)
# C09 MASK: A[i,j] = 1  <=>  i != j and S[i,j] > threshold   (strict; the flat stride N+1 hits exactly the diagonal)
_c = K("ClimateNetwork._calculate_threshold_adjacency", "climate/climate_network.py", lang="py",
       func="ClimateNetwork._calculate_threshold_adjacency", props=("C09",), py_mode=True,
       inputs={"similarity_measure": "arr:float64:2", "threshold": "float"},
       requires=["shape(similarity_measure,1)==shape(similarity_measure,0)"],
       ensures=["shape(result,0)==shape(similarity_measure,0) and shape(result,1)==shape(similarity_measure,0)",
                "all(iff(result[i,j]==1, i!=j and similarity_measure[i,j]>threshold) and (result[i,j]==0 or result[i,j]==1) "
                "for i in range(shape(similarity_measure,0)) for j in range(shape(similarity_measure,0)))"],
       checks=("divzero", "shape", "narrow"))
_c.region = "body"

# C13 WINDOW: the boolean masks of Data.set_window are the closed-interval predicates of the statement
# (all-true when the two bounds of an axis coincide; "either pair equal => all nodes" for space, as documented)
_W = {"window.time_min": "float", "window.time_max": "float", "window.lat_min": "float", "window.lat_max": "float",
      "window.lon_min": "float", "window.lon_max": "float", "full_time": "arr:float64:1", "full_lat_seq": "arr:float64:1",
      "full_lon_seq": "arr:float64:1"}
_c = K("Data.set_window[masks]", "core/data.py", lang="py", func="Data.set_window", props=("C13",), py_mode=True, inputs=_W,
       requires=["shape(full_lat_seq,0)==shape(full_lon_seq,0)"],
       asserts={
           "time = full_time[time_indices]": [
               "all(iff(time_indices[i]==1, window.time_min==window.time_max or "
               "(window.time_min<=full_time[i] and full_time[i]<=window.time_max)) for i in range(shape(full_time,0)))"],
           "lat_seq = full_lat_seq[space_indices]": [
               "all(iff(space_indices[i]==1, window.lat_min==window.lat_max or window.lon_min==window.lon_max or "
               "(window.lat_min<=full_lat_seq[i] and full_lat_seq[i]<=window.lat_max and "
               "window.lon_min<=full_lon_seq[i] and full_lon_seq[i]<=window.lon_max)) for i in range(shape(full_lat_seq,0)))"],
           # the same two masks select the observable and the grid (shape agreement by construction)
           "lon_seq = full_lon_seq[space_indices]": []},
       checks=("shape",))
_c.region = "body"
_c.required_asserts = ["time = full_time[time_indices]", "lat_seq = full_lat_seq[space_indices]"]

# C07 THRESH: R[a,b] = 1  <=>  D[a,b] < threshold (strict) and neither state holds a missing value
_c = K("RecurrencePlot.set_fixed_threshold", "timeseries/recurrence_plot.py", lang="py",
       func="RecurrencePlot.set_fixed_threshold", props=("C07",), py_mode=True,
       inputs={"distance": "arr:float64:2", "threshold": "float", "self.missing_values": "bool",
               "self.missing_value_indices": "arr:bool:1"},
       requires=[],
       asserts={"self.R = recurrence": [
           "shape(distance,1)==shape(distance,0) and shape(self.missing_value_indices,0)==shape(distance,0)"]},
       ensures=["all(iff(self.R[a,b]==1, distance[a,b]<threshold and not (self.missing_values!=0 and "
                "(self.missing_value_indices[a]==1 or self.missing_value_indices[b]==1))) and (self.R[a,b]==0 or self.R[a,b]==1) "
                "for a in range(shape(distance,0)) for b in range(shape(distance,0)))"],
       checks=("narrow",))
_c.region = "body"
_c.asserts = {}
_c.requires = ["shape(distance,1)==shape(distance,0)", "shape(self.missing_value_indices,0)==shape(distance,0)"]

_c = K("CrossRecurrencePlot.set_fixed_threshold", "timeseries/cross_recurrence_plot.py", lang="py",
       func="CrossRecurrencePlot.set_fixed_threshold", props=("C07",), py_mode=True,
       inputs={"distance": "arr:float64:2", "threshold": "float"},
       ensures=["all(iff(self.CR[a,b]==1, distance[a,b]<threshold) and (self.CR[a,b]==0 or self.CR[a,b]==1) "
                "for a in range(shape(distance,0)) for b in range(shape(distance,1)))",
                "self.N==shape(distance,0) and self.M==shape(distance,1)"],
       checks=("narrow", "shape"))
_c.region = "body"

# C07 RN: the adjacency handed to Network.__init__ is R with the diagonal cleared (stride N+1 hits exactly the diagonal)
_c = K("RecurrenceNetwork.set_fixed_threshold", "timeseries/recurrence_network.py", lang="py",
       func="RecurrenceNetwork.set_fixed_threshold", props=("C07",), py_mode=True,
       inputs={"self.R": "arr:int8:2", "self.N": "int"},
       requires=["shape(self.R,0)==self.N and shape(self.R,1)==self.N", "self.N>=0"],
       asserts={"call:Network.__init__": [
           "all(arg1[a,b]==ite(a==b, 0, self.R[a,b]) for a in range(self.N) for b in range(self.N))"]},
       checks=("divzero",))
_c.region = "body"
_c.required_asserts = []

# C05 INV-Network: the derived summary attributes written by the adjacency setter are the stated functions of the
# non-zero coordinates (edges = nz_coords(adjacency): one row per non-zero entry - assumed contract of the helper)
_c = K("Network.adjacency.setter", "core/network.py", lang="py", func="Network.adjacency#setter", props=("C05",), py_mode=True,
       inputs={"M": "int", "N": "int", "edges": "arr:int64:2", "self.directed": "bool"},
       requires=["N>=0", "M>=0"],
       ensures=["self.N==N and M==N",
                "self.n_links==ite(self.directed!=0, shape(edges,0), shape(edges,0)//2)",
                "self.link_density==ite(N>1, real(shape(edges,0))/N/(N-1), 0)"],
       checks=("divzero",))
_c.region = "body"

# C09 QUANTILE-DENSITY (index arithmetic): for every requested density in [0,1] the selected order statistic exists,
# and at most link_density * L entries lie strictly above an ascending array's element at that index (M2 order-statistic
# lemma on paper: in an ascending array at most len-1-k entries exceed entry k)
_c = K("ClimateNetwork.threshold_from_link_density", "climate/climate_network.py", lang="py",
       func="ClimateNetwork.threshold_from_link_density", props=("C09",), py_mode=True,
       inputs={"flat_corr": "arr:float64:1", "link_density": "float"},
       requires=["0<=link_density and link_density<=1", "shape(flat_corr,0)>=1"],
       asserts={"del flat_corr": [
           "real(shape(flat_corr,0)-1-ite(int((1-link_density)*shape(flat_corr,0))<shape(flat_corr,0)-1, "
           "int((1-link_density)*shape(flat_corr,0)), shape(flat_corr,0)-1)) <= link_density*shape(flat_corr,0)"]},
       checks=("bounds",))
_c.region = "body"

# ============================================================================ call-site contracts of the Python wrappers (USES)
# The public method really hands the work to the verified kernel, exactly once, with arguments that satisfy the
# kernel's precondition (shape facts come from the class invariants stated as `requires` of the region), and - where
# several kernels exist - picks the one the object's mode flags call for.
def _uses(name, file, method, props, inputs, requires, calls, total="==1", extra_ensures=(), region="body"):
    asserts = {"call:" + k: v for k, v in calls.items()}
    cnt = "+".join(f"count('{k}')" for k in calls)
    c = K(name, file, lang="py", func=method, props=props, py_mode=True, inputs=inputs, requires=requires,
          asserts=asserts, count_calls=tuple(calls), ensures=[f"{cnt}{total}"] + list(extra_ensures), checks=("shape",))
    c.region = region
    return c


_uses("Grid.euclidean_distance[uses]", "core/grid.py", "Grid.euclidean_distance", ("C12", "C20"),
      {"sequences": "arr:float32:2", "self.N": "int"}, ["shape(sequences,1)==self.N", "self.N>=0"],
      {"_calculate_euclidean_distance": ["shape(arg0,0)==arg2 and shape(arg0,1)==arg3", "shape(arg1,0)==arg3 and shape(arg1,1)==arg3",
                                         "arg3==self.N"]},
      extra_ensures=["shape(result,0)==self.N and shape(result,1)==self.N"])
_uses("GeoGrid.angular_distance[uses]", "core/geo_grid.py", "GeoGrid.angular_distance", ("C12", "C20"),
      {"self.N": "int"}, ["self.N>=0"],
      {"_calculate_angular_distance": ["shape(arg4,0)==arg5 and shape(arg4,1)==arg5", "arg5==self.N"]})
for _m in ("manhattan", "euclidean", "supremum"):
    _uses(f"RecurrencePlot.{_m}_distance_matrix[uses]", "timeseries/recurrence_plot.py", f"RecurrencePlot.{_m}_distance_matrix",
          ("C07", "C20"), {"self.embedding": "arr:float64:2"}, [],
          {f"_{_m}_distance_matrix_rp": ["shape(arg2,0)==arg0 and shape(arg2,1)==arg1"]})
_uses("VisibilityGraph.visibility_relations[uses]", "timeseries/visibility_graph.py", "VisibilityGraph.visibility_relations",
      ("C14", "C20"),
      {"self.time_series": "arr:float32:1", "self.timings": "arr:float32:1", "self.missing_values": "bool",
       "self.missing_value_indices": "arr:bool:1"},
      ["shape(self.timings,0)==shape(self.time_series,0)", "shape(self.missing_value_indices,0)==shape(self.time_series,0)"],
      {"_visibility_relations_missingvalues": ["self.missing_values!=0", "shape(arg0,0)==arg2 and shape(arg1,0)==arg2",
                                               "shape(arg3,0)==arg2 and shape(arg3,1)==arg2 and shape(arg4,0)==arg2",
                                               "all(arg3[a,b]==0 for a in range(arg2) for b in range(arg2))"],
       "_visibility_relations_no_missingvalues": ["self.missing_values==0", "shape(arg0,0)==arg2 and shape(arg1,0)==arg2",
                                                  "shape(arg3,0)==arg2 and shape(arg3,1)==arg2",
                                                  "all(arg3[a,b]==0 for a in range(arg2) for b in range(arg2))"]})
_uses("VisibilityGraph.visibility_relations_horizontal[uses]", "timeseries/visibility_graph.py",
      "VisibilityGraph.visibility_relations_horizontal", ("C14", "C20"),
      {"self.time_series": "arr:float32:1", "self.missing_values": "bool", "self.missing_value_indices": "arr:bool:1"},
      ["shape(self.missing_value_indices,0)==shape(self.time_series,0)"],
      {"_visibility_relations_horizontal": ["shape(arg0,0)==arg1", "shape(arg2,0)==arg1 and shape(arg2,1)==arg1",
                                            "all(arg2[a,b]==0 for a in range(arg1) for b in range(arg1))"]},
      # with missing values every row and column of a missing sample is cleared afterwards
      extra_ensures=["implies(self.missing_values!=0, all(implies(self.missing_value_indices[a]==1, result[a,b]==0 and result[b,a]==0) "
                     "for a in range(shape(self.time_series,0)) for b in range(shape(self.time_series,0))))"])

# C08 MODE: which instantiation of the line kernel serves which (sparse_rqa, missing_values) mode
for _kind, _white in (("diagline", False), ("vertline", False)):
    _uses(f"RecurrencePlot.{_kind}_dist[uses]", "timeseries/recurrence_plot.py", f"RecurrencePlot.{_kind}_dist", ("C08", "C20"),
          {"self.N": "int", "self.sparse_rqa": "bool", "self.missing_values": "bool", "recmat": "arr:int8:2",
           "self.missing_value_indices": "arr:bool:1", "embedding": "arr:float64:2", "mv_indices": "arr:bool:1"},
          ["self.N>=0", "shape(self.missing_value_indices,0)==self.N", "shape(mv_indices,0)==self.N"],
          {f"_{_kind}_dist": ["self.sparse_rqa==0 and self.missing_values==0", "arg0==self.N and shape(arg1,0)==self.N",
                              "all(arg1[q]==0 for q in range(self.N))"],
           f"_{_kind}_dist_missingvalues": ["self.sparse_rqa==0 and self.missing_values!=0", "arg0==self.N and shape(arg1,0)==self.N",
                                            "all(arg1[q]==0 for q in range(self.N))"],
           f"_{_kind}_dist_sequential": ["self.sparse_rqa!=0 and self.missing_values==0", "arg0==self.N and shape(arg1,0)==self.N",
                                         "all(arg1[q]==0 for q in range(self.N))"],
           f"_{_kind}_dist_sequential_missingvalues": ["self.sparse_rqa!=0 and self.missing_values!=0",
                                                       "arg0==self.N and shape(arg1,0)==self.N",
                                                       "all(arg1[q]==0 for q in range(self.N))"]})

# C20/C18: the Python entry points of the raw-pointer current-flow kernels establish the kernels' preconditions
# (node index inside [0,N) - the C code indexes x[i*N+j] without any check; N x N contiguous float32 copies via to_cy)
_uses("ResNetwork.vertex_current_flow_betweenness[uses]", "core/resistive_network.py", "ResNetwork.vertex_current_flow_betweenness",
      ("C20", "C18"), {"self.N": "int", "i": "int"}, ["self.N>=0"],
      {"_vertex_current_flow_betweenness": ["arg0==self.N", "0<=arg5 and arg5<arg0"]}, total="<=1")
_uses("ResNetwork.edge_current_flow_betweenness[uses]", "core/resistive_network.py", "ResNetwork.edge_current_flow_betweenness",
      ("C20", "C18"), {"self.N": "int"}, ["self.N>=0"],
      {"_edge_current_flow_betweenness": ["arg0==self.N"]})

_uses("Surrogates.test_pearson_correlation[uses]", "timeseries/surrogates.py", "Surrogates.test_pearson_correlation", ("C20", "C10"),
      {"original_data": "arr:float64:2", "surrogates": "arr:float64:2"}, [],
      {"_test_pearson_correlation": ["shape(arg0,0)==arg2 and shape(arg0,1)==arg3", "shape(arg1,0)==arg2 and shape(arg1,1)==arg3"]},
      total="<=1")
_uses("Surrogates.test_mutual_information[uses]", "timeseries/surrogates.py", "Surrogates.test_mutual_information", ("C20", "C10"),
      {"original_data": "arr:float64:2", "surrogates": "arr:float64:2", "n_bins": "int"}, [],
      {"_test_mutual_information": ["shape(arg0,0)==arg2 and shape(arg0,1)==arg3", "shape(arg1,0)==arg2 and shape(arg1,1)==arg3",
                                    "arg4>=1"]}, total="<=1")
_uses("RainfallClimateNetwork.spearman_corr[uses]", "climate/rainfall.py", "RainfallClimateNetwork.spearman_corr", ("C20", "C10"),
      {"final_mask": "arr:bool:2", "anomaly": "arr:float64:2", "time_series_ranked": "arr:float64:2"},
      ["shape(time_series_ranked,0)==shape(anomaly,0) and shape(time_series_ranked,1)==shape(anomaly,1)"],
      {"spearman_corr": ["shape(arg2,0)==arg0 and shape(arg2,1)==arg1", "shape(arg3,0)==arg0 and shape(arg3,1)==arg1"]},
      total="<=1")


# ============================================================================ timeseries: twins of a recurrence plot (C15)
# twins is a Python list of int lists, modelled by its multiplicity table mult(twins, j, k) (order inside an inner
# list is not modelled).  TW(a,b): identical columns of R, equal non-trivial neighbour counts, temporal separation
# of MORE than min_dist - the definition in the property statement.
_TWG = {"req": ("int", "int", "bool"), "TW": ("int", "int", "bool")}
_TWD = ["all(iff(req(a,b), all(R[a,q]==R[b,q] for q in range(N))) for a in range(N) for b in range(N))",
        "all(iff(TW(a,b), (b<a-min_dist or a<b-min_dist) and nR[a]==nR[b] and nR[a]!=1 and req(a,b)) "
        "for a in range(N) for b in range(N))"]
K("_twins_r", "timeseries", props=("C15", "C20"), lists=("twins",),
  requires=["N>=0", "min_dist>=0", "shape(R,0)==N", "shape(R,1)==N", "shape(nR,0)==N", "len(twins)==0", "N<=%d" % (INT32 - 2)],
  ghost=_TWG, defs=_TWD,
  ensures=["len(twins)==N+1",
           "all(mult(twins,a,b)==ite(TW(a,b),1,0) for a in range(N) for b in range(N))"],
  loops={"j": ["len(twins)==j+1",
               "all(mult(twins,a,b)==ite(a<j and b<j and TW(a,b),1,0) for a in range(j+1) for b in range(N))"],
         "j.k": ["len(twins)==j+2",
                 "all(mult(twins,a,b)==ite(b<j and TW(a,b),1,0)+ite(b==j and a<k and TW(j,a),1,0) for a in range(j) for b in range(N))",
                 "all(mult(twins,j,b)==ite(b<k and TW(j,b),1,0) for b in range(N))",
                 "all(mult(twins,j+1,b)==0 for b in range(N))"],
         "j.k.while": ["len(twins)==j+2", "0<=l and l<N", "all(R[j,q]==R[k,q] for q in range(l))",
                       "nR[j]==nR[k] and nR[j]!=1",
                       "all(mult(twins,a,b)==ite(b<j and TW(a,b),1,0)+ite(b==j and a<k and TW(j,a),1,0) for a in range(j) for b in range(N))",
                       "all(mult(twins,j,b)==ite(b<k and TW(j,b),1,0) for b in range(N))",
                       "all(mult(twins,j+1,b)==0 for b in range(N))"]},
  rtc_prefs=["N==4", "min_dist==1", "all(R[a,q]==ite((a+q)%2==0,1,0) for a in range(4) for q in range(4))",
             "all(nR[a]==2 for a in range(4))"], rtc_scope=4,
  checks=("bounds", "narrow", "divzero"))


# ============================================================================ frames
# Output parameters of each kernel (everything else is read-only: the `frame` obligations prove that no other array
# parameter is written - C06 at kernel level).
_MODIFIES = {
    "_embed_time_series": ["embedding"], "_embed_time_series_array": ["embedding"],
    "_visibility_relations_no_missingvalues": ["A"], "_visibility_relations_horizontal": ["A"],
    "_visibility_relations_missingvalues": ["A"],
    "_calculate_angular_distance": ["cosangdist"], "_calculate_euclidean_distance": ["distance"],
    "_randomly_rewire_geomodel_I": ["A", "edges"], "_randomly_rewire_geomodel_II": ["A", "edges"],
    "_randomly_rewire_geomodel_III": ["A", "edges"],
    "_randomlySetCrossLinks": ["A", "cross_A"], "_randomlyRewireCrossLinks": ["A", "cross_A", "cross_links"],
    "_cross_local_clustering": ["cross_clustering"], "_set_adaptive_neighborhood_size": ["recurrence"],
    "_bootstrap_distance_matrix_manhattan": ["distances"], "_bootstrap_distance_matrix_euclidean": ["distances"],
    "_bootstrap_distance_matrix_supremum": ["distances"],
    "_rejection_sampling": ["resampled_dist"], "_recurrence_plot": ["R"],
    "_retarded_local_clustering": ["retarded_clustering"], "_advanced_local_clustering": ["advanced_clustering"],
    "_symmetrize_by_absmax": ["similarity_matrix", "lag_matrix"],
}
for _nm in list(REG):
    if "line_dist" in _nm:
        _MODIFIES[_nm] = ["hist"]
for _nm, _m in _MODIFIES.items():
    _c = REG[_nm][0].contract
    _c.modifies = list(_c.modifies or []) + [x for x in _m if x not in (_c.modifies or [])]


# ============================================================================ timeseries: RQA scalar measures (C08)
# "determinism, laminarity, average and maximal line lengths, trapping and recurrence times ... are the stated
# functions of these histograms": the Python bodies are NumPy one-liners; pvc/npvec.py gives 1-d vector semantics
# (arange, slices, @, sum, extract, nonzero) and the postcondition states the measure as an indexed sum of the
# histogram H returned by the *_dist() method (P(l) = H[l-1]).
def _rqa(method, dist, lmin, ensures, extra_inputs=None, requires=()):
    inputs = {"self.N": "int", "self._epsilon": "float", lmin: "int", "H": "arr:int64:1"}
    inputs.update(extra_inputs or {})
    c = K(f"RecurrencePlot.{method}[formula]", "timeseries/recurrence_plot.py", lang="py", func=f"RecurrencePlot.{method}",
          props=("C08",), py_mode=True, vectors=True, inputs=inputs, bind={"resampled_dist": None},
          requires=["self.N>=0", "shape(H,0)==self.N", f"{lmin}>=1", "self._epsilon>0",
                    "all(H[q]>=0 for q in range(self.N))"] + list(requires),
          call_facts={f"self.{dist}": {"returns": "arr:int64:1", "ensures": ["same_array(result, H)", "shape(result,0)==self.N"]}},
          ensures=ensures, checks=("shape", "bounds"))
    c.region = "body"
    c.required_asserts = []
    return c


_WS = "fsum(lambda i: ({lo}+i)*H[{lo}-1+i], max(self.N-{lo}+1,0))"      # sum_{l=lo..N} l*P(l)
_CS = "fsum(lambda i: H[{lo}-1+i], max(self.N-{lo}+1,0))"                 # sum_{l=lo..N} P(l)
for _m, _d, _lm in (("determinism", "diagline_dist", "l_min"), ("laminarity", "vertline_dist", "v_min")):
    _rqa(_m, _d, _lm, ["result == real(" + _WS.format(lo=_lm) + ") / (real(" + _WS.format(lo="1") + ") + self._epsilon)"])
for _m, _d, _lm in (("average_diaglength", "diagline_dist", "l_min"), ("average_vertlength", "vertline_dist", "v_min"),
                    ("average_white_vertlength", "white_vertline_dist", "w_min")):
    _rqa(_m, _d, _lm, ["result == real(" + _WS.format(lo=_lm) + ") / (real(" + _CS.format(lo=_lm) + ") + self._epsilon)"])
for _m, _d in (("max_diaglength", "diagline_dist"), ("max_vertlength", "vertline_dist"), ("max_white_vertlength", "white_vertline_dist")):
    c_ = K(f"RecurrencePlot.{_m}[formula]", "timeseries/recurrence_plot.py", lang="py", func=f"RecurrencePlot.{_m}",
           props=("C08",), py_mode=True, vectors=True, inputs={"self.N": "int", "H": "arr:int64:1"},
           requires=["self.N>=0", "shape(H,0)==self.N", "all(H[q]>=0 for q in range(self.N))"],
           call_facts={f"self.{_d}": {"returns": "arr:int64:1", "ensures": ["same_array(result, H)", "shape(result,0)==self.N"]}},
           # the largest l with P(l) != 0, and 0 for an empty histogram
           ensures=["result == 1 + lastnz(lambda i: H[i], self.N)",
                    "implies(result>=1, H[result-1]!=0)", "all(H[l-1]==0 for l in range(result+1, self.N+1))", "0<=result and result<=self.N"],
           checks=("shape", "bounds"))
    c_.region = "body"
    c_.required_asserts = []
# entropies: Shannon entropy of the normalised histogram restricted to lengths >= l_min with P(l) != 0
_ENT_S = "(real(" + "fsum(lambda i: ite(H[{lo}-1+i]!=0, H[{lo}-1+i], 0), max(self.N-{lo}+1,0))" + ") + self._epsilon)"
for _m, _d, _lm in (("diag_entropy", "diagline_dist", "l_min"), ("vert_entropy", "vertline_dist", "v_min"),
                    ("white_vert_entropy", "white_vertline_dist", "w_min")):
    _S = _ENT_S.format(lo=_lm)
    _rqa(_m, _d, _lm, ["result == -fsum(lambda i: ite(H[%s-1+i]!=0, (real(H[%s-1+i])/%s)*log(real(H[%s-1+i])/%s), 0.0), max(self.N-%s+1,0))"
                       % (_lm, _lm, _S, _lm, _S, _lm)])
# aliases: trapping_time = average_vertlength, mean_recurrence_time = average_white_vertlength (arguments forwarded)
_uses("RecurrencePlot.trapping_time[alias]", "timeseries/recurrence_plot.py", "RecurrencePlot.trapping_time", ("C08",),
      {"v_min": "int"}, [], {"self.average_vertlength": ["arg0==v_min"]})
_uses("RecurrencePlot.mean_recurrence_time[alias]", "timeseries/recurrence_plot.py", "RecurrencePlot.mean_recurrence_time", ("C08",),
      {"w_min": "int"}, [], {"self.average_white_vertlength": ["arg0==w_min"]})


# ============================================================================ timeseries: joint recurrence plot with lag (C07)
# "joint (with lag) constructions are the stated compositions of such matrices with mutually consistent sizes":
# JR[i,j] = R_x[i,j] * R_y[i+lag, j+lag] for lag >= 0 (size N-lag), and with the roles of x and y exchanged for lag < 0
_JR_IN = {"self.lag": "int", "threshold.0": "float", "threshold.1": "float", "DX": "arr:float64:2", "DY": "arr:float64:2", "NT": "int"}
_jr = K("JointRecurrencePlot.set_fixed_threshold[lag]", "timeseries/joint_recurrence_plot.py", lang="py",
        func="JointRecurrencePlot.set_fixed_threshold", props=("C07",), py_mode=True, vectors=True, inputs=_JR_IN,
        requires=["NT>=0", "shape(DX,0)==NT and shape(DX,1)==NT and shape(DY,0)==NT and shape(DY,1)==NT",
                  "-NT<=self.lag and self.lag<=NT"],
        call_facts={"self.distance_matrix#1": {"returns": "arr:float64:2", "ensures": ["same_array(result, DX)", "shape(result,0)==NT and shape(result,1)==NT"]},
                    "self.distance_matrix#2": {"returns": "arr:float64:2", "ensures": ["same_array(result, DY)", "shape(result,0)==NT and shape(result,1)==NT"]}},
        ensures=["implies(self.lag>=0, shape(self.JR,0)==NT-self.lag and shape(self.JR,1)==NT-self.lag)",
                 "implies(self.lag<0, shape(self.JR,0)==NT+self.lag and shape(self.JR,1)==NT+self.lag)",
                 "implies(self.lag>=0, all(self.JR[i,j]==ite(DX[i,j]<threshold[0] and DY[i+self.lag,j+self.lag]<threshold[1],1,0) "
                 "for i in range(NT-self.lag) for j in range(NT-self.lag)))",
                 "implies(self.lag<0, all(self.JR[i,j]==ite(DY[i,j]<threshold[1] and DX[i-self.lag,j-self.lag]<threshold[0],1,0) "
                 "for i in range(NT+self.lag) for j in range(NT+self.lag)))",
                 "self.N==shape(self.JR,0)"],
        checks=("shape", "bounds"))
_jr.region = "body"
_jr.required_asserts = []
_JR_IN2 = {"self.lag": "int", "recurrence_rate.0": "float", "recurrence_rate.1": "float", "TX": "float", "TY": "float",
           "DX": "arr:float64:2", "DY": "arr:float64:2", "NT": "int"}
_jr2 = K("JointRecurrencePlot.set_fixed_recurrence_rate[lag]", "timeseries/joint_recurrence_plot.py", lang="py",
         func="JointRecurrencePlot.set_fixed_recurrence_rate", props=("C07",), py_mode=True, vectors=True, inputs=_JR_IN2,
         requires=["NT>=0", "shape(DX,0)==NT and shape(DX,1)==NT and shape(DY,0)==NT and shape(DY,1)==NT",
                   "-NT<=self.lag and self.lag<=NT"],
         call_facts={"self.distance_matrix#1": {"returns": "arr:float64:2", "ensures": ["same_array(result, DX)", "shape(result,0)==NT and shape(result,1)==NT"]},
                     "self.distance_matrix#2": {"returns": "arr:float64:2", "ensures": ["same_array(result, DY)", "shape(result,0)==NT and shape(result,1)==NT"]},
                     "self.threshold_from_recurrence_rate#1": {"returns": "float", "ensures": ["result==TX"]},
                     "self.threshold_from_recurrence_rate#2": {"returns": "float", "ensures": ["result==TY"]}},
         # each threshold is the stated quantile of the distances of ITS series (the rate of that series)
         asserts={"call:self.threshold_from_recurrence_rate": ["same_array(arg0, DX)", "arg1==recurrence_rate[0]"],
                  "call:self.threshold_from_recurrence_rate#2": ["same_array(arg0, DY)", "arg1==recurrence_rate[1]"]},
         ensures=["implies(self.lag>=0, shape(self.JR,0)==NT-self.lag and shape(self.JR,1)==NT-self.lag)",
                  "implies(self.lag<0, shape(self.JR,0)==NT+self.lag and shape(self.JR,1)==NT+self.lag)",
                  "implies(self.lag>=0, all(self.JR[i,j]==ite(DX[i,j]<TX and DY[i+self.lag,j+self.lag]<TY,1,0) "
                  "for i in range(NT-self.lag) for j in range(NT-self.lag)))",
                  "implies(self.lag<0, all(self.JR[i,j]==ite(DY[i,j]<TY and DX[i-self.lag,j-self.lag]<TX,1,0) "
                  "for i in range(NT+self.lag) for j in range(NT+self.lag)))",
                  "self.N==shape(self.JR,0)"],
         checks=("shape", "bounds"))
_jr2.region = "body"
_jr2.required_asserts = []


# ============================================================================ timeseries: inter-system recurrence matrix (C07)
# "inter-system constructions are the stated compositions of such matrices with mutually consistent sizes":
# ISRM = [[R_x, CR_xy], [CR_xy^T, R_y]]
_is = K("InterSystemRecurrenceNetwork.inter_system_recurrence_matrix[blocks]", "timeseries/inter_system_recurrence_network.py",
        lang="py", func="InterSystemRecurrenceNetwork.inter_system_recurrence_matrix", props=("C07",), py_mode=True, vectors=True,
        inputs={"self.N": "int", "self.N_x": "int", "RX": "arr:int8:2", "RY": "arr:int8:2", "CR": "arr:int8:2", "NY": "int"},
        requires=["self.N_x>=0 and NY>=0 and self.N==self.N_x+NY",
                  "shape(RX,0)==self.N_x and shape(RX,1)==self.N_x and shape(RY,0)==NY and shape(RY,1)==NY",
                  "shape(CR,0)==self.N_x and shape(CR,1)==NY"],
        call_facts={"self.rp_x.recurrence_matrix": {"returns": "arr:int8:2", "ensures": ["same_array(result, RX)", "shape(result,0)==self.N_x and shape(result,1)==self.N_x"]},
                    "self.rp_y.recurrence_matrix": {"returns": "arr:int8:2", "ensures": ["same_array(result, RY)", "shape(result,0)==NY and shape(result,1)==NY"]},
                    "self.crp_xy.recurrence_matrix": {"returns": "arr:int8:2", "ensures": ["same_array(result, CR)", "shape(result,0)==self.N_x and shape(result,1)==NY"]}},
        ensures=["shape(result,0)==self.N and shape(result,1)==self.N",
                 "all(result[i,j]==RX[i,j] for i in range(self.N_x) for j in range(self.N_x))",
                 "all(result[i,self.N_x+j]==CR[i,j] for i in range(self.N_x) for j in range(NY))",
                 "all(result[self.N_x+i,j]==CR[j,i] for i in range(NY) for j in range(self.N_x))",
                 "all(result[self.N_x+i,self.N_x+j]==RY[i,j] for i in range(NY) for j in range(NY))"],
        checks=("shape", "bounds"))
_is.region = "body"
_is.required_asserts = []


# ============================================================================ eventseries: symmetrisation table (C16)
# "The N-by-N analysis matrix contains exactly the pairwise values under the chosen symmetrisation": the six helpers
for _nm, _rhs in (("directed", "matrix[i,j]"), ("symmetric", "matrix[i,j]+matrix[j,i]"), ("antisym", "matrix[i,j]-matrix[j,i]"),
                  ("mean", "(matrix[i,j]+matrix[j,i])/2"), ("max", "ite(matrix[i,j]>=matrix[j,i], matrix[i,j], matrix[j,i])"),
                  ("min", "ite(matrix[i,j]<=matrix[j,i], matrix[i,j], matrix[j,i])")):
    _c = K(f"EventSeries._symmetrization_{_nm}", "eventseries/event_series.py", lang="py", func=f"EventSeries._symmetrization_{_nm}",
           props=("C16",), py_mode=True, vectors=True, inputs={"matrix": "arr:float64:2", "NN": "int"},
           requires=["NN>=0", "shape(matrix,0)==NN and shape(matrix,1)==NN"],
           ensures=["shape(result,0)==NN and shape(result,1)==NN",
                    f"all(result[i,j]=={_rhs} for i in range(NN) for j in range(NN))"],
           checks=("shape", "bounds"))
    _c.region = "body"
    _c.required_asserts = []


# ---- the N x N matrices: entry [i,j] / [j,i] of every pair i < j comes from ONE pairwise evaluation on the columns i and j
for _nm, _callee, _kw in (("_ndim_event_synchronization", "self.event_synchronization", ""),
                          ("_ndim_event_coincidence_analysis", "self._eca_coincidence_rate", "")):
    _c = K(f"EventSeries.{_nm}[matrix]", "eventseries/event_series.py", lang="py", func=f"EventSeries.{_nm}",
           props=("C16",), py_mode=True, vectors=True,
           inputs={"self.__N": "int", "self.__eventmatrix": "arr:int8:2", "NT": "int"},
           requires=["self.__N>=0 and NT>=0", "shape(self.__eventmatrix,0)==NT and shape(self.__eventmatrix,1)==self.__N"],
           ghost={"PV": ("int", "int", "float")},       # PV(a,b): value "from b to a" returned by the pairwise routine
           call_facts={_callee: {"returns": 2, "types": ["float", "float"], "ensures": ["result_0==PV(i,j)", "result_1==PV(j,i)"]}},
           asserts={"call:" + _callee: ["shape(arg0,0)==NT and shape(arg1,0)==NT",
                                        "all(arg0[q]==self.__eventmatrix[q,i] and arg1[q]==self.__eventmatrix[q,j] for q in range(NT))"]},
           ensures=["shape(result,0)==self.__N and shape(result,1)==self.__N",
                    "all(result[a,b]==ite(a==b, 0.0, PV(a,b)) for a in range(self.__N) for b in range(self.__N))"],
           loops={"i": ["all(directed[a,b]==ite(a==b or (a>=i and b>=i), 0.0, PV(a,b)) for a in range(self.__N) for b in range(self.__N))",
                        "shape(directed,0)==self.__N and shape(directed,1)==self.__N"],
                  "i.j": ["all(directed[a,b]==ite(a==b or (a>=i and b>=i and not ((a==i and b<j) or (b==i and a<j))), 0.0, PV(a,b)) "
                          "for a in range(self.__N) for b in range(self.__N))",
                          "shape(directed,0)==self.__N and shape(directed,1)==self.__N"]},
           checks=("shape", "bounds"))
    _c.region = "body"
    _c.required_asserts = []


# ---- _nsi_cross_local_clustering: nsi_cc[v] += sum_{p: A[v,p]} ( w_p^2 + sum_{q>p: A[p,q] and A[q,v]} 2 w_p w_q )
K("_nsi_cross_local_clustering", "core", props=("C11", "C02", "C04", "C20"),
  requires=_XN + [f"shape(nsi_cc,0)=={_M}", "shape(node_weights,0)==shape(A,0)"],
  ghost={"nq": ("int", "int", "int", "float"), "np_": ("int", "int", "float")},
  defs=[f"all(nq(i,j,j+1)==0 {_dom3})",
        f"all(nq(i,j,q+1)==nq(i,j,q)+ite(A[nodes2[j],nodes2[q]]!=0 and A[nodes2[q],nodes1[i]]!=0, "
        f"2*node_weights[nodes2[j]]*node_weights[nodes2[q]], 0) {_dom3} for q in range(j+1,{_Nn}))",
        f"all(np_(i,0)==0 for i in range({_M}))",
        f"all(np_(i,j+1)==np_(i,j)+ite(A[nodes1[i],nodes2[j]]!=0, node_weights[nodes2[j]]*node_weights[nodes2[j]]+nq(i,j,{_Nn}), 0) {_dom3})"],
  ensures=[f"all(nsi_cc[i]==old(nsi_cc[i])+np_(i,{_Nn}) for i in range({_M}))"],
  loops={"v": [f"all(nsi_cc[a]==old(nsi_cc[a])+np_(a,{_Nn}) for a in range(v))",
               f"all(nsi_cc[a]==old(nsi_cc[a]) for a in range(v,{_M}))", f"m=={_M} and n=={_Nn}"],
         "v.p": [f"all(nsi_cc[a]==old(nsi_cc[a])+np_(a,{_Nn}) for a in range(v))",
                 f"all(nsi_cc[a]==old(nsi_cc[a]) for a in range(v+1,{_M}))",
                 "all(nsi_cc[a]==old(nsi_cc[a])+np_(a,p) for a in range(v,v+1))", "node_v==nodes1[v]", f"m=={_M} and n=={_Nn}"],
         "v.p.q": [f"all(nsi_cc[a]==old(nsi_cc[a])+np_(a,{_Nn}) for a in range(v))",
                   f"all(nsi_cc[a]==old(nsi_cc[a]) for a in range(v+1,{_M}))",
                   "all(nsi_cc[a]==old(nsi_cc[a])+np_(a,p)+weight_p*weight_p+nq(a,p,q) for a in range(v,v+1))",
                   "node_v==nodes1[v] and node_p==nodes2[p] and weight_p==node_weights[nodes2[p]]", "A[node_v,node_p]!=0",
                   f"m=={_M} and n=={_Nn}"]},
  modifies=["nsi_cc"], checks=("bounds", "narrow"))


# ---- twin-surrogate walk over the recurrence-plot twins (C15, C20): every visited state index stays inside [0,N), every
# row written is a row of the embedding, every index taken from a twin list is inside that list
K("_twin_surrogates_r", "timeseries", props=("C15", "C20"), lists=("twins",),
  requires=["N>=0", "n_surrogates>=0", "dim>=0", "shape(embedding,0)==N", "shape(embedding,1)==dim", "len(twins)>=N",
            "all(0<=item(twins,a,b) and item(twins,a,b)<N for a in range(N) for b in range(ilen(twins,a)))",
            "all(ilen(twins,a)<=N for a in range(N))", "N<=%d" % (INT32 - 2)],
  ensures=["shape(result,0)==n_surrogates and shape(result,1)==N and shape(result,2)==dim"],
  loops={"i": ["shape(surrogates,0)==n_surrogates and shape(surrogates,1)==N and shape(surrogates,2)==dim"],
         "i.while": ["N==0 or (0<=k and k<N)", "0<=j", "shape(surrogates,0)==n_surrogates and shape(surrogates,1)==N and shape(surrogates,2)==dim"],
         "i.while.while": ["0<=j and j<N", "k>=N", "shape(surrogates,0)==n_surrogates and shape(surrogates,1)==N and shape(surrogates,2)==dim"]},
  asserts={"surrogates[i, j, :] = embedding[k, :]": ["0<=k and k<N and 0<=j and j<N and 0<=i and i<n_surrogates"]},
  checks=("bounds", "narrow", "divzero"))
K("_twin_surrogates_s", "timeseries", props=("C15", "C20"), lists3=("twins",),
  requires=["N>=0", "n_surrogates>=0", "shape(original_data,0)>=n_surrogates", "shape(original_data,1)>=N", "len(twins)>=n_surrogates",
            "all(len2(twins,i)>=N for i in range(n_surrogates))",
            "all(0<=item3(twins,i,a,b) and item3(twins,i,a,b)<N and ilen3(twins,i,a)<=N for i in range(n_surrogates) for a in range(N) "
            "for b in range(ilen3(twins,i,a)))",
            "all(ilen3(twins,i,a)<=N for i in range(n_surrogates) for a in range(N))", "N<=%d" % (INT32 - 2)],
  ensures=["shape(result,0)==n_surrogates and shape(result,1)==N"],
  loops={"i": ["shape(surrogates,0)==n_surrogates and shape(surrogates,1)==N"],
         "i.while": ["N==0 or (0<=k and k<N)", "0<=j", "shape(surrogates,0)==n_surrogates and shape(surrogates,1)==N"],
         "i.while.while": ["0<=j and j<N", "k>=N", "shape(surrogates,0)==n_surrogates and shape(surrogates,1)==N"]},
  asserts={"store:surrogates": ["0<=k and k<N and 0<=j and j<N and 0<=i and i<n_surrogates"]},
  checks=("bounds", "narrow", "divzero"))


# Python-region contracts whose region runs on a bare instance: also evaluated at run time (R layer)
for _nm in ("ClimateNetwork._calculate_threshold_adjacency",):
    REG[_nm][0].contract.rtc_py = True
from contracts import kernels2  # noqa: E402,F401
from contracts import uses_extra_ts  # noqa
from contracts import uses_extra_core  # noqa
