"""Sidecar contracts of the compiled kernels (Cython and C), keyed by function name.

`K(name, module, ...)` registers a contract; property modules select jobs with `jobs_for(tags)`.
Every `requires` is a fact the *callers* must establish (checked at the wrapper / Python call
sites by the property modules, or listed there as an assumption); every `ensures` is either the
nested-sum / fold specification of the kernel or the clause of the property it carries.
Loop invariants are keyed by the dotted path of loop variables (`while` for while-loops,
`#n` for the n-th sibling with the same token, `inline:<f>` when a helper is inlined).
"""
from pvc.runner import Job
from pvc.symex import Contract

REG = {}


def K(name, module, lang="cy", props=(), func=None, **kw):
    c = Contract(func or name, name=name, **kw)
    REG[name] = (Job(module, func or name, c, lang=lang, tag=name), tuple(props))
    return c


def all_jobs():
    return [j for j, _ in REG.values()]


def jobs_for(prop, checks=None, names=None):
    out = []
    for nm, (j, props) in REG.items():
        if prop in props and (names is None or nm in names):
            out.append(j)
    return out


INT32 = 2147483647

# ============================================================================ timeseries: distances
for metric, ghost, step, fin in (
        ("manhattan", "msum", "msum(a,b,l)+abs({x}[a,l]-{y}[b,l])", "{r}==msum({a},{b},dim)"),
        ("euclidean", "esum", "esum(a,b,l)+abs({x}[a,l]-{y}[b,l])*abs({x}[a,l]-{y}[b,l])",
         "{r}==sqrt(esum({a},{b},dim))"),
        ("supremum", "smax", "ite(abs({x}[a,l]-{y}[b,l])>smax(a,b,l), abs({x}[a,l]-{y}[b,l]), smax(a,b,l))",
         "{r}==smax({a},{b},dim)")):
    acc = {"manhattan": "sum", "euclidean": "sum", "supremum": "diff"}[metric]
    # ---- rp variant: symmetric, zero diagonal, strict lower triangle filled and mirrored
    K(f"_{metric}_distance_matrix_rp", "timeseries", props=("C07", "C20"),
      requires=["n_time>=0", "dim>=0", "shape(embedding,0)==n_time", "shape(embedding,1)==dim"],
      ghost={ghost: ("int", "int", "int", "float")},
      defs=[f"all({ghost}(a,b,0)==0 for a in range(n_time) for b in range(n_time))",
            f"all({ghost}(a,b,l+1)=={step.format(x='embedding', y='embedding')} "
            "for a in range(n_time) for b in range(n_time) for l in range(dim))"],
      ensures=["shape(result,0)==n_time and shape(result,1)==n_time",
               "all(" + fin.format(r="result[a,b]", a="a", b="b") + " and result[b,a]==result[a,b] "
               "for a in range(n_time) for b in range(a))",
               "all(result[a,a]==0 for a in range(n_time))"],
      loops={"j": ["all(" + fin.format(r="distance[a,b]", a="a", b="b") + " and distance[b,a]==distance[a,b] "
                   "for a in range(j) for b in range(a))",
                   "all(distance[a,a]==0 for a in range(n_time))"],
             "j.k": ["all(" + fin.format(r="distance[a,b]", a="a", b="b") + " and distance[b,a]==distance[a,b] "
                     "for a in range(j) for b in range(a))",
                     "all(distance[a,a]==0 for a in range(n_time))",
                     "all(" + fin.format(r="distance[j,b]", a="j", b="b") + " and distance[b,j]==distance[j,b] "
                     "for b in range(k))"],
             "j.k.l": [f"{acc}=={ghost}(j,k,l)"]})
    # ---- crp variant: full rectangular matrix
    K(f"_{metric}_distance_matrix_crp", "timeseries", props=("C07", "C20"),
      requires=["ntime_x>=0", "ntime_y>=0", "dim>=0", "shape(x_embedded,0)==ntime_x", "shape(x_embedded,1)==dim",
                "shape(y_embedded,0)==ntime_y", "shape(y_embedded,1)==dim"],
      ghost={ghost: ("int", "int", "int", "float")},
      defs=[f"all({ghost}(a,b,0)==0 for a in range(ntime_x) for b in range(ntime_y))",
            f"all({ghost}(a,b,l+1)=={step.format(x='x_embedded', y='y_embedded')} "
            "for a in range(ntime_x) for b in range(ntime_y) for l in range(dim))"],
      ensures=["shape(result,0)==ntime_x and shape(result,1)==ntime_y",
               "all(" + fin.format(r="result[a,b]", a="a", b="b") + " for a in range(ntime_x) for b in range(ntime_y))"],
      loops={"j": ["all(" + fin.format(r="distance[a,b]", a="a", b="b") + " for a in range(j) for b in range(ntime_y))"],
             "j.k": ["all(" + fin.format(r="distance[a,b]", a="a", b="b") + " for a in range(j) for b in range(ntime_y))",
                     "all(" + fin.format(r="distance[j,b]", a="j", b="b") + " for b in range(k))"],
             "j.k.l": [f"{acc}=={ghost}(j,k,l)"]})

# ============================================================================ timeseries: embedding
K("_embed_time_series", "timeseries", props=("C07", "C20"),
  requires=["dim>=1", "tau>=0", "n_time>=0", "(dim-1)*tau<=n_time", "(dim-1)*tau<=%d" % INT32,
            "shape(time_series,0)==n_time",
            "shape(embedding,0)==n_time-(dim-1)*tau", "shape(embedding,1)==dim"],
  ensures=["all(embedding[k,j]==time_series[k+j*tau] for j in range(dim) for k in range(n_time-(dim-1)*tau))"],
  loops={"j": ["all(embedding[k,jj]==time_series[k+jj*tau] for jj in range(j) for k in range(n_time-(dim-1)*tau))",
               "len_embedded==n_time-(dim-1)*tau", "D==dim"],
         "j.k": ["all(embedding[k,jj]==time_series[k+jj*tau] for jj in range(j) for k in range(n_time-(dim-1)*tau))",
                 "all(embedding[kk,j]==time_series[kk+j*tau] for kk in range(k))",
                 "index==j*tau+k", "len_embedded==n_time-(dim-1)*tau", "D==dim"]})

K("_embed_time_series_array", "timeseries", props=("C07", "C15", "C20"),
  requires=["dimension>=1", "delay>=0", "n_time>=0", "n>=0", "(dimension-1)*delay<=n_time",
            "(dimension-1)*delay<=%d" % INT32,
            "shape(time_series_array,0)==n", "shape(time_series_array,1)==n_time",
            "shape(embedding,0)==n", "shape(embedding,1)==n_time-(dimension-1)*delay",
            "shape(embedding,2)==dimension"],
  ensures=["all(embedding[i,k,j]==time_series_array[i,k+j*delay] for i in range(n) for j in range(dimension) "
           "for k in range(n_time-(dimension-1)*delay))"],
  loops={"i": ["all(embedding[ii,k,j]==time_series_array[ii,k+j*delay] for ii in range(i) for j in range(dimension) "
               "for k in range(n_time-(dimension-1)*delay))", "len_embedded==n_time-(dimension-1)*delay"],
         "i.j": ["all(embedding[ii,k,jj]==time_series_array[ii,k+jj*delay] for ii in range(i) for jj in range(dimension) "
                 "for k in range(n_time-(dimension-1)*delay))",
                 "all(embedding[i,k,jj]==time_series_array[i,k+jj*delay] for jj in range(j) "
                 "for k in range(n_time-(dimension-1)*delay))", "len_embedded==n_time-(dimension-1)*delay"],
         "i.j.k": ["all(embedding[ii,kk,jj]==time_series_array[ii,kk+jj*delay] for ii in range(i) for jj in range(dimension) "
                   "for kk in range(n_time-(dimension-1)*delay))",
                   "all(embedding[i,kk,jj]==time_series_array[i,kk+jj*delay] for jj in range(j) "
                   "for kk in range(n_time-(dimension-1)*delay))",
                   "all(embedding[i,kk,j]==time_series_array[i,kk+j*delay] for kk in range(k))",
                   "index==j*delay+k", "len_embedded==n_time-(dimension-1)*delay"]})
