"""C01: results always reflect the object's current state (cache coherence)  - DESIGN.md section 5, C01"""
from contracts.common import TRUSTED_ENGINE, ASSUME_COMMON, has_bounded
from pvc import build

PROP = "C01"
LEVEL = "proof"
HAS_BOUNDED = has_bounded(PROP)
CLAIMED = True
TECHNIQUE = ("contract-based deductive verification: frame conditions (reads*/writes* per cached method and mutator, "
             "MRO-resolved cache keys), counter-guard obligations in LIA (z3); bounded stale-hit replay as stand-in")
LEVEL_TEXT = ("Per concrete class (all 28 classes derived from Cached) and per cached method: the lru_cache key covers every "
              "mutable field the method transitively reads (FRAME); every public mutator strictly increases the guard counter "
              "of each field it may write on every path, also when a constructor is re-run on a live object (GUARD, MONO; z3); "
              "the MRO-resolved __cache_state__ covers every Cached base (MRO); derived fields are rewritten with their sources "
              "(REPINV).  With the paper argument M1 (induction over the history) these per-function facts give 'no stale value "
              "after any history' for all histories and inputs.  The bounded layer replays mutator/query histories on the real code.")
LEVEL_NOTE = ("Trusted: Python attribute semantics restricted to self.<name> (no __getattr__ hooks - checked), lru_cache key "
              "semantics, the guard/derived-field tables of the sidecar (pvc/frame_obl.py: GUARD_OF, DERIVED, IDEMPOTENT), "
              "meta-argument M1 on paper; direct assignment of public attributes by users is outside the mutator alphabet.")
TRUSTED_BASE = TRUSTED_ENGINE + [
    "frame analyser pvc/frame.py: CPython ast of src/pyunicorn/**/*.py re-read on every run; C3 MRO re-implemented; "
    "dynamic dispatch resolved on the concrete class; getattr(self, f-string) over-approximated by name pattern; "
    "constant (None/bool/str) arguments propagated one call deep per context",
    "sidecar tables GUARD_OF / DERIVED / IDEMPOTENT / OUTPUT_ONLY (field -> guard counter, source -> derived fields)",
    "meta-argument M1 (cache soundness by induction over the history) kept on paper",
]
EXPLANATION = ("FRAME/GUARD/MONO/MRO/REPINV obligations are generated from the current Python sources for every class derived "
               "from Cached and discharged by set inclusion over interprocedural path summaries (FRAME, MRO, REPINV) or by z3 over "
               "counter transformers (GUARD, MONO).  The bounded block is the history replay of bounded/c01.py.")
ASSUMPTIONS = ASSUME_COMMON + [
    "cached methods are deterministic functions of (arguments, fields read) - purity is property C06",
    "fields are only accessed as self.<name>; users do not assign public attributes directly",
    "Grid/GeoGrid/EventSeries declare themselves immutable (__cache_state__ == ()): accepted because no public mutator writes "
    "their fields (this is what FRAME checks for them: zero mutable reads)",
    "silence_level only influences what is printed (OUTPUT_ONLY)",
]
NOT_DECIDED = ["thread/process safety of the lru_caches", "behaviour under direct assignment of public attributes"]


def jobs(tier):
    return []


def structural(tier):
    from pvc.frame_obl import frame_obligations, repinv_obligations
    out, prog, _t = frame_obligations(build.src())
    out += repinv_obligations(prog)
    # structural side condition of the trusted base: no attribute hooks anywhere
    import ast
    hooks = []
    for path, tree in prog.files.items():
        for n in ast.walk(tree):
            if isinstance(n, ast.FunctionDef) and n.name in ("__getattr__", "__setattr__", "__getattribute__", "__delattr__"):
                hooks.append(f"{path}:{n.lineno}")
    out.append({"id": "C01/NOHOOKS", "kind": "NOHOOKS", "func": "*", "text": "no __getattr__/__setattr__ hooks in src/pyunicorn",
                "status": "refuted" if hooks else "proved", "backend": "ast scan", "time": 0.0, "model": None,
                "detail": str(hooks), "line": None})
    return out


def extra_canaries(tier):
    """Must-fail variants: with a corrupted guard table the generator has to refute GUARD and FRAME obligations."""
    import pvc.frame_obl as fo
    saved = fo.GUARD_OF["Network"]["sp_A"]
    fo.GUARD_OF["Network"]["sp_A"] = "_mut_nw"
    try:
        out, _prog, _t = fo.frame_obligations(build.src(), classes={"Network"})
    finally:
        fo.GUARD_OF["Network"]["sp_A"] = saved
    bad_guard = any(o["kind"] == "GUARD" and o["status"] == "refuted" for o in out)
    bad_frame = any(o["kind"] == "FRAME" and o["status"] == "refuted" for o in out)
    return [("frame-canary: wrong guard for sp_A must refute a GUARD obligation", bad_guard),
            ("frame-canary: wrong guard for sp_A must refute a FRAME obligation", bad_frame)]
