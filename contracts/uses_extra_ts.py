"""Call-site (USES) contracts of the compiled kernels called from pyunicorn's `timeseries/` package.

Each contract symbolically executes the calling Python method and, at the kernel call, proves the kernel's
shape / length / index-range / argument-consistency `requires` (see contracts/kernels.py) for the actual arguments.
Kernel requirements that the method cannot establish from what it sees are NOT asserted; they are listed as
`# assumed:` next to the contract.

NOTE on counting obligations: an assertion whose spec expression leaves the encodable subset (e.g. `shape(argK,0)` of
an argument that became opaque) is not reported as undecided - the engine drops it together with the assertions after
it (pvc/symex.py: `ev()` swallows Undecidable in py_mode).  The expected number of obligations of every contract is
therefore stated in its comment (`#obl`); fewer obligations than that means the contract lost assertions.
"""
from contracts.kernels import K, _uses, REG  # noqa: F401

_RP = "timeseries/recurrence_plot.py"
_CRP = "timeseries/cross_recurrence_plot.py"
_SUR = "timeseries/surrogates.py"
_VG = "timeseries/visibility_graph.py"

# ============================================================================ CrossRecurrencePlot.*_distance_matrix
# kernel(ntime_x, ntime_y, dim, x_embedded, y_embedded)                                                  #obl 5 each
# inputs: both attributes are 2-d float64 by construction (__init__ reshapes x, y to (n, -1); the property setters
#   store to_cy(embedding, DFIELD)).
# assumed: shape(y_embedded,1)==dim.  `dim` is read from x_embedded only.  With `dim`/`tau` keywords both trajectories
#   are embedded with the same dim (__init__), but without them x_embedded = x and y_embedded = y as given by the
#   caller: nothing in the class checks that x and y have the same number of columns.
for _m in ("manhattan", "euclidean", "supremum"):
    _uses(f"CrossRecurrencePlot.{_m}_distance_matrix[uses]", _CRP, f"CrossRecurrencePlot.{_m}_distance_matrix", ("C07", "C20"),
          {"self.x_embedded": "arr:float64:2", "self.y_embedded": "arr:float64:2"}, [],
          {f"_{_m}_distance_matrix_crp": ["arg0>=0 and arg1>=0 and arg2>=0",
                                          "shape(arg3,0)==arg0 and shape(arg3,1)==arg2",
                                          "shape(arg4,0)==arg1",
                                          "same_array(arg3, self.x_embedded) and same_array(arg4, self.y_embedded)"]})

# ============================================================================ RecurrencePlot.embed_time_series (static)
# kernel(n_time, dim, tau, time_series, embedding)                                                       #obl 5
# (dim-1)*tau<=n_time holds at the call because np.empty((n_time-(dim-1)*tau, dim)) raises ValueError otherwise.
# assumed: dim>=1 (np.empty only rejects dim<0), tau>=0, (dim-1)*tau<=INT32_MAX - `dim`, `tau` are caller-supplied.
# not covered: the path of a 2-d (n,1) input through `time_series.squeeze(axis=-1)` (the form RecurrencePlot.__init__
#   passes) - the engine reports "array variable bound to different arrays at join"; the input is typed 1-d here.
_uses("RecurrencePlot.embed_time_series[uses]", _RP, "RecurrencePlot.embed_time_series", ("C07", "C20"),
      {"time_series": "arr:float64:1", "dim": "int", "tau": "int"}, [],
      {"_embed_time_series": ["arg0>=0", "shape(arg3,0)==arg0",
                              "shape(arg4,0)==arg0-(arg1-1)*arg2 and shape(arg4,1)==arg1",
                              "(arg1-1)*arg2<=arg0"]})

# ============================================================================ RecurrencePlot.white_vertline_dist
# kernel(n_time, hist, R)                                                                                #obl 5
# assumed: shape(R,0)==n_time and shape(R,1)==n_time.  R is whatever self.recurrence_matrix() returns; that self.R is
#   an N x N matrix for the current self.N is a class invariant spread over the threshold setters (and self.N follows
#   the embedding setter), not something this method sees.  Under sparse_rqa recurrence_matrix() returns None, which
#   the method passes on unchecked.
_uses("RecurrencePlot.white_vertline_dist[uses]", _RP, "RecurrencePlot.white_vertline_dist", ("C08", "C20"),
      {"self.N": "int"}, [],
      {"_white_vertline_dist": ["arg0==self.N", "arg0>=0", "shape(arg1,0)==arg0", "all(arg1[q]==0 for q in range(arg0))"]})

# ============================================================================ RecurrencePlot.set_adaptive_neighborhood_size
# kernel(n_time, adaptive_neighborhood_size, sorted_neighbors, order, recurrence)
# assumed contracts of opaque calls (call_facts):
#   RecurrencePlot.distance_matrix: square float64 matrix (ensures of the _*_distance_matrix_rp kernels);
#   ndarray.argsort(axis=1): same shape, every entry an index into axis 1 (NumPy semantics);
#   np.arange(n, dtype=NODE): length max(n,0), element a == a (NumPy semantics).
# assumed: adaptive_neighborhood_size>=0 (caller-supplied).
# (a), (b) cover missing_values=False.  The missing-values branch (repair ea3dbc3+1: the kernel runs on the complete
#   state vectors, selected with np.ix_ and scattered back) uses fancy indexing the generator does not model; it is
#   left to the bounded layer (c07.py: adaptive_neighborhood_size/missing-*), not counted as proved.
_ANS_FACTS = {
    "RecurrencePlot.distance_matrix": {"returns": "arr:float64:2", "ensures": ["shape(result,0)==shape(result,1)"]},
    "distance.argsort": {"returns": "arr:int64:2",
                         "ensures": ["shape(result,0)==shape(distance,0) and shape(result,1)==shape(distance,1)",
                                     "all(0<=result[a,b] and result[a,b]<shape(distance,1) "
                                     "for a in range(shape(distance,0)) for b in range(shape(distance,1)))"]},
    "np.arange": {"returns": "arr:int32:1",
                  "ensures": ["shape(result,0)==ite(arg0>0,arg0,0)", "all(result[a]==a for a in range(arg0))"]}}
_ANS = ["arg0>=0", "shape(arg2,0)==arg0 and shape(arg2,1)==arg0", "shape(arg4,0)==arg0 and shape(arg4,1)==arg0",
        "all(0<=arg2[a,b] and arg2[a,b]<arg0 for a in range(arg0) for b in range(arg0))",
        "all(arg4[a,b]==arg4[b,a] and (arg4[a,b]==0 or arg4[a,b]==1) for a in range(arg0) for b in range(arg0))"]
# (a) default processing order (order=None)                                                              #obl 8
_c = K("RecurrencePlot.set_adaptive_neighborhood_size[uses]", _RP, lang="py", func="RecurrencePlot.set_adaptive_neighborhood_size",
       props=("C07", "C20"), py_mode=True, inputs={"adaptive_neighborhood_size": "int", "self.missing_values": "bool"},
       bind={"order": None}, requires=["self.missing_values==0"],
       call_facts=_ANS_FACTS, count_calls=("_set_adaptive_neighborhood_size",),
       asserts={"call:_set_adaptive_neighborhood_size":
                _ANS + ["shape(arg3,0)==arg0", "all(0<=arg3[a] and arg3[a]<arg0 for a in range(arg0))"]},
       ensures=["count('_set_adaptive_neighborhood_size')==1"], checks=("shape",))
_c.region = "body"
# (b) caller-supplied order                                                                              #obl 7
# assumed: shape(order,0)==n_time and all(0<=order[a]<n_time) - `order` is handed through (to_cy keeps the length:
#   asserted) and never checked against the current distance matrix.
_c = _uses("RecurrencePlot.set_adaptive_neighborhood_size[uses:order]", _RP, "RecurrencePlot.set_adaptive_neighborhood_size",
           ("C07", "C20"), {"adaptive_neighborhood_size": "int", "order": "arr:int64:1", "self.missing_values": "bool"},
           ["self.missing_values==0"],
           {"_set_adaptive_neighborhood_size": _ANS + ["shape(arg3,0)==shape(order,0)"]})
_c.call_facts = _ANS_FACTS

# ============================================================================ RecurrencePlot.bootstrap_distance_matrix (static)
# kernel(n_time, dim, embedding, distances, M)                                                           #obl 10
# M>=0 holds at the call because np.zeros(M) raises ValueError otherwise.  No kernel is called for an unknown metric
# (total "<=1").  Which kernel serves which metric string is not asserted: string comparison of the opaque `metric`
# is outside the spec language.
# assumed: n_time>=1 (the kernel draws indices in [0,n_time); an empty embedding is not rejected by the method).
_uses("RecurrencePlot.bootstrap_distance_matrix[uses]", _RP, "RecurrencePlot.bootstrap_distance_matrix", ("C07", "C20"),
      {"embedding": "arr:float64:2", "metric": "obj", "M": "int"}, [],
      {f"_bootstrap_distance_matrix_{_m}": ["arg1>=0 and arg4>=0", "shape(arg2,0)==arg0 and shape(arg2,1)==arg1",
                                            "shape(arg3,0)==arg4"]
       for _m in ("manhattan", "euclidean", "supremum")}, total="<=1")

# ============================================================================ RecurrencePlot.rejection_sampling (static)
# kernel(dist, resampled_dist, N, M)                                                                     #obl 3
# assumed: N>=1 (an empty distribution is not rejected), M>=0 (caller-supplied, unchecked).
_uses("RecurrencePlot.rejection_sampling[uses]", _RP, "RecurrencePlot.rejection_sampling", ("C08", "C20"),
      {"dist": "arr:int64:1", "M": "int"}, [],
      {"_rejection_sampling": ["shape(arg0,0)==arg2", "shape(arg1,0)==arg2"]})

# ============================================================================ RecurrencePlot.twins
# kernel(min_dist, N, R, nR, twins)                                                                      #obl 5
# assumed contracts of opaque calls: self.recurrence_matrix() returns a 2-d int8 array (type only, no shape fact);
#   R.sum(axis=0) has length shape(R,1) (NumPy semantics).
# assumed: shape(R,0)==N and shape(R,1)==N (hence shape(nR,0)==N: only nR ~ R consistency is asserted) - same class
#   invariant as for white_vertline_dist; N>=0; min_dist>=0 (caller-supplied); N<=INT32_MAX-2.
_c = _uses("RecurrencePlot.twins[uses]", _RP, "RecurrencePlot.twins", ("C15", "C20"), {"self.N": "int", "min_dist": "int"}, [],
           {"_twins_r": ["arg0==min_dist", "arg1==self.N", "shape(arg3,0)==shape(arg2,1)", "len(arg4)==0"]})
_c.call_facts = {"self.recurrence_matrix": {"returns": "arr:int8:2", "ensures": []},
                 "R.sum": {"returns": "arr:int64:1", "ensures": ["shape(result,0)==shape(R,1)"]}}

# ============================================================================ RecurrencePlot.twin_surrogates
# kernel(n_surrogates, N, dim, twins, embedding)                                                         #obl 6
# region requires: shape(self.embedding,0)==self.N - the `embedding` property setter sets self.N = embedding.shape[0].
# assumed: n_surrogates>=0 (caller-supplied); len(twins)>=N, item range and inner lengths of `twins` (the ensures of
#   _twins_r reached through self.twins(min_dist): lists are not modelled in Python regions); N<=INT32_MAX-2.
_uses("RecurrencePlot.twin_surrogates[uses]", _RP, "RecurrencePlot.twin_surrogates", ("C15", "C20"),
      {"self.N": "int", "self.embedding": "arr:float64:2", "n_surrogates": "int", "min_dist": "int"},
      ["shape(self.embedding,0)==self.N"],
      {"_twin_surrogates_r": ["arg0==n_surrogates", "arg1==self.N and arg1>=0", "arg2>=0",
                              "shape(arg4,0)==arg1 and shape(arg4,1)==arg2"],
       "self.twins": ["arg0==min_dist"]}, total="==2")

# ============================================================================ Surrogates.embed_time_series_array (static)
# kernel(n, n_time, dimension, delay, time_series_array, embedding)                                      #obl 5
# (dimension-1)*delay<=n_time holds at the call because np.empty raises ValueError on a negative extent.
# assumed: dimension>=1 (np.empty only rejects dimension<0), delay>=0, (dimension-1)*delay<=INT32_MAX.
_uses("Surrogates.embed_time_series_array[uses]", _SUR, "Surrogates.embed_time_series_array", ("C07", "C15", "C20"),
      {"time_series_array": "arr:float64:2", "dimension": "int", "delay": "int", "silence_level": "int"}, [],
      {"_embed_time_series_array": ["arg0>=0 and arg1>=0", "(arg2-1)*arg3<=arg1",
                                    "shape(arg4,0)==arg0 and shape(arg4,1)==arg1",
                                    "shape(arg5,0)==arg0 and shape(arg5,1)==arg1-(arg2-1)*arg3 and shape(arg5,2)==arg2"]})

# ============================================================================ Surrogates.recurrence_plot (static)
# kernel(n_time, dimension, threshold, embedding, R)                                                     #obl 5
# all requires of the kernel are established (R is freshly allocated with np.ones)
_uses("Surrogates.recurrence_plot[uses]", _SUR, "Surrogates.recurrence_plot", ("C15", "C07", "C20"),
      {"embedding": "arr:float64:2", "threshold": "float", "silence_level": "int"}, [],
      {"_recurrence_plot": ["arg0>=0 and arg1>=0", "shape(arg3,0)==arg0 and shape(arg3,1)==arg1",
                            "shape(arg4,0)==arg0 and shape(arg4,1)==arg0",
                            "all(arg4[a,b]==1 for a in range(arg0) for b in range(arg0))"]})

# ============================================================================ Surrogates.twin_surrogates
# kernel(n_surrogates, N, twins, original_data)                                                          #obl 4
# region requires: (self.N, self.n_time) = self.original_data.shape in Surrogates.__init__.
# MISMATCH with the kernel contract: the kernel requires shape(original_data,1)==N, but the method passes
#   N := self.n_time-(dimension-1)*delay together with the un-embedded original_data, so what holds (and is asserted)
#   is shape(original_data,1)==N+(dimension-1)*delay.  The kernel only reads original_data[i,k] with k<N, i.e. needs
#   shape(original_data,1)>=N, which follows when (dimension-1)*delay>=0.
# assumed: (dimension-1)*delay>=0 and N>=0 (caller-supplied, checked only inside embed_time_series_array's np.empty);
#   all facts about `twins` (ensures of _twins_s reached through self.twins); N<=INT32_MAX-2.
_uses("Surrogates.twin_surrogates[uses]", _SUR, "Surrogates.twin_surrogates", ("C15", "C20"),
      {"self.original_data": "arr:float64:2", "self.N": "int", "self.n_time": "int", "dimension": "int", "delay": "int",
       "threshold": "float", "min_dist": "int"},
      ["shape(self.original_data,0)==self.N", "shape(self.original_data,1)==self.n_time"],
      {"_twin_surrogates_s": ["arg0==self.N and arg0>=0", "shape(arg3,0)>=arg0", "shape(arg3,1)==arg1+(dimension-1)*delay"]})

# ============================================================================ VisibilityGraph.retarded/advanced_local_clustering
# kernel(N, A, norm, clustering)                                                                         #obl 7 each
# region requires: the Network.adjacency setter rejects non-square input and sets self.N = N; the `adjacency` property
#   returns sp_A.toarray() (int16 for N<32767).
# assumed contract of self.retarded_degree() / self.advanced_degree(): a float64 vector of length self.N (both methods
#   return np.zeros(self.N) filled in place).
for _m in ("retarded", "advanced"):
    _c = _uses(f"VisibilityGraph.{_m}_local_clustering[uses]", _VG, f"VisibilityGraph.{_m}_local_clustering", ("C14", "C20"),
               {"self.N": "int", "self.adjacency": "arr:int16:2"},
               ["self.N>=0", "shape(self.adjacency,0)==self.N and shape(self.adjacency,1)==self.N"],
               {f"_{_m}_local_clustering": ["arg0==self.N", "shape(arg1,0)==arg0 and shape(arg1,1)==arg0", "shape(arg2,0)==arg0",
                                            "shape(arg3,0)==arg0", "all(arg3[q]==0 for q in range(arg0))"]})
    _c.call_facts = {f"self.{_m}_degree": {"returns": "arr:float64:1", "ensures": ["shape(result,0)==self.N"]}}
