"""Call-site (USES) contracts of the compiled kernels called from pyunicorn's `timeseries/` package.

Each contract symbolically executes the calling Python method and, at the kernel call, proves the kernel's
shape / length / index-range / argument-consistency `requires` (see contracts/kernels.py) for the actual arguments.
Kernel requirements that the method cannot establish from what it sees are NOT asserted; they are listed as
`# assumed:` next to the contract.
"""
from contracts.kernels import K, _uses, REG  # noqa: F401

_RP = "timeseries/recurrence_plot.py"
_CRP = "timeseries/cross_recurrence_plot.py"
_SUR = "timeseries/surrogates.py"
_VG = "timeseries/visibility_graph.py"

# ============================================================================ CrossRecurrencePlot.*_distance_matrix
# kernel(ntime_x, ntime_y, dim, x_embedded, y_embedded)
# region requires: both trajectories are embedded with the same `dim` in CrossRecurrencePlot.__init__
#   (self.x_embedded = self.embed_time_series(x, dim, tau); self.y_embedded = self.embed_time_series(y, dim, tau) - the
#   second axis of both results is `dim`, see RecurrencePlot.embed_time_series[uses] below)
for _m in ("manhattan", "euclidean", "supremum"):
    _uses(f"CrossRecurrencePlot.{_m}_distance_matrix[uses]", _CRP, f"CrossRecurrencePlot.{_m}_distance_matrix", ("C07", "C20"),
          {"self.x_embedded": "arr:float64:2", "self.y_embedded": "arr:float64:2"},
          ["shape(self.x_embedded,1)==shape(self.y_embedded,1)"],
          {f"_{_m}_distance_matrix_crp": ["arg0>=0 and arg1>=0 and arg2>=0",
                                          "shape(arg3,0)==arg0 and shape(arg3,1)==arg2",
                                          "shape(arg4,0)==arg1 and shape(arg4,1)==arg2",
                                          "same_array(arg3, self.x_embedded) and same_array(arg4, self.y_embedded)"]})

# ============================================================================ RecurrencePlot.embed_time_series (static)
# kernel(n_time, dim, tau, time_series, embedding)
_uses("RecurrencePlot.embed_time_series[uses]", _RP, "RecurrencePlot.embed_time_series", ("C07", "C20"),
      {"time_series": "arr:float64:1", "dim": "int", "tau": "int"}, [],
      {"_embed_time_series": ["arg0>=0", "shape(arg3,0)==arg0",
                              "shape(arg4,0)==arg0-(arg1-1)*arg2 and shape(arg4,1)==arg1",
                              "(arg1-1)*arg2<=arg0"]})

# ============================================================================ RecurrencePlot.white_vertline_dist
# kernel(n_time, hist, R)
_uses("RecurrencePlot.white_vertline_dist[uses]", _RP, "RecurrencePlot.white_vertline_dist", ("C08", "C20"),
      {"self.N": "int"}, [],
      {"_white_vertline_dist": ["arg0==self.N", "arg0>=0", "shape(arg1,0)==arg0", "all(arg1[q]==0 for q in range(arg0))"]})

# ============================================================================ RecurrencePlot.bootstrap_distance_matrix (static)
# kernel(n_time, dim, embedding, distances, M)
_uses("RecurrencePlot.bootstrap_distance_matrix[uses]", _RP, "RecurrencePlot.bootstrap_distance_matrix", ("C07", "C20"),
      {"embedding": "arr:float64:2", "metric": "obj", "M": "int"}, [],
      {f"_bootstrap_distance_matrix_{_m}": ["arg1>=0 and arg4>=0", "shape(arg2,0)==arg0 and shape(arg2,1)==arg1",
                                            "shape(arg3,0)==arg4"]
       for _m in ("manhattan", "euclidean", "supremum")}, total="<=1")

# ============================================================================ RecurrencePlot.rejection_sampling (static)
# kernel(dist, resampled_dist, N, M)
_uses("RecurrencePlot.rejection_sampling[uses]", _RP, "RecurrencePlot.rejection_sampling", ("C08", "C20"),
      {"dist": "arr:int64:1", "M": "int"}, [],
      {"_rejection_sampling": ["shape(arg0,0)==arg2", "shape(arg1,0)==arg2"]})
