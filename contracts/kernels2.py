"""Additions to the kernel registry that live outside kernels.py (run-time-only clauses, late contracts)."""
from contracts.kernels import REG

# ---- current-flow betweenness wrappers: the C routines are proved against their defining sums on the flat arrays
# (kernels.py); the same sums over the 2-d arrays the wrappers receive are evaluated at run time on the rebuilt code
_c = REG["_vertex_current_flow_betweenness"][0].contract
_c.rtc_ghost = {"JJ": ("int", "int", "int", "float"), "VS": ("int", "int", "float"), "VT": ("int", "float")}
_VJ2 = "admittance[i,j]*abs(Is*(R[i,s]-R[j,s])+It*(R[j,t]-R[i,t]))/2.0"
_c.rtc_defs = ["all(JJ(t,s,0)==0.0 for t in range(N) for s in range(t))",
               "all(JJ(t,s,j+1)==JJ(t,s,j)+" + _VJ2 + " for t in range(N) for s in range(t) for j in range(N))",
               "VT(0)==0.0",
               "all(VS(t,0)==VT(t) for t in range(N))",
               "all(VS(t,s+1)==ite(i==t or i==s, VS(t,s), VS(t,s)+2.0*JJ(t,s,N)/(N*(N-1))) for t in range(N) for s in range(t))",
               "all(VT(t+1)==VS(t,t) for t in range(N))"]
_c.rtc_ensures = ["result==VT(N)"]
_c.rtc_prefs = ["shape(admittance,0)==N and shape(admittance,1)==N and shape(R,0)==N and shape(R,1)==N", "N==4", "i==1"]
_c.rtc_scope = 4

_c = REG["_edge_current_flow_betweenness"][0].contract
_c.rtc_ghost = {"ES": ("int", "int", "int", "int", "float"), "ET": ("int", "int", "int", "float")}
_EJ2 = "admittance[i,j]*abs(Is*(R[i,s]-R[j,s])+It*(R[j,t]-R[i,t]))"
_c.rtc_defs = ["all(ET(i,j,0)==0.0 for i in range(N) for j in range(N))",
               "all(ES(i,j,t,0)==ET(i,j,t) for i in range(N) for j in range(N) for t in range(N))",
               "all(ES(i,j,t,s+1)==ES(i,j,t,s)+" + _EJ2 + " for i in range(N) for j in range(N) for t in range(N) for s in range(t))",
               "all(ET(i,j,t+1)==ES(i,j,t,t) for i in range(N) for j in range(N) for t in range(N))"]
_c.rtc_ensures = ["implies(N>=2, all(result[i,j]==2.0*ET(i,j,N)/(N*(N-1)) for i in range(N) for j in range(N)))"]
_c.rtc_prefs = ["shape(admittance,0)==N and shape(admittance,1)==N and shape(R,0)==N and shape(R,1)==N", "N==3"]
_c.rtc_scope = 4


# ============================================================================ core: area-weighted connectivity (C12)
# "area-weighted measures use the cosine of each node's own latitude": in / out AWC are the cos(lat)-weighted column / row
# sums of the adjacency matrix over the total cos(lat) - whatever node weights the network carries.
# assumed contract of a dependency: self.grid.cos_lat() returns the vector C of length N (GeoGrid.cos_lat, checked by
#   bounded/c12.py against cos(radians(lat))); assumed: the total area fsum(C) is positive (no grid of poles only).
from contracts.kernels import K as _K      # noqa: E402
for _nm, _sum in (("inarea_weighted_connectivity", "C[i]*self.adjacency[i,j]"),
                  ("outarea_weighted_connectivity", "self.adjacency[j,i]*C[i]")):
    _c = _K(f"GeoNetwork.{_nm}[formula]", "core/geo_network.py", lang="py", func=f"GeoNetwork.{_nm}",
            props=("C12",), py_mode=True, vectors=True,
            inputs={"self.adjacency": "arr:int8:2", "C": "arr:float64:1", "NN": "int", "self.silence_level": "int"},
            requires=["NN>=1", "shape(self.adjacency,0)==NN and shape(self.adjacency,1)==NN", "shape(C,0)==NN",
                      "fsum(lambda i: C[i], NN) > 0", "self.silence_level>=2"],
            call_facts={"self.grid.cos_lat": {"returns": "arr:float64:1", "ensures": ["same_array(result, C)", "shape(result,0)==NN"]}},
            ensures=["shape(result,0)==NN",
                     f"all(result[j]*fsum(lambda i: C[i], NN) == fsum(lambda i: {_sum}, NN) for j in range(NN))"],
            checks=("shape", "bounds"))
    _c.region = "body"
    _c.required_asserts = []
    _c.rtc_py = True
