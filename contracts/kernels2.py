"""Additions to the kernel registry that live outside kernels.py (run-time-only clauses, late contracts)."""
from contracts.kernels import REG

# ---- current-flow betweenness wrappers: the C routines are proved against their defining sums on the flat arrays
# (kernels.py); the same sums over the 2-d arrays the wrappers receive are evaluated at run time on the rebuilt code
_c = REG["_vertex_current_flow_betweenness"][0].contract
_c.rtc_ghost = {"JJ": ("int", "int", "int", "float"), "VS": ("int", "int", "float"), "VT": ("int", "float")}
_VJ2 = "admittance[i,j]*abs(Is*(R[i,s]-R[j,s])+It*(R[j,t]-R[i,t]))/2.0"
_c.rtc_defs = ["all(JJ(t,s,0)==0.0 for t in range(N) for s in range(t))",
               "all(JJ(t,s,j+1)==JJ(t,s,j)+" + _VJ2 + " for t in range(N) for s in range(t) for j in range(N))",
               "VT(0)==0.0",
               "all(VS(t,0)==VT(t) for t in range(N))",
               "all(VS(t,s+1)==ite(i==t or i==s, VS(t,s), VS(t,s)+2.0*JJ(t,s,N)/(N*(N-1))) for t in range(N) for s in range(t))",
               "all(VT(t+1)==VS(t,t) for t in range(N))"]
_c.rtc_ensures = ["result==VT(N)"]
_c.rtc_prefs = ["shape(admittance,0)==N and shape(admittance,1)==N and shape(R,0)==N and shape(R,1)==N", "N==4", "i==1"]
_c.rtc_scope = 4

_c = REG["_edge_current_flow_betweenness"][0].contract
_c.rtc_ghost = {"ES": ("int", "int", "int", "int", "float"), "ET": ("int", "int", "int", "float")}
_EJ2 = "admittance[i,j]*abs(Is*(R[i,s]-R[j,s])+It*(R[j,t]-R[i,t]))"
_c.rtc_defs = ["all(ET(i,j,0)==0.0 for i in range(N) for j in range(N))",
               "all(ES(i,j,t,0)==ET(i,j,t) for i in range(N) for j in range(N) for t in range(N))",
               "all(ES(i,j,t,s+1)==ES(i,j,t,s)+" + _EJ2 + " for i in range(N) for j in range(N) for t in range(N) for s in range(t))",
               "all(ET(i,j,t+1)==ES(i,j,t,t) for i in range(N) for j in range(N) for t in range(N))"]
_c.rtc_ensures = ["implies(N>=2, all(result[i,j]==2.0*ET(i,j,N)/(N*(N-1)) for i in range(N) for j in range(N)))"]
_c.rtc_prefs = ["shape(admittance,0)==N and shape(admittance,1)==N and shape(R,0)==N and shape(R,1)==N", "N==3"]
_c.rtc_scope = 4
