"""Additions to the kernel registry that live outside kernels.py (run-time-only clauses, late contracts)."""
from contracts.kernels import REG

# ---- current-flow betweenness wrappers: the C routines are proved against their defining sums on the flat arrays
# (kernels.py); the same sums over the 2-d arrays the wrappers receive are evaluated at run time on the rebuilt code
_c = REG["_vertex_current_flow_betweenness"][0].contract
_c.rtc_ghost = {"JJ": ("int", "int", "int", "float"), "VS": ("int", "int", "float"), "VT": ("int", "float")}
_VJ2 = "admittance[i,j]*abs(Is*(R[i,s]-R[j,s])+It*(R[j,t]-R[i,t]))/2.0"
_c.rtc_defs = ["all(JJ(t,s,0)==0.0 for t in range(N) for s in range(t))",
               "all(JJ(t,s,j+1)==JJ(t,s,j)+" + _VJ2 + " for t in range(N) for s in range(t) for j in range(N))",
               "VT(0)==0.0",
               "all(VS(t,0)==VT(t) for t in range(N))",
               "all(VS(t,s+1)==ite(i==t or i==s, VS(t,s), VS(t,s)+2.0*JJ(t,s,N)/(N*(N-1))) for t in range(N) for s in range(t))",
               "all(VT(t+1)==VS(t,t) for t in range(N))"]
_c.rtc_ensures = ["result==VT(N)"]
_c.rtc_prefs = ["shape(admittance,0)==N and shape(admittance,1)==N and shape(R,0)==N and shape(R,1)==N", "N==4", "i==1"]
_c.rtc_scope = 4

_c = REG["_edge_current_flow_betweenness"][0].contract
_c.rtc_ghost = {"ES": ("int", "int", "int", "int", "float"), "ET": ("int", "int", "int", "float")}
_EJ2 = "admittance[i,j]*abs(Is*(R[i,s]-R[j,s])+It*(R[j,t]-R[i,t]))"
_c.rtc_defs = ["all(ET(i,j,0)==0.0 for i in range(N) for j in range(N))",
               "all(ES(i,j,t,0)==ET(i,j,t) for i in range(N) for j in range(N) for t in range(N))",
               "all(ES(i,j,t,s+1)==ES(i,j,t,s)+" + _EJ2 + " for i in range(N) for j in range(N) for t in range(N) for s in range(t))",
               "all(ET(i,j,t+1)==ES(i,j,t,t) for i in range(N) for j in range(N) for t in range(N))"]
_c.rtc_ensures = ["implies(N>=2, all(result[i,j]==2.0*ET(i,j,N)/(N*(N-1)) for i in range(N) for j in range(N)))"]
_c.rtc_prefs = ["shape(admittance,0)==N and shape(admittance,1)==N and shape(R,0)==N and shape(R,1)==N", "N==3"]
_c.rtc_scope = 4


# ============================================================================ core: area-weighted connectivity (C12)
# "area-weighted measures use the cosine of each node's own latitude": in / out AWC are the cos(lat)-weighted column / row
# sums of the adjacency matrix over the total cos(lat) - whatever node weights the network carries.
# assumed contract of a dependency: self.grid.cos_lat() returns the vector C of length N (GeoGrid.cos_lat, checked by
#   bounded/c12.py against cos(radians(lat))); assumed: the total area fsum(C) is positive (no grid of poles only).
from contracts.kernels import K as _K      # noqa: E402
for _nm, _sum in (("inarea_weighted_connectivity", "C[i]*self.adjacency[i,j]"),
                  ("outarea_weighted_connectivity", "self.adjacency[j,i]*C[i]")):
    _c = _K(f"GeoNetwork.{_nm}[formula]", "core/geo_network.py", lang="py", func=f"GeoNetwork.{_nm}",
            props=("C12",), py_mode=True, vectors=True,
            inputs={"self.adjacency": "arr:int8:2", "C": "arr:float64:1", "NN": "int", "self.silence_level": "int"},
            requires=["NN>=1", "shape(self.adjacency,0)==NN and shape(self.adjacency,1)==NN", "shape(C,0)==NN",
                      "fsum(lambda i: C[i], NN) > 0", "self.silence_level>=2"],
            call_facts={"self.grid.cos_lat": {"returns": "arr:float64:1", "ensures": ["same_array(result, C)", "shape(result,0)==NN"]}},
            ensures=["shape(result,0)==NN",
                     f"all(result[j]*fsum(lambda i: C[i], NN) == fsum(lambda i: {_sum}, NN) for j in range(NN))"],
            checks=("shape", "bounds"))
    _c.region = "body"
    _c.required_asserts = []
    _c.rtc_py = True


# ============================================================================ core: resistive-network measures in Python (C18)
# "admittive degree and clustering equal the direct evaluation of their defining sums"; effective resistance from the
# pseudo-inverse.  Real-valued networks (flagComplex == 0); the complex branch is left to the bounded layer.
# assumed contracts of dependencies: get_R() / get_admittance() / admittive_degree() / degree() return the stored N x N
# matrices / length-N vectors (their own content is the subject of the REPINV / GUARD slices and of bounded/c18.py).
_RN = "core/resistive_network.py"
# (a) effective resistance: R[a,a] - R[a,b] - R[b,a] + R[b,b], exactly 0 for a == b
_c = _K("ResNetwork.effective_resistance[formula]", _RN, lang="py", func="ResNetwork.effective_resistance", props=("C18",),
        py_mode=True, vectors=True,
        inputs={"a": "int", "b": "int", "RR": "arr:float64:2", "NN": "int", "self.flagComplex": "bool"},
        requires=["NN>=1", "0<=a and a<NN and 0<=b and b<NN", "shape(RR,0)==NN and shape(RR,1)==NN", "self.flagComplex==0"],
        call_facts={"self.get_R": {"returns": "arr:float64:2", "ensures": ["same_array(result, RR)", "shape(result,0)==NN and shape(result,1)==NN"]}},
        ensures=["result==ite(a==b, 0.0, RR[a,a]-RR[a,b]-RR[b,a]+RR[b,b])"], checks=("shape", "bounds"))
_c.region = "body"
_c.required_asserts = []
_c.rtc_py = True
# (b) average neighbours admittive degree: sum_j adj[i,j] * ad[j] / ad[i]
_c = _K("ResNetwork.average_neighbors_admittive_degree[formula]", _RN, lang="py", func="ResNetwork.average_neighbors_admittive_degree",
        props=("C18",), py_mode=True, vectors=True,
        inputs={"self.adjacency": "arr:int8:2", "AD": "arr:float64:1", "NN": "int"},
        requires=["NN>=1", "shape(self.adjacency,0)==NN and shape(self.adjacency,1)==NN", "shape(AD,0)==NN",
                  "all(AD[q]!=0 for q in range(NN))"],
        call_facts={"self.admittive_degree": {"returns": "arr:float64:1", "ensures": ["same_array(result, AD)", "shape(result,0)==NN"]}},
        ensures=["shape(result,0)==NN",
                 "all(result[q]*AD[q]==fsum(lambda j: self.adjacency[q,j]*AD[j], NN) for q in range(NN))"],
        checks=("shape", "bounds"))
_c.region = "body"
_c.required_asserts = []
_c.rtc_py = True
# (c) admittive degree: column sums of the admittance matrix
_c = _K("ResNetwork.admittive_degree[formula]", _RN, lang="py", func="ResNetwork.admittive_degree", props=("C18",),
        py_mode=True, vectors=True, inputs={"YY": "arr:float64:2", "NN": "int"},
        requires=["NN>=1", "shape(YY,0)==NN and shape(YY,1)==NN"],
        call_facts={"self.get_admittance": {"returns": "arr:float64:2", "ensures": ["same_array(result, YY)", "shape(result,0)==NN and shape(result,1)==NN"]}},
        ensures=["shape(result,0)==NN", "all(result[q]==fsum(lambda i: YY[i,q], NN) for q in range(NN))"],
        checks=("shape", "bounds"))
_c.region = "body"
_c.required_asserts = []
_c.rtc_py = True
# (d) local admittive clustering: ac_i = sum_{j,k} Y[i,j] Y[i,k] Y[j,k] / (ad_i (d_i - 1)), 0 for d_i == 1
#     ghost partial sums in the order the loops accumulate them
_T3 = "YY[i,j]*YY[i,k]*YY[j,k]"
_c = _K("ResNetwork.local_admittive_clustering[formula]", _RN, lang="py", func="ResNetwork.local_admittive_clustering", props=("C18",),
        py_mode=True, vectors=True,
        inputs={"YY": "arr:float64:2", "AD": "arr:float64:1", "DG": "arr:int64:1", "self.N": "int", "self.flagComplex": "bool"},
        requires=["self.N>=1", "shape(YY,0)==self.N and shape(YY,1)==self.N", "shape(AD,0)==self.N", "shape(DG,0)==self.N",
                  "self.flagComplex==0"],
        ghost={"LU": ("int", "int", "int", "float"), "LT": ("int", "int", "float")},
        defs=["all(LT(i,0)==0.0 for i in range(self.N))",
              "all(LU(i,j,0)==LT(i,j) for i in range(self.N) for j in range(self.N))",
              "all(LU(i,j,k+1)==LU(i,j,k)+" + _T3 + " for i in range(self.N) for j in range(self.N) for k in range(self.N))",
              "all(LT(i,j+1)==LU(i,j,self.N) for i in range(self.N) for j in range(self.N))"],
        call_facts={"self.get_admittance": {"returns": "arr:float64:2", "ensures": ["same_array(result, YY)", "shape(result,0)==self.N and shape(result,1)==self.N"]},
                    "self.admittive_degree": {"returns": "arr:float64:1", "ensures": ["same_array(result, AD)", "shape(result,0)==self.N"]},
                    "self.degree": {"returns": "arr:int64:1", "ensures": ["same_array(result, DG)", "shape(result,0)==self.N"]}},
        loops={"i": ["shape(ac,0)==self.N",
                     "all(ac[q]==ite(DG[q]==1, 0.0, LT(q,self.N)/(AD[q]*(DG[q]-1))) for q in range(i))"],
               "i.j": ["dummy==LT(i,j)"],
               "i.j.k": ["dummy==LU(i,j,k)"]},
        # (a node with vanishing admittive degree has the value x/0: not part of the clause evaluated at run time)
        ensures=["shape(result,0)==self.N",
                 "all(implies(DG[q]==1 or AD[q]*(DG[q]-1)!=0, "
                 "result[q]==ite(DG[q]==1, 0.0, LT(q,self.N)/(AD[q]*(DG[q]-1)))) for q in range(self.N))"],
        checks=("shape", "bounds"))
_c.region = "body"
_c.required_asserts = []
_c.rtc_py = True


# ============================================================================ core: n.s.i. distance-based measures in Python (C03, C02)
# "measures equal their definitions": closeness_i = W / sum_j w_j d*_ij, harmonic closeness_i = sum_j w_j / d*_ij / W,
# global efficiency = sum_ij w_i w_j / d*_ij / W^2 with the n.s.i. distance d*_ij = d_ij + delta_ij; n.s.i. global clustering =
# sum_i w_i C*_i / W.
# assumed contracts of dependencies: path_lengths() returns the N x N distance matrix PL, nsi_local_clustering() the vector CL
# (kernels / igraph, bounded layer); assumed: the sums that are divided by are non-zero (positive weights and distances).
_NW = "core/network.py"
_DS = "(PL[q,j]+ite(q==j,1.0,0.0))"
_NSI_IN = {"PL": "arr:float64:2", "self.node_weights": "arr:float64:1", "self.total_node_weight": "float", "self.N": "int"}
_NSI_RQ = ["self.N>=1", "shape(PL,0)==self.N and shape(PL,1)==self.N", "shape(self.node_weights,0)==self.N"]
_NSI_CF = {"self.path_lengths": {"returns": "arr:float64:2", "ensures": ["same_array(result, PL)", "shape(result,0)==self.N and shape(result,1)==self.N"]}}
for _nm, _rq, _ens in (
        ("nsi_closeness", [],       # (a quotient on both sides: no assumption on the divisor is needed)
         [f"all(implies(fsum(lambda j: {_DS}*self.node_weights[j], self.N)!=0, "
          f"result[q]==self.total_node_weight/fsum(lambda j: {_DS}*self.node_weights[j], self.N)) for q in range(self.N))"]),
        ("nsi_harmonic_closeness", [f"all({_DS}!=0 for q in range(self.N) for j in range(self.N))", "self.total_node_weight!=0"],
         [f"all(result[q]*self.total_node_weight==fsum(lambda j: 1.0/{_DS}*self.node_weights[j], self.N) for q in range(self.N))"])):
    _c = _K(f"Network.{_nm}[formula]", _NW, lang="py", func=f"Network.{_nm}", props=("C03", "C02"), py_mode=True, vectors=True,
            inputs=dict(_NSI_IN), requires=_NSI_RQ + _rq, call_facts=_NSI_CF,
            ensures=["shape(result,0)==self.N"] + _ens, checks=("shape", "bounds"))
    _c.region = "body"
    _c.required_asserts = []
    _c.rtc_py = True
_c = _K("Network.nsi_global_efficiency[formula]", _NW, lang="py", func="Network.nsi_global_efficiency", props=("C03", "C02"),
        py_mode=True, vectors=True, inputs=dict(_NSI_IN),
        requires=_NSI_RQ + [f"all({_DS}!=0 for q in range(self.N) for j in range(self.N))", "self.total_node_weight!=0"],
        call_facts=_NSI_CF,
        ensures=["result*(self.total_node_weight*self.total_node_weight)=="
                 f"fsum(lambda q: self.node_weights[q]*fsum(lambda j: 1.0/{_DS}*self.node_weights[j], self.N), self.N)"],
        checks=("shape", "bounds"))
_c.region = "body"
_c.required_asserts = []
_c.rtc_py = True
_c = _K("Network.nsi_global_clustering[formula]", _NW, lang="py", func="Network.nsi_global_clustering", props=("C03", "C02"),
        py_mode=True, vectors=True,
        inputs={"CL": "arr:float64:1", "self.node_weights": "arr:float64:1", "self.total_node_weight": "float", "self.N": "int",
                "self.directed": "bool"},
        requires=["self.N>=1", "shape(CL,0)==self.N", "shape(self.node_weights,0)==self.N", "self.total_node_weight!=0",
                  "self.directed==0"],
        call_facts={"self.nsi_local_clustering": {"returns": "arr:float64:1", "ensures": ["same_array(result, CL)", "shape(result,0)==self.N"]}},
        ensures=["result*self.total_node_weight==fsum(lambda q: CL[q]*self.node_weights[q], self.N)"],
        checks=("shape", "bounds"))
_c.region = "body"
_c.required_asserts = []
_c.rtc_py = True


# ============================================================================ timeseries: time-directed degrees of visibility graphs (C14)
# retarded degree_i = number of neighbours j < i, advanced degree_i = number of neighbours j >= i (the diagonal is empty:
# proved for the kernels), hence retarded + advanced = degree for every adjacency matrix; the adjacency matrix is not written.
_VG = "timeseries/visibility_graph.py"
for _nm, _sum, _inv in (("retarded_degree", "fsum(lambda j: self.adjacency[q,j], q)", "retarded_degree"),
                        ("advanced_degree", "fsum(lambda j: self.adjacency[q,q+j], self.N-q)", "advanced_degree")):
    _c = _K(f"VisibilityGraph.{_nm}[formula]", _VG, lang="py", func=f"VisibilityGraph.{_nm}", props=("C14",),
            py_mode=True, vectors=True, inputs={"self.adjacency": "arr:int8:2", "self.N": "int"},
            requires=["self.N>=0", "shape(self.adjacency,0)==self.N and shape(self.adjacency,1)==self.N"],
            loops={"i": [f"shape({_inv},0)==self.N", f"all({_inv}[q]=={_sum} for q in range(i))"]},
            ensures=["shape(result,0)==self.N", f"all(result[q]=={_sum} for q in range(self.N))"],
            checks=("shape", "bounds"))
    _c.region = "body"
    _c.required_asserts = []
    _c.rtc_py = True


# ============================================================================ timeseries: recurrence rate / probability (C08, C07)
# RR = number of recurrent points / N^2 (dense: sum of the matrix; sequential mode: sum_v v * P(v) of the black vertical
# lines);  recurrence probability at lag tau = mean of the tau-th diagonal.
_RPF = "timeseries/recurrence_plot.py"
_RMF = {"self.recurrence_matrix": {"returns": "arr:int8:2", "ensures": ["same_array(result, RM)", "shape(result,0)==self.N and shape(result,1)==self.N"]}}
_c = _K("RecurrencePlot.recurrence_rate[formula:dense]", _RPF, lang="py", func="RecurrencePlot.recurrence_rate", props=("C08", "C07"),
        py_mode=True, vectors=True, inputs={"RM": "arr:int8:2", "self.N": "int", "self.sparse_rqa": "bool"},
        requires=["self.N>=1", "shape(RM,0)==self.N and shape(RM,1)==self.N", "self.sparse_rqa==0"], call_facts=_RMF,
        ensures=["result==fsum(lambda i: fsum(lambda j: RM[i,j], self.N), self.N)/(self.N**2)"], checks=("shape", "bounds"))
_c.region = "body"
_c.required_asserts = []
_c.rtc_py = True
_c = _K("RecurrencePlot.recurrence_probability[formula]", _RPF, lang="py", func="RecurrencePlot.recurrence_probability", props=("C08", "C07"),
        py_mode=True, vectors=True, inputs={"RM": "arr:int8:2", "self.N": "int", "lag": "int"},
        requires=["self.N>=1", "0<=lag and lag<self.N", "shape(RM,0)==self.N and shape(RM,1)==self.N"], call_facts=_RMF,
        ensures=["result==fsum(lambda k: RM[k,k+lag], self.N-lag)/(self.N-lag)"], checks=("shape", "bounds"))
_c.region = "body"
_c.required_asserts = []
_c.rtc_py = True
_c = _K("RecurrencePlot.recurrence_rate[formula:sequential]", _RPF, lang="py", func="RecurrencePlot.recurrence_rate", props=("C08", "C07"),
        py_mode=True, vectors=True, inputs={"VD": "arr:int64:1", "self.N": "int", "self.sparse_rqa": "bool", "self.metric": "obj"},
        requires=["self.N>=1", "shape(VD,0)==self.N", "self.sparse_rqa==1"],
        call_facts={"self.vertline_dist": {"returns": "arr:int64:1", "ensures": ["same_array(result, VD)", "shape(result,0)==self.N"]}},
        # (which metric string selects this branch is not asserted: string comparison of the opaque `metric`; the other
        #  branch raises NotImplementedError)
        ensures=["result==fsum(lambda k: VD[k]*(1+k), self.N)/(self.N**2)"], checks=("shape", "bounds"))
_c.region = "body"
_c.required_asserts = []


# ============================================================================ core: weighted local clustering [Holme2007] (C03)
# c_w(i) = sum_{k,m} w_im w_mk w_ki / (max(w) * sum_{k,m} w_im w_ki), for every weight matrix, symmetric or not (entry [i,j] is
# the weight of the link from i to j), written in the association the code uses ((W W) W and (W maxW) W).
# assumed: weighted_A is handed over as a float64 N x N array (np.array(weighted_A) then keeps the values).
_c = _K("Network.weighted_local_clustering[formula]", _NW, lang="py", func="Network.weighted_local_clustering", props=("C03",),
        py_mode=True, vectors=True, inputs={"weighted_A": "arr:float64:2", "NN": "int"},
        # (a node whose denominator vanishes - no in- or no out-strength - has the value 0/0: not part of the contract)
        requires=["NN>=1", "shape(weighted_A,0)==NN and shape(weighted_A,1)==NN"],
        ensures=["shape(result,0)==NN",
                 "all(implies(fsum(lambda k: fsum(lambda m: weighted_A[q,m]*amax(weighted_A), NN)*weighted_A[k,q], NN)!=0, "
                 "result[q]==fsum(lambda k: fsum(lambda m: weighted_A[q,m]*weighted_A[m,k], NN)*weighted_A[k,q], NN)"
                 "/fsum(lambda k: fsum(lambda m: weighted_A[q,m]*amax(weighted_A), NN)*weighted_A[k,q], NN)) for q in range(NN))"],
        checks=("shape", "bounds"))
_c.region = "body"
_c.required_asserts = []
_c.rtc_py = True
_c.array_inputs_are_arrays = True
_c.amax_spec = True
