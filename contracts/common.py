"""Shared pieces of the per-property modules."""
import copy
import os

from pvc.runner import Job

VERIF = os.path.dirname(os.path.dirname(os.path.abspath(__file__)))

TRUSTED_ENGINE = [
    "VC generator /verif/pvc (Cython parser of Cython 3.3, clang 14 JSON AST, guarded symbolic execution, "
    "loop cutting at invariants) - guarded on every run by must-fail canaries and by the bounded layer on the real code",
    "z3 4.x/5.1 (primary), cvc5 1.0.3 (fallback / second opinion in the thorough tier)",
    "semantics of DESIGN.md section 3: C integers mathematical + explicit overflow/narrowing obligations; "
    "typed-buffer accesses raise outside [0,dim) (boundscheck=True, wraparound=False - itself obligation C20/DIRECTIVES); "
    "floats as mathematical reals (mode R) or uninterpreted (mode UF); distinct array parameters do not alias",
]

ASSUME_COMMON = [
    "machine floating-point arithmetic treated as mathematical real arithmetic in R-mode obligations",
    "ghost fold definitions (recursive sums/counts) are conservative definitional extensions (well-founded recursion on the last index)",
    "NumPy / SciPy / igraph behave as documented (DESIGN.md 3.3); exercised, not proved, by the bounded layer",
    "the rowsum point-update lemma, the indexed-sum congruence / successor facts and the chunk-cover lemma are used as axioms "
    "by the VC generator; they are machine-checked in /verif/lean (Lean 4 + Mathlib: re-run in the thorough tier, hash-compared in the quick tier)",
    "aliasing: two array parameters of a kernel are distinct objects (callers pass freshly allocated or distinct arrays)",
]


def has_bounded(prop):
    return os.path.exists(os.path.join(VERIF, "bounded", prop.lower() + ".py"))


def vacuity_canary(job):
    """The same function and contract with the postcondition `False`: must NOT be provable (if it
    were, the contract's assumptions would be contradictory and every proof vacuous)."""
    c = copy.copy(job.contract)
    c.ensures = ["1==0"]
    c.asserts = {}
    c.required_asserts = []
    c.name = job.contract.name + "#vacuity-canary"
    c.checks = set()
    j = Job(job.module, job.func, c, lang=job.lang, expect="refuted", tag=c.name)
    return j


def bounds_canary(job, drop=("shape(", "extent(")):
    """The same function with every shape/extent precondition dropped: some bounds obligation must
    be refuted (shows that bounds obligations are really generated and really decided)."""
    c = copy.copy(job.contract)
    c.requires = [r for r in c.requires if not any(d in r for d in drop)]
    c.ensures, c.asserts, c.loops = [], {}, {}
    c.required_asserts = []
    c.name = job.contract.name + "#bounds-canary"
    c.checks = {"bounds"}
    return Job(job.module, job.func, c, lang=job.lang, expect="refuted", tag=c.name)
