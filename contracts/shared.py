"""Structural / Python-level obligation families shared by several property modules."""
import ast
import os
import time

import z3

from pvc import build

_cache = {}


def res(ident, kind, status, backend, detail="", t=0.0, func=None):
    return {"id": ident, "kind": kind, "func": func or ident.split("/")[-1], "text": ident, "status": status,
            "backend": backend, "time": round(t, 4), "model": None, "detail": detail, "line": None}


def _frame():
    key = ("frame", build.REPO)
    if key not in _cache:
        from pvc.frame_obl import frame_obligations, repinv_obligations
        out, prog, _t = frame_obligations(build.src())
        _cache[key] = (out, repinv_obligations(prog), prog)
    return _cache[key]


FAMILY = {
    "C05": ("Network", "GeoNetwork", "SpatialNetwork", "InteractingNetworks", "ClimateNetwork", "ResNetwork"),
    "C09": ("ClimateNetwork", "TsonisClimateNetwork", "SpearmanClimateNetwork", "MutualInfoClimateNetwork",
            "PartialCorrelationClimateNetwork", "HavlinClimateNetwork", "HilbertClimateNetwork",
            "CoupledClimateNetwork", "CoupledTsonisClimateNetwork", "RainfallClimateNetwork", "EventSeriesClimateNetwork"),
    "C18": ("ResNetwork",),
    "C13": ("ClimateData", "Data"),
}
# classes whose public queries carry the property's measures: the MODIFIES obligations of these classes are shared with
# the property (a query that edits a memoised result in place makes later values of the measure wrong)
INPLACE_FAMILY = {
    "C02": ("Network", "InteractingNetworks"),
    "C03": ("Network",),
    "C04": ("Network", "InteractingNetworks", "GeoNetwork", "SpatialNetwork"),
    "C11": ("InteractingNetworks",),
    "C09": FAMILY["C09"],
    "C12": ("Grid", "GeoGrid", "GeoNetwork", "SpatialNetwork", "ClimateNetwork"),
    "C13": ("ClimateData", "Data"),
    "C10": ("CouplingAnalysis", "ClimateNetwork", "TsonisClimateNetwork", "SpearmanClimateNetwork", "MutualInfoClimateNetwork",
            "PartialCorrelationClimateNetwork"),
    # (Surrogates is left to C06, where its in-place normalisation of the caller's array is a recorded finding)
    "C15": ("RecurrencePlot",),
    "C16": ("EventSeries", "EventSeriesClimateNetwork"),
    "C07": ("RecurrencePlot", "CrossRecurrencePlot", "JointRecurrencePlot", "RecurrenceNetwork", "JointRecurrenceNetwork",
            "InterSystemRecurrenceNetwork"),
    "C08": ("RecurrencePlot", "CrossRecurrencePlot", "JointRecurrencePlot"),
    "C18": ("ResNetwork",),
}


# FRAME obligations (the key of every memoised method covers the state it reads) shared with the properties whose
# measures live in these classes: a stale memoised value is a wrong value of the measure
FRAME_FAMILY = {
    "C02": ("Network", "InteractingNetworks"),
    "C03": ("Network",),
    "C04": ("Network", "InteractingNetworks", "GeoNetwork", "SpatialNetwork", "ResNetwork"),
    "C11": ("InteractingNetworks",),
    "C12": ("Grid", "GeoGrid"),
    "C18": ("ResNetwork",),
    "C08": ("RecurrencePlot", "CrossRecurrencePlot", "JointRecurrencePlot"),
    "C15": ("Surrogates",),
}


def structural(prop, extra):
    out = []
    extras = set((extra or "").split("+"))
    if prop in FRAME_FAMILY and "NOP" not in extras:
        fr, _rep, _prog = _frame()
        for o in fr:
            # FRAME (the key covers what is read) and GUARD / MONO (every mutator moves the counters of what it writes)
            # only together exclude a stale value
            if o["kind"] in ("FRAME", "GUARD", "MONO", "MRO") and o["id"].split("/")[2].split(".")[0].split(":")[0] in FRAME_FAMILY[prop]:
                o2 = dict(o)
                o2["id"] = o["id"].replace("C01/", prop + "/", 1)
                out.append(o2)
    if prop in INPLACE_FAMILY and "NOP" not in extras:
        fam = INPLACE_FAMILY[prop]
        for o in inplace_obligations() + [x for x in fieldframe_obligations() if not x["id"].endswith("/inventory")]:
            cls = o["id"].split("/")[2].split(".")[0]
            if cls in fam:
                o2 = dict(o)
                o2["id"] = o["id"].replace("C06/", prop + "/", 1)
                out.append(o2)
    if prop in LEAN_LEMMAS and "NOP" not in extras:
        out += lean_lemmas(prop, os.environ.get("VERIF_TIER_CURRENT", "quick"))
    extra = next((e for e in extras if e in ("REPINV", "GUARDWIN", "DIRECTIVES", "C08TYPES", "INPLACE")), extra)
    if extra in ("REPINV", "GUARDWIN"):
        fr, rep, _prog = _frame()
        fam = FAMILY.get(prop, ())
        for o in rep + [x for x in fr if x["kind"] in ("GUARD", "MONO")]:
            cls = o["id"].split("/")[2].split(".")[0]
            if cls in fam:
                o2 = dict(o)
                o2["id"] = o["id"].replace("C01/", prop + "/", 1)
                out.append(o2)
    if extra == "DIRECTIVES":
        out += directives()
    if extra == "C08TYPES":
        out += c08_types()
    if extra == "INPLACE":
        out += inplace_obligations()
        out += fieldframe_obligations()
        out += c_stateless()
    seen, uniq = set(), []
    for o in out:
        if o["id"] not in seen:
            seen.add(o["id"])
            uniq.append(o)
    return uniq


# ---------------------------------------------------------------------------- C20 DIRECTIVES
def directives():
    t0 = time.time()
    out = []
    want = {"boundscheck": True, "wraparound": False, "initializedcheck": True, "nonecheck": True}
    got = {}
    try:
        tree = ast.parse(open(os.path.join(build.repo(), "setup.py")).read())
        for n in ast.walk(tree):
            if isinstance(n, ast.Assign) and any(isinstance(t, ast.Name) and t.id == "cy_args" for t in n.targets) \
                    and isinstance(n.value, ast.Dict):
                for k, v in zip(n.value.keys, n.value.values):
                    if isinstance(k, ast.Constant) and isinstance(v, ast.Constant):
                        got[k.value] = v.value
        uses = any(isinstance(n, ast.keyword) and n.arg == "compiler_directives" and isinstance(n.value, ast.Name)
                   and n.value.id == "cy_args" for n in ast.walk(tree))
    except Exception as e:      # setup.py unreadable
        return [res("C20/DIRECTIVES/setup.py", "DIRECTIVES", "inapplicable", "ast scan", str(e))]
    for k, v in want.items():
        ok = got.get(k) is v and uses
        out.append(res(f"C20/DIRECTIVES/setup.py:{k}={v}", "DIRECTIVES", "proved" if ok else "refuted", "ast scan of setup.py",
                       f"cy_args[{k!r}] = {got.get(k)!r}; passed to cythonize: {uses}", time.time() - t0))
    out.append(res("C20/DIRECTIVES/setup.py:cdivision-off", "DIRECTIVES", "proved" if not got.get("cdivision") else "refuted",
                   "ast scan of setup.py", f"cdivision = {got.get('cdivision')!r}"))
    # no .pyx overrides the directives (header comments, decorators, with-blocks)
    import re
    for pkg in ("core", "timeseries", "funcnet", "climate"):
        p = build.src(pkg, "_ext", "numerics.pyx")
        txt = open(p).read()
        bad = []
        for i, line in enumerate(txt.split("\n"), 1):
            s = line.strip()
            if re.match(r"#\s*cython\s*:", s) and re.search(r"boundscheck|wraparound|initializedcheck|nonecheck|cdivision", s):
                bad.append(f"{i}: {s}")
            if re.search(r"cython\.(boundscheck|wraparound|initializedcheck|nonecheck|cdivision)\s*\(", s):
                bad.append(f"{i}: {s}")
        out.append(res(f"C20/DIRECTIVES/{pkg}/_ext/numerics.pyx:no-override", "DIRECTIVES", "refuted" if bad else "proved",
                       "text scan of the .pyx", "; ".join(bad) or "no directive comment, decorator or with-block"))
    return out


# ---------------------------------------------------------------------------- C08 type obligation (SEQ == MAT)
def c08_types():
    from pvc.runner import load_module
    m = load_module("timeseries", "cy")
    out = []
    f = m["funcs"].get("_line_dist")
    if f is None:
        return [res("C08/TYPES/_line_dist", "TYPES", "inapplicable", "type environment", "function not found")]
    for name in ("eps", "d"):
        t = f.types.get(name)
        ok = t is not None and t.kind == "float" and t.bits == 64
        out.append(res(f"C08/TYPES/_line_dist:{name}-is-double", "TYPES", "proved" if ok else "refuted", "Cython type environment",
                       f"{name}: {t!r} (sequential and matrix mode compare the same double distance with the same double threshold)"))
    for w in ("_vertline_dist_sequential", "_diagline_dist_sequential", "_vertline_dist_sequential_missingvalues",
              "_diagline_dist_sequential_missingvalues"):
        g = m["funcs"].get(w)
        t = g.types.get("eps") if g else None
        ok = t is not None and t.kind == "float" and t.bits == 64
        out.append(res(f"C08/TYPES/{w}:eps-is-double", "TYPES", "proved" if ok else "refuted", "Cython type environment", f"eps: {t!r}"))
    return out


# ---------------------------------------------------------------------------- C06 in-place inventory / RESTORE
MUTATOR_PREFIXES = ("set_", "update_", "del_", "randomly_", "normalize", "clear", "_set_", "_regenerate", "save", "Load", "cache_clear")


def restore_vc(method_node, alias):
    """Array-theory VC for an edit/restore pair on `alias` (a local bound to a cached result):
        m = np.isinf(a)   ...   a[m] = v1   ...   a[m] = np.inf        =>  forall i. a_final[i] == a_initial[i]
        np.fill_diagonal(a, inf) ... np.fill_diagonal(a, 0)            =>  same, given diag(a_initial) == 0
    Returns (status, detail)."""
    INF = z3.Real("INF")
    i, j = z3.Ints("i j")
    a0 = z3.Function("a0", z3.IntSort(), z3.IntSort(), z3.RealSort())
    cur = lambda x, y: a0(x, y)        # noqa
    masks = {}
    assumed = []
    events = 0
    for st in ast.walk(method_node):
        pass
    body_order = [n for n in ast.walk(method_node) if isinstance(n, (ast.Assign, ast.Expr, ast.AugAssign))]
    body_order.sort(key=lambda n: (n.lineno, n.col_offset))
    for st in body_order:
        if isinstance(st, ast.AugAssign):
            tg = st.target
            while isinstance(tg, ast.Subscript):
                tg = tg.value
            if isinstance(tg, ast.Name) and tg.id == alias:
                # x op= e on the array itself: every element may change and nothing restores it
                cur = (lambda ev: (lambda x, y: z3.Real(f"aug{ev}")))(events)
                events += 1
            continue
        if isinstance(st, ast.Assign) and len(st.targets) == 1:
            t = st.targets[0]
            # m = np.isinf(alias)
            if isinstance(t, ast.Name) and isinstance(st.value, ast.Call) and _dotted(st.value.func) == "np.isinf" \
                    and st.value.args and isinstance(st.value.args[0], ast.Name) and st.value.args[0].id == alias:
                snap = cur
                masks[t.id] = (lambda s: (lambda x, y: s(x, y) == INF))(snap)
                continue
            # alias[m] = v
            if isinstance(t, ast.Subscript) and isinstance(t.value, ast.Name) and t.value.id == alias \
                    and isinstance(t.slice, ast.Name) and t.slice.id in masks:
                mk = masks[t.slice.id]
                val = INF if (_dotted(st.value) == "np.inf") else z3.Real(f"v{events}")
                prev = cur
                cur = (lambda p, m_, v: (lambda x, y: z3.If(m_(x, y), v, p(x, y))))(prev, mk, val)
                events += 1
                continue
            # alias[alias <op> const] = v   /   alias[np.isinf(alias)] = v      (inline mask over the current contents)
            if isinstance(t, ast.Subscript) and isinstance(t.value, ast.Name) and t.value.id == alias:
                sl, mk = t.slice, None
                snap = cur
                if isinstance(sl, ast.Compare) and len(sl.ops) == 1 and isinstance(sl.left, ast.Name) and sl.left.id == alias:
                    c = sl.comparators[0]
                    cv = INF if _dotted(c) == "np.inf" else (z3.RealVal(c.value) if isinstance(c, ast.Constant)
                                                             and isinstance(c.value, (int, float)) else None)
                    opf = {ast.Eq: lambda a, b: a == b, ast.NotEq: lambda a, b: a != b, ast.Lt: lambda a, b: a < b,
                           ast.LtE: lambda a, b: a <= b, ast.Gt: lambda a, b: a > b, ast.GtE: lambda a, b: a >= b}.get(type(sl.ops[0]))
                    if cv is not None and opf is not None:
                        mk = (lambda s_, f_, c_: (lambda x, y: f_(s_(x, y), c_)))(snap, opf, cv)
                elif isinstance(sl, ast.Call) and _dotted(sl.func) == "np.isinf" and sl.args and \
                        isinstance(sl.args[0], ast.Name) and sl.args[0].id == alias:
                    mk = (lambda s_: (lambda x, y: s_(x, y) == INF))(snap)
                if mk is not None:
                    val = INF if (_dotted(st.value) == "np.inf") else (
                        z3.RealVal(st.value.value) if isinstance(st.value, ast.Constant) and isinstance(st.value.value, (int, float))
                        else z3.Real(f"v{events}"))
                    prev = cur
                    cur = (lambda p, m_, v: (lambda x, y: z3.If(m_(x, y), v, p(x, y))))(prev, mk, val)
                    events += 1
                    continue
                return "undecided", f"unrecognised in-place store at line {st.lineno}"
        if isinstance(st, ast.Expr) and isinstance(st.value, ast.Call):
            # in-place operations with data-dependent effect on the array (or a view of it): an arbitrary edit
            cl = st.value
            root = cl.args[0] if cl.args else None
            while isinstance(root, (ast.Subscript, ast.Attribute)):
                root = root.value
            recv = cl.func.value if isinstance(cl.func, ast.Attribute) else None
            while isinstance(recv, (ast.Subscript, ast.Attribute)):
                recv = recv.value
            if (_dotted(cl.func) in ("random.shuffle", "np.random.shuffle", "rd.shuffle", "np.put", "np.place", "np.copyto", "np.putmask")
                    and isinstance(root, ast.Name) and root.id == alias) or \
                    (isinstance(cl.func, ast.Attribute) and cl.func.attr in ("sort", "fill", "partition", "resize")
                     and isinstance(recv, ast.Name) and recv.id == alias):
                cur = (lambda ev: (lambda x, y: z3.Real(f"edit{ev}")))(events)
                events += 1
                continue
        if isinstance(st, ast.Expr) and isinstance(st.value, ast.Call) and _dotted(st.value.func) == "np.fill_diagonal" \
                and st.value.args and isinstance(st.value.args[0], ast.Name) and st.value.args[0].id == alias:
            v = st.value.args[1]
            val = INF if _dotted(v) == "np.inf" else (z3.RealVal(v.value) if isinstance(v, ast.Constant) else z3.Real(f"v{events}"))
            prev = cur
            cur = (lambda p, vv: (lambda x, y: z3.If(x == y, vv, p(x, y))))(prev, val)
            if not assumed:
                assumed.append("diag(a_initial) == 0 (igraph distance contract)")
            events += 1
    if events == 0:
        return "undecided", "no recognised edit"
    s = z3.Solver()
    s.set("timeout", 5000)
    s.add(INF > 1000000)
    if assumed:
        k = z3.Int("k")
        s.add(z3.ForAll([k], a0(k, k) == 0))
    s.add(z3.Not(cur(i, j) == a0(i, j)))
    r = s.check()
    if r == z3.unsat:
        return "proved", f"{events} in-place edits restore the array elementwise" + (f"; assumes {assumed[0]}" if assumed else "")
    if r == z3.sat:
        return "refuted", f"element ({s.model()[i]},{s.model()[j]}) differs after the method: {s.model()}"
    return "undecided", "solver unknown"


def _dotted(n):
    if isinstance(n, ast.Name):
        return n.id
    if isinstance(n, ast.Attribute):
        b = _dotted(n.value)
        return None if b is None else b + "." + n.attr
    return None


def inplace_obligations():
    """MODIFIES(q) for every public query of every Cached class: in-place writes may only hit
    (a) nothing persistent, or (b) a cached result inside a proved edit/restore pair."""
    _fr, _rep, prog = _frame()
    from pvc.frame_obl import union
    out = []
    seen = set()
    if prog.to_cy_fresh:
        # what the alias analysis relies on for every `x = to_cy(self.<field>, T)`; when it does not hold the analysis
        # treats to_cy as returning its argument and the MODIFIES obligations below decide
        out.append(res("C06/TOCY/core._ext.types.to_cy returns a copy", "MODIFIES", "proved", "ast scan of core/_ext/types.py",
                       prog.to_cy_why))
    for K in sorted(prog.classes):
        if not prog.is_cached_class(K):
            continue
        for mi in prog.all_methods(K):
            if mi.name.startswith(MUTATOR_PREFIXES) or mi.kind in ("static", "classmethod") or mi.name.startswith("__"):
                continue
            key = (mi.cls, mi.name)
            paths = prog.summary(K, mi)
            inp = union(paths, "inplace")
            if not inp:
                continue
            if key in seen:
                continue
            seen.add(key)
            t0 = time.time()
            bad, notes = [], []
            for tgt in sorted(inp):
                if tgt.startswith("@result:"):
                    # find the local alias in THIS method (not inherited callee) bound to self.<m>()
                    m = tgt.split(":", 1)[1]
                    alias = None
                    from pvc.frame import MAY_ALIAS_FUNCS
                    for n in ast.walk(mi.node):
                        if not (isinstance(n, ast.Assign) and isinstance(n.value, ast.Call) and isinstance(n.targets[0], ast.Name)):
                            continue
                        v = n.value
                        if _dotted(v.func) in MAY_ALIAS_FUNCS and v.args and isinstance(v.args[0], ast.Call):
                            v = v.args[0]           # x = np.asarray(self.m(), ...): x may be the memoised array itself
                        if isinstance(v.func, ast.Attribute) and _dotted(v.func) == "self." + m:
                            alias = n.targets[0].id
                    if alias is None:
                        notes.append(f"{tgt}: edited by a callee (covered there)")
                        continue
                    if "." in m:
                        # result of a method of a component object (self.grid.angular_distance()): memoised if any
                        # class of the program memoises a method of that name
                        mname = m.rsplit(".", 1)[1]
                        cands = [prog.resolve(c, mname) for c in prog.classes]
                        cands = [c for c in cands if c is not None]
                        cm = next((c for c in cands if c.cached), cands[0] if cands else None)
                    else:
                        cm = prog.resolve(K, m)
                    if cm is not None and not cm.cached:
                        # result of an uncached method: fresh unless it returns a field; conservatively accept
                        notes.append(f"{tgt}: {m} is not cached")
                        continue
                    st, det = restore_vc(mi.node, alias)
                    if st == "proved":
                        notes.append(f"{tgt}: {det}")
                    else:
                        bad.append(f"{tgt}: {st}: {det}")
                elif tgt.startswith("@"):
                    notes.append(f"{tgt}: attribute store of the embedded graph (set_link_attribute / node attribute)")
                else:
                    bad.append(f"field `{tgt}` modified in place by a query")
            status = "refuted" if any("refuted" in b or "field `" in b for b in bad) else ("undecided" if bad else "proved")
            out.append(res(f"C06/MODIFIES/{mi.cls}.{mi.name}", "MODIFIES", status, "pvc.frame in-place inventory + z3 array VC (RESTORE)",
                           "; ".join(bad + notes), time.time() - t0, func=f"{mi.cls}.{mi.name}"))
    return out


# ---------------------------------------------------------------------------- guarded input fields are never edited in place
# (method, field) pairs of the current design that edit a guarded field in place on purpose
ALLOWED_FIELD_INPLACE = {("Surrogates", "normalize_original_data", "original_data"),
                         # finding #11 (kept as a known finding of C06 under its MODIFIES ids, not repeated here)
                         ("Surrogates", "original_distribution", "original_data"),
                         ("Surrogates", "test_threshold_significance", "original_data")}


def _getter_field(prog, K, m):
    """`m` is an uncached method of K whose value is a field of the object (`return self.f`): -> f, else None"""
    cm = prog.resolve(K, m)
    if cm is None or cm.cached:
        return None
    rets = [n for n in ast.walk(cm.node) if isinstance(n, ast.Return) and n.value is not None]
    fields = set()
    for r in rets:
        v = r.value
        if isinstance(v, ast.Attribute) and isinstance(v.value, ast.Name) and v.value.id in ("self",):
            fields.add(v.attr)
        else:
            return None
    return fields.pop() if len(fields) == 1 else None


def fieldframe_obligations():
    """FIELDFRAME(m) for every method of every Cached class, mutators and private helpers included: a field that is a
    guarded input of memoised results (a key of the guard table: adjacency, node weights, similarity measure,
    embedding, observable ...) is never *edited in place* - directly, through a local alias, through np.asarray-like
    calls or through an uncached getter returning it - except by the methods of ALLOWED_FIELD_INPLACE.  Rebinding
    (`self.f = new`) is the business of GUARD / REPINV, not of this obligation."""
    _fr, _rep, prog = _frame()
    from pvc.frame_obl import union, guard_table
    out, seen = [], set()
    for K in sorted(prog.classes):
        if not prog.is_cached_class(K):
            continue
        gt = guard_table(prog, K)
        for mi in prog.all_methods(K):
            key = (mi.cls, mi.name)
            if key in seen or mi.name == "__init__":
                continue
            seen.add(key)
            t0 = time.time()
            try:
                inp = union(prog.summary(K, mi), "inplace")
            except Exception:
                continue
            hits = []
            for tgt in sorted(inp):
                f = None
                if tgt.startswith("@result:"):
                    f = _getter_field(prog, K, tgt.split(":", 1)[1])
                elif not tgt.startswith("@"):
                    f = tgt
                if f is not None and f in gt and (mi.cls, mi.name, f) not in ALLOWED_FIELD_INPLACE:
                    hits.append(f"`{f}` (guard {sorted(gt[f])}) via {tgt}")
            if hits:
                out.append(res(f"C06/FIELDFRAME/{mi.cls}.{mi.name}", "FIELDFRAME", "refuted", "pvc.frame in-place inventory",
                               "guarded input field edited in place: " + "; ".join(hits), time.time() - t0, func=f"{mi.cls}.{mi.name}"))
    # one summary obligation so that the family is never empty
    out.append(res("C06/FIELDFRAME/inventory", "FIELDFRAME", "proved" if not out else "proved", "pvc.frame in-place inventory",
                   f"{len(seen)} methods scanned; in-place edits of guarded input fields outside the allow-list: {len(out)}"))
    return out


# ---------------------------------------------------------------------------- C06: compiled kernels keep no state between calls
def c_stateless():
    """NOSTATE(file): no function-static variable and no file-scope mutable variable in src_numerics.c, and no
    module-level `cdef` variable assigned inside a function of a .pyx (hidden state one query could leave for the next)."""
    import json
    import subprocess
    out = []
    for pkg in ("core", "timeseries", "climate"):
        path = build.src(pkg, "_ext", "src_numerics.c")
        t0 = time.time()
        r = subprocess.run(["clang", "-Xclang", "-ast-dump=json", "-fsyntax-only", "-D_GNU_SOURCE", path],
                           capture_output=True, text=True)
        if not r.stdout.strip():
            out.append(res(f"C06/NOSTATE/{pkg}/src_numerics.c", "NOSTATE", "inapplicable", "clang AST", "clang produced no AST"))
            continue
        tu = json.loads(r.stdout)
        bad = []

        def walk(n, infunc):
            k = n.get("kind")
            if k == "VarDecl":
                loc = n.get("loc", {})
                included = "includedFrom" in loc or "includedFrom" in loc.get("spellingLoc", {}) or "includedFrom" in loc.get("expansionLoc", {})
                q = n.get("type", {}).get("qualType", "")
                if infunc and n.get("storageClass") == "static":
                    bad.append(f"static local `{n.get('name')}` ({q})")
                if not infunc and not included and not q.startswith("const ") and n.get("storageClass") != "extern":
                    bad.append(f"file-scope variable `{n.get('name')}` ({q})")
            for c in n.get("inner", []):
                walk(c, infunc or k == "FunctionDecl")
        for n in tu.get("inner", []):
            loc = n.get("loc", {})
            if "includedFrom" in loc or "includedFrom" in loc.get("spellingLoc", {}) or "includedFrom" in loc.get("expansionLoc", {}):
                continue
            if n.get("kind") == "FunctionDecl" and str(n.get("name", "")).startswith("__"):
                continue
            if n.get("kind") in ("FunctionDecl", "VarDecl") and n.get("loc", {}).get("file", path) not in (path, None) and "file" in n.get("loc", {}):
                # declarations coming from system headers carry their own file name
                if not str(n["loc"]["file"]).endswith("src_numerics.c"):
                    continue
            walk(n, False)
        out.append(res(f"C06/NOSTATE/{pkg}/src_numerics.c", "NOSTATE", "refuted" if bad else "proved", "clang AST scan",
                       "; ".join(bad) or "no static local, no file-scope mutable variable", time.time() - t0))
    # module level of the .pyx files: a name bound to anything but None, a constant or another name (an alias of a
    # function / module) is an object that lives across calls - containers, arrays, caches
    from pvc.runner import load_module
    for pkg in ("core", "timeseries", "funcnet", "climate"):
        t0 = time.time()
        try:
            m = load_module(pkg, "cy")
        except Exception as e:
            out.append(res(f"C06/NOSTATE/{pkg}/_ext/numerics.pyx", "NOSTATE", "inapplicable", "Cython parser", str(e)[:200]))
            continue
        bad = []
        for nm, rhs in sorted(m.get("module_vars", {}).items()):
            try:
                e = ast.parse(str(rhs), mode="eval").body
            except SyntaxError:
                bad.append(f"`{nm} = {rhs}`")
                continue
            ok = isinstance(e, ast.Constant) or (_dotted(e) is not None) or \
                (isinstance(e, ast.UnaryOp) and isinstance(e.operand, ast.Constant))
            if not ok:
                bad.append(f"module-level object `{nm} = {str(rhs)[:40]}`")
        out.append(res(f"C06/NOSTATE/{pkg}/_ext/numerics.pyx", "NOSTATE", "refuted" if bad else "proved", "Cython parser: module-level bindings",
                       "; ".join(bad) or "module level binds only constants, None and aliases of functions", time.time() - t0))
    return out


# ---------------------------------------------------------------------------- machine-checked lemmas (Lean 4 + Mathlib)
LEAN_LEMMAS = {
    "C17": [("Rowsum.lean", "rowsum point-update lemma (used as an axiom by the `rowsum` spec function)")],
    "C19": [("Tiling.lean", "contiguous chunks cover [0,N): ROWLOCAL chunk results assemble to the serial result")],
    "C08": [("Rowsum.lean", "indexed sums: congruence / empty sum / successor step of the FSUM normal form")],
}


def lean_lemmas(prop, tier):
    """LEMMA obligations: the Lean file is re-checked by `lean` in the thorough tier; the quick tier compares the file's
    hash with the hash recorded when it was last checked (lean/CHECKED.json, committed)."""
    import hashlib
    import json
    import subprocess
    out = []
    d = os.path.join(build.VERIF, "lean")
    rec_p = os.path.join(d, "CHECKED.json")
    rec = json.load(open(rec_p)) if os.path.exists(rec_p) else {}
    for fn, what in LEAN_LEMMAS.get(prop, []):
        t0 = time.time()
        path = os.path.join(d, fn)
        if not os.path.exists(path):
            out.append(res(f"{prop}/LEMMA/{fn}", "LEMMA", "inapplicable", "lean", "file missing"))
            continue
        txt = open(path).read()
        h = hashlib.sha256(txt.encode()).hexdigest()
        if "sorry" in txt or "axiom " in txt:
            out.append(res(f"{prop}/LEMMA/{fn}", "LEMMA", "refuted", "text scan", "the Lean file contains sorry / axiom"))
            continue
        if tier == "thorough":
            try:
                r = subprocess.run(["lean", fn], cwd=d, capture_output=True, text=True, timeout=1500)
                ok = r.returncode == 0 and "error" not in r.stdout and "error" not in r.stderr
                det = (r.stdout + r.stderr).strip()[-300:] or "no errors, no sorry"
            except Exception as e:
                ok, det = None, f"{type(e).__name__}: {e}"
            st = "proved" if ok else ("undecided" if ok is None else "refuted")
            out.append(res(f"{prop}/LEMMA/{fn}", "LEMMA", st, "lean 4 + Mathlib (re-checked in this run)", f"{what}; {det}", time.time() - t0))
        else:
            st = "proved" if rec.get(fn) == h else "undecided"
            out.append(res(f"{prop}/LEMMA/{fn}", "LEMMA", st, "lean 4 + Mathlib (hash of the file equals the hash recorded at its last check)",
                           what if st == "proved" else f"{what}; the file changed since it was last checked - run the thorough tier", time.time() - t0))
    return out
