"""C03: Network measures equal their published definitions  (see DESIGN.md section 5)"""
from contracts import kernels as K
from contracts.common import TRUSTED_ENGINE, ASSUME_COMMON, has_bounded, vacuity_canary, bounds_canary

PROP = "C03"
LEVEL = "other"
HAS_BOUNDED = has_bounded(PROP)
CLAIMED = False
NA_REASON = "check not yet registered (framework under construction)"
LEVEL_TEXT = "TODO"
LEVEL_NOTE = "TODO"
TECHNIQUE = "contract-based deductive verification (VCs from source, z3/cvc5) + bounded stand-in"
TRUSTED_BASE = TRUSTED_ENGINE
EXPLANATION = ('TODO')
ASSUMPTIONS = ASSUME_COMMON + []
NOT_DECIDED = []


def jobs(tier):
    return K.jobs_for(PROP)


def canaries(tier):
    js = jobs(tier)
    out = []
    for j in js[:3]:
        out.append(vacuity_canary(j))
        if any("shape(" in r or "extent(" in r for r in j.contract.requires):
            out.append(bounds_canary(j))
    return out
