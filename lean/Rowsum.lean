/-
  M2 lemmas used (as axioms) by the VC generator of /verif/pvc/symex.py, machine-checked here.

  rsum r n           = r 0 + ... + r (n-1)                       (`rowsum` of the spec language)
  point-update lemma : for j < n,  rsum (update r j v) n = rsum r n - r j + v
  fsum_congr         : sums over [0,n) of pointwise equal summands are equal   (FSUM normal form of pvc/npvec.py)
  fsum_zero          : the empty indexed sum is 0
-/
import Mathlib

open Finset

def rsum (r : ℕ → ℤ) (n : ℕ) : ℤ := ∑ q ∈ range n, r q

theorem rsum_point_update (r : ℕ → ℤ) (n j : ℕ) (v : ℤ) (hj : j < n) :
    rsum (Function.update r j v) n = rsum r n - r j + v := by
  unfold rsum
  have hmem : j ∈ range n := mem_range.mpr hj
  rw [Finset.sum_update_of_mem hmem]
  have h := Finset.add_sum_erase (range n) r hmem
  rw [Finset.sdiff_singleton_eq_erase]
  linarith

theorem fsum_congr (f g : ℕ → ℤ) (n : ℕ) (h : ∀ i, i < n → f i = g i) :
    (∑ i ∈ range n, f i) = ∑ i ∈ range n, g i := by
  apply Finset.sum_congr rfl
  intro i hi
  exact h i (mem_range.mp hi)

theorem fsum_zero (f : ℕ → ℤ) : (∑ i ∈ range 0, f i) = 0 := by simp

/-- recursive characterisation used by the finite-scope search and the run-time evaluator -/
theorem fsum_succ (f : ℕ → ℤ) (n : ℕ) :
    (∑ i ∈ range (n + 1), f i) = (∑ i ∈ range n, f i) + f n := by
  rw [Finset.sum_range_succ]
