/-
  M3 (C19): contiguous chunks [b k, b (k+1)), k < m, with b 0 = 0 and b m = N cover every row r < N.
  Together with ROWLOCAL (each chunk kernel writes out r = F r for its absolute rows, proved by the VC generator)
  this gives: distributed result = serial result, for every chunking.
-/
import Mathlib

theorem chunk_cover (b : ℕ → ℕ) (m N : ℕ) (h0 : b 0 = 0) (hm : b m = N) :
    ∀ r, r < N → ∃ k, k < m ∧ b k ≤ r ∧ r < b (k + 1) := by
  intro r hr
  -- the least index whose boundary exceeds r
  have hex : ∃ k, r < b k := ⟨m, by omega⟩
  classical
  let k0 := Nat.find hex
  have hk0 : r < b k0 := Nat.find_spec hex
  have hk0pos : k0 ≠ 0 := by
    intro h
    have : r < b 0 := by simpa [h] using hk0
    omega
  obtain ⟨k, hk⟩ := Nat.exists_eq_succ_of_ne_zero hk0pos
  refine ⟨k, ?_, ?_, ?_⟩
  · have : k0 ≤ m := Nat.find_min' hex (by omega)
    omega
  · have hlt : k < k0 := by omega
    have := Nat.find_min hex hlt
    omega
  · have : b (k + 1) = b k0 := by rw [hk]
    omega

theorem distributed_eq_serial {α : Type} (out F : ℕ → α) (b : ℕ → ℕ) (m N : ℕ)
    (h0 : b 0 = 0) (hm : b m = N)
    (hchunk : ∀ k, k < m → ∀ r, b k ≤ r → r < b (k + 1) → out r = F r) :
    ∀ r, r < N → out r = F r := by
  intro r hr
  obtain ⟨k, hk, hlo, hhi⟩ := chunk_cover b m N h0 hm r hr
  exact hchunk k hk r hlo hhi
