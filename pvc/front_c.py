"""C front end: `clang -Xclang -ast-dump=json -fsyntax-only` on src_numerics.c (after
preprocessing, so macros are already expanded) lowered to the same (Python `ast`, types) IR as
the Cython front end.

  *p            ->  p[0]              p++ / ++p / p += e  ->  p += 1 / p += e   (pointer = base+offset)
  (*p)++        ->  p[0] += 1         a[e]                ->  a[e]
  (T) e         ->  __cast__("T", e)  for (v=a; v<b; v++) ->  for v in range(a, b)   (<= : b+1)
  x = y = e     ->  x = y = e         alloca(n)           ->  __alloca__(n)
Anything else (goto, switch, do-while, non-canonical for loops, function pointers, structs)
makes the function `unsupported` (obligations inapplicable).
"""
import ast
import json
import subprocess

from .front_cy import T, Func, Unsupported, scalar_type, _strip_marks, LineFix

CTYPES = {"int": "int", "long": "long", "unsigned int": "unsigned int", "float": "float",
          "double": "double", "signed char": "signed char", "char": "char", "short": "short",
          "unsigned long": "size_t", "size_t": "size_t", "long long": "long"}


def ctype(q):
    q = q.replace("const ", "").strip()
    ptr = 0
    while q.endswith("*"):
        ptr += 1
        q = q[:-1].strip()
    t = scalar_type(CTYPES.get(q, q))
    if t is None:
        if q == "void" and ptr:
            t = scalar_type("char")
        else:
            raise Unsupported(f"C type {q}")
    for _ in range(ptr):
        t = T("ptr", elem=t)
    return t


def tname(q):
    q = q.replace("const ", "").strip()
    base = q.rstrip("* ").strip()
    return CTYPES.get(base, base) + "*" * q.count("*")


class CLower:
    def __init__(self):
        self.types = {}
        self.line = 0

    def ln(self, n):
        loc = n.get("range", {}).get("begin", {})
        l = loc.get("line") or loc.get("expansionLoc", {}).get("line") or loc.get("spellingLoc", {}).get("line")
        if l:
            self.line = l
        return self.line

    def ex(self, n):
        k = n["kind"]
        inner = n.get("inner", [])
        if k in ("ImplicitCastExpr", "ParenExpr", "ConstantExpr"):
            s = self.ex(inner[0])
            if k == "ImplicitCastExpr" and n.get("castKind") in ("IntegralToFloating", "FloatingCast", "FloatingToIntegral", "IntegralCast"):
                # value-changing implicit conversions are made explicit
                return f"__cast__({tname(n['type']['qualType'])!r}, {s})"
            return f"({s})" if k == "ParenExpr" else s
        if k == "DeclRefExpr":
            return n["referencedDecl"]["name"]
        if k == "IntegerLiteral":
            return str(int(n["value"]))
        if k == "FloatingLiteral":
            v = n["value"]
            return repr(float(v))
        if k == "BinaryOperator":
            op = n["opcode"]
            a, b = self.ex(inner[0]), self.ex(inner[1])
            if op == "=":
                raise Unsupported("assignment used as expression")
            if op == "&&":
                return f"({a} and {b})"
            if op == "||":
                return f"({a} or {b})"
            if op == "/":
                q = n["type"]["qualType"]
                return f"({a} // {b})" if ctype(q).kind == "int" else f"({a} / {b})"
            if op in ("+", "-", "*", "%", "<", "<=", ">", ">=", "==", "!=", "|", "&"):
                return f"({a} {op} {b})"
            raise Unsupported(f"binary operator {op}")
        if k == "UnaryOperator":
            op = n["opcode"]
            a = self.ex(inner[0])
            if op == "*":
                return f"{a}[0]"
            if op == "-":
                return f"(-{a})"
            if op == "!":
                return f"(not {a})"
            if op == "+":
                return a
            raise Unsupported(f"unary operator {op} in expression")
        if k == "ArraySubscriptExpr":
            return f"{self.ex(inner[0])}[{self.ex(inner[1])}]"
        if k == "CStyleCastExpr":
            return f"__cast__({tname(n['type']['qualType'])!r}, {self.ex(inner[0])})"
        if k == "CallExpr":
            f = self.ex(inner[0])
            args = ", ".join(self.ex(a) for a in inner[1:])
            if f in ("alloca", "__builtin_alloca", "_alloca"):
                return f"__alloca__({args})"
            return f"{f}({args})"
        if k == "UnaryExprOrTypeTraitExpr":
            if n.get("name") == "sizeof":
                q = n.get("argType", {}).get("qualType")
                if q:
                    t = ctype(q)
                    return str(8 if t.kind == "ptr" else t.bits // 8)
            raise Unsupported("sizeof expression")
        if k == "ConditionalOperator":
            return f"({self.ex(inner[1])} if {self.ex(inner[0])} else {self.ex(inner[2])})"
        raise Unsupported(f"C expression {k}")

    def assign_chain(self, n):
        """x = y = e  ->  (targets, value) or None"""
        targets = []
        cur = n
        while cur["kind"] in ("ImplicitCastExpr", "ParenExpr"):
            cur = cur["inner"][0]
        while cur["kind"] == "BinaryOperator" and cur["opcode"] == "=":
            targets.append(self.ex(cur["inner"][0]))
            cur = cur["inner"][1]
            while cur["kind"] in ("ParenExpr",) or (cur["kind"] == "ImplicitCastExpr" and cur["inner"][0]["kind"] == "BinaryOperator" and cur["inner"][0].get("opcode") == "="):
                cur = cur["inner"][0]
        return targets, cur

    def stmt(self, n, ind, out):
        k = n["kind"]
        pad = "    " * ind
        mark = f"  #@{self.ln(n)}"
        inner = n.get("inner", [])
        if k == "CompoundStmt":
            for s in inner:
                self.stmt(s, ind, out)
            return
        if k == "NullStmt":
            return
        if k == "DeclStmt":
            for d in inner:
                if d["kind"] != "VarDecl":
                    raise Unsupported(f"declaration {d['kind']}")
                self.types[d["name"]] = ctype(d["type"]["qualType"])
                if d.get("inner"):
                    init = [x for x in d["inner"] if x["kind"] not in ("FullComment",)]
                    if init:
                        val = self.ex(init[0])
                        t = self.types[d["name"]]
                        if t.kind == "ptr" and val.startswith("__alloca__"):
                            val = f"__cast__({tname(d['type']['qualType'])!r}, {val})"
                        out.append(f"{pad}{d['name']} = {val}{mark}")
            return
        if k in ("BinaryOperator", "ParenExpr", "ImplicitCastExpr") :
            core = n
            while core["kind"] in ("ParenExpr", "ImplicitCastExpr"):
                core = core["inner"][0]
            if core["kind"] == "BinaryOperator" and core["opcode"] == "=":
                targets, val = self.assign_chain(core)
                out.append(f"{pad}{' = '.join(targets)} = {self.ex(val)}{mark}")
                return
            if core["kind"] in ("UnaryOperator", "CompoundAssignOperator", "CallExpr"):
                return self.stmt(core, ind, out)
            raise Unsupported("expression statement")
        if k == "CompoundAssignOperator":
            op = n["opcode"]
            out.append(f"{pad}{self.ex(inner[0])} {op} {self.ex(inner[1])}{mark}")
            return
        if k == "UnaryOperator" and n["opcode"] in ("++", "--"):
            out.append(f"{pad}{self.ex(inner[0])} {'+=' if n['opcode'] == '++' else '-='} 1{mark}")
            return
        if k == "CallExpr":
            out.append(f"{pad}{self.ex(n)}{mark}")
            return
        if k == "IfStmt":
            out.append(f"{pad}if {self.ex(inner[0])}:{mark}")
            self.block(inner[1], ind + 1, out)
            if len(inner) > 2:
                out.append(f"{pad}else:")
                self.block(inner[2], ind + 1, out)
            return
        if k == "ForStmt":
            init, _, cond, inc, body = inner[0], inner[1], inner[2], inner[3], inner[4]
            var, lo = None, None
            if init.get("kind") == "DeclStmt" and len(init["inner"]) == 1:
                d = init["inner"][0]
                self.types[d["name"]] = ctype(d["type"]["qualType"])
                var, lo = d["name"], self.ex(d["inner"][0])
            elif init.get("kind") == "BinaryOperator" and init.get("opcode") == "=":
                var, lo = self.ex(init["inner"][0]), self.ex(init["inner"][1])
            c = cond
            while c and c.get("kind") in ("ParenExpr", "ImplicitCastExpr"):
                c = c["inner"][0]
            ok = (var is not None and c and c.get("kind") == "BinaryOperator" and c["opcode"] in ("<", "<=")
                  and self.ex(c["inner"][0]) == var and inc.get("kind") == "UnaryOperator"
                  and inc["opcode"] == "++" and self.ex(inc["inner"][0]) == var)
            if not ok:
                raise Unsupported("non-canonical for loop")
            hi = self.ex(c["inner"][1])
            if c["opcode"] == "<=":
                hi = f"({hi} + 1)"
            out.append(f"{pad}for {var} in range({lo}, {hi}):{mark}")
            self.block(body, ind + 1, out)
            return
        if k == "WhileStmt":
            out.append(f"{pad}while {self.ex(inner[0])}:{mark}")
            self.block(inner[1], ind + 1, out)
            return
        if k == "ReturnStmt":
            out.append(f"{pad}return {self.ex(inner[0]) if inner else ''}{mark}")
            return
        if k == "ContinueStmt":
            out.append(f"{pad}continue{mark}")
            return
        if k == "BreakStmt":
            out.append(f"{pad}break{mark}")
            return
        raise Unsupported(f"C statement {k}")

    def block(self, n, ind, out):
        before = len(out)
        self.stmt(n, ind, out)
        if len(out) == before:
            out.append("    " * ind + "pass")


def parse_c(path):
    r = subprocess.run(["clang", "-Xclang", "-ast-dump=json", "-fsyntax-only", "-D_GNU_SOURCE", path],
                       capture_output=True, text=True)
    if not r.stdout.strip():
        raise RuntimeError("clang produced no AST: " + r.stderr[-500:])
    tu = json.loads(r.stdout)
    funcs = {}
    for n in tu["inner"]:
        if n.get("kind") != "FunctionDecl" or "inner" not in n:
            continue
        body = [c for c in n["inner"] if c.get("kind") == "CompoundStmt"]
        if not body:
            continue
        loc = n.get("loc", {})
        if "includedFrom" in loc or loc.get("spellingLoc", {}).get("includedFrom"):
            continue
        name = n["name"]
        if name.startswith("__"):
            continue
        lw = CLower()
        params, unsupported, pyb, text = [], None, [], ""
        try:
            for p in n["inner"]:
                if p.get("kind") == "ParmVarDecl":
                    t = ctype(p["type"]["qualType"])
                    lw.types[p["name"]] = t
                    params.append((p["name"], t))
            out = []
            lw.block(body[0], 1, out)
            text = f"def {name}({', '.join(p for p, _ in params)}):\n" + "\n".join(out)
            text, lmap = _strip_marks(text)
            mod = ast.parse(text)
            LineFix(lmap).visit(mod)
            pyb = mod.body[0].body
        except Unsupported as e:
            unsupported = str(e)
        f = Func(name, f"{path}:{name}", "c", params, lw.types, pyb, n.get("loc", {}).get("line", 0), path, "c",
                 unsupported, text)
        rq = n["type"]["qualType"].split("(")[0].strip()
        f.ret = None if rq == "void" else ctype(rq)
        funcs[name] = f
    return funcs
