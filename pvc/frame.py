"""Frame analyser over the Python sources of pyunicorn (CPython `ast`, re-read on every run).

Builds the class graph (C3 MRO), and per method a *path summary*: a set of paths, each path being
(fields possibly read, fields written, counter transformers, self-methods called are inlined by
dynamic dispatch on the concrete class).  On top of it the obligation families of C01/C05/C06/C13/C19:

  FRAME(m,K)   every mutable field in reads*(m) is covered by the lru_cache key of m in class K
  GUARD(M,K)   on every path of mutator M, each written field's guard counter strictly increases (z3, LIA)
  MONO(c)      no path of any method decreases a counter (z3, LIA)
  MRO(K)       the resolved __cache_state__ of K covers the __cache_state__ of every Cached base
  REPINV(M,K)  a mutator that writes a source field also rewrites the fields derived from it

Abstractions (stated in evidence): attribute access only through `self.<name>`; `getattr(self, <f-string>)`
over-approximated by all methods whose name matches the constant parts; loops 0/1 times for write/guard
purposes (a counter bump inside a loop is not relied upon); exceptions abort the method (paths ending in
`raise` are dropped); calls on other objects are opaque except in-place mutators of NumPy arrays.
"""
import ast
import itertools
import os

INPLACE_METHODS = {"sort", "fill", "resize", "put", "itemset", "setfield", "partition", "byteswap",
                   "setflags", "append", "extend", "clear", "update", "pop", "remove", "insert", "setdiag"}
INPLACE_FUNCS = {"np.fill_diagonal", "np.put", "np.place", "np.copyto", "np.putmask", "random.shuffle",
                 "np.random.shuffle", "rd.shuffle"}
# methods (of any object) documented to modify their first argument in place
INPLACE_ARG0 = {"normalize_time_series_array", "normalize_time_series", "shuffle"}
LA = "@link_attributes"
NA_ = "@node_attributes"


# NumPy calls whose result may be the argument itself or a view of it (no copy when dtype / layout already match)
MAY_ALIAS_FUNCS = {"np.asarray", "numpy.asarray", "np.asanyarray", "numpy.asanyarray", "np.ravel", "numpy.ravel",
                   "np.atleast_1d", "np.atleast_2d", "np.squeeze", "np.transpose", "np.reshape", "np.ascontiguousarray",
                   "np.require", "np.swapaxes", "np.diagonal"}
MAY_ALIAS_METHODS = {"view", "reshape", "ravel", "squeeze", "transpose", "swapaxes", "diagonal"}

class MethodInfo:
    def __init__(self, cls, name, node, kind="method"):
        self.cls, self.name, self.node, self.kind = cls, name, node, kind   # kind: method|getter|setter|static|classmethod
        self.cached = False
        self.attrs = ()
        self.lineno = node.lineno

    @property
    def qual(self):
        return f"{self.cls}.{self.name}" + (".setter" if self.kind == "setter" else "")


class ClassInfo:
    def __init__(self, name, module, file, node):
        self.name, self.module, self.file, self.node = name, module, file, node
        self.base_names = []
        self.methods = {}       # name -> MethodInfo (plain methods, getters)
        self.setters = {}       # property name -> MethodInfo
        self.props = set()
        self.class_attrs = set()


def dotted(node):
    if isinstance(node, ast.Name):
        return node.id
    if isinstance(node, ast.Attribute):
        b = dotted(node.value)
        return None if b is None else b + "." + node.attr
    return None


class Program:
    def __init__(self, root):
        self.root = root
        self.classes = {}
        self.files = {}
        for dp, _dn, fns in os.walk(root):
            for fn in sorted(fns):
                if fn.endswith(".py"):
                    p = os.path.join(dp, fn)
                    try:
                        tree = ast.parse(open(p).read())
                    except SyntaxError:
                        continue
                    self.files[p] = tree
                    mod = os.path.relpath(p, root)[:-3].replace("/", ".")
                    for n in tree.body:
                        if isinstance(n, ast.ClassDef):
                            self.add_class(n, mod, p)
        self._mro = {}
        self._summ = {}
        self.to_cy_fresh, self.to_cy_why = self._to_cy_is_a_copy()

    def _to_cy_is_a_copy(self):
        """core/_ext/types.py: to_cy(arr, ty) is the conversion every method uses before it hands an array to a kernel or
        edits it; the frame analysis treats its result as a fresh array only if the function is literally
        `return arr.astype(..., copy=True, ...)` (or without a copy keyword: NumPy's default is a copy).  Otherwise the
        result may be the argument itself and every in-place edit of it is an edit of the argument."""
        for p, tree in self.files.items():
            if p.replace(os.sep, "/").endswith("core/_ext/types.py"):
                for n in tree.body:
                    if isinstance(n, ast.FunctionDef) and n.name == "to_cy":
                        body = [s for s in n.body if not (isinstance(s, ast.Expr) and isinstance(s.value, ast.Constant))]
                        if len(body) == 1 and isinstance(body[0], ast.Return) and isinstance(body[0].value, ast.Call):
                            c = body[0].value
                            if isinstance(c.func, ast.Attribute) and c.func.attr == "astype" and isinstance(c.func.value, ast.Name) \
                                    and c.func.value.id == n.args.args[0].arg:
                                for kw in c.keywords:
                                    if kw.arg == "copy" and not (isinstance(kw.value, ast.Constant) and kw.value.value is True):
                                        return False, "astype(copy=%s)" % ast.unparse(kw.value)
                                return True, "astype with copy=True"
                        return False, "to_cy is no longer a single `return arr.astype(...)`"
                return False, "to_cy not found in core/_ext/types.py"
        return True, "core/_ext/types.py not part of the analysed tree"

    def add_class(self, n, mod, path):
        ci = ClassInfo(n.name, mod, path, n)
        ci.base_names = [dotted(b).split(".")[-1] for b in n.bases if dotted(b)]
        for st in n.body:
            if isinstance(st, ast.FunctionDef):
                kind = "method"
                cached, attrs = False, ()
                for d in st.decorator_list:
                    dn = dotted(d.func) if isinstance(d, ast.Call) else dotted(d)
                    if dn == "property":
                        kind = "getter"
                    elif dn and dn.endswith(".setter"):
                        kind = "setter"
                    elif dn == "staticmethod":
                        kind = "static"
                    elif dn == "classmethod":
                        kind = "classmethod"
                    elif dn == "Cached.method":
                        cached = True
                        if isinstance(d, ast.Call):
                            for kw in d.keywords:
                                if kw.arg == "attrs" and isinstance(kw.value, ast.Tuple):
                                    attrs = tuple(e.value for e in kw.value.elts if isinstance(e, ast.Constant))
                mi = MethodInfo(n.name, st.name, st, kind)
                mi.cached, mi.attrs = cached, attrs
                if kind == "setter":
                    ci.setters[st.name] = mi
                else:
                    ci.methods[st.name] = mi
                    if kind == "getter":
                        ci.props.add(st.name)
            elif isinstance(st, (ast.Assign, ast.AnnAssign)):
                for t in (st.targets if isinstance(st, ast.Assign) else [st.target]):
                    if isinstance(t, ast.Name):
                        ci.class_attrs.add(t.id)
        # if several classes share a name (should not happen in pyunicorn) the last wins
        self.classes[n.name] = ci

    # ---------------------------------------------------------------- MRO
    def mro(self, cname):
        if cname in self._mro:
            return self._mro[cname]
        ci = self.classes.get(cname)
        if ci is None:
            return [cname]
        seqs = [list(self.mro(b)) for b in ci.base_names if b in self.classes] + \
               [[b for b in ci.base_names if b in self.classes]]
        res = [cname]
        seqs = [s for s in seqs if s]
        while seqs:
            for s in seqs:
                h = s[0]
                if not any(h in t[1:] for t in seqs):
                    break
            else:
                raise ValueError(f"inconsistent MRO for {cname}")
            res.append(h)
            seqs = [[x for x in s if x != h] for s in seqs]
            seqs = [s for s in seqs if s]
        self._mro[cname] = res
        return res

    def is_cached_class(self, cname):
        return "Cached" in self.mro(cname) and cname != "Cached"

    def resolve(self, K, name, after=None, setter=False):
        """MethodInfo for attribute `name` looked up on concrete class K (optionally after class `after` in the MRO)."""
        m = self.mro(K)
        if after is not None and after in m:
            m = m[m.index(after) + 1:]
        for c in m:
            ci = self.classes.get(c)
            if ci is None:
                continue
            tab = ci.setters if setter else ci.methods
            if name in tab:
                return tab[name]
        return None

    def is_prop(self, K, name):
        for c in self.mro(K):
            ci = self.classes.get(c)
            if ci and name in ci.props:
                return True
        return False

    def all_methods(self, K):
        seen, out = set(), []
        for c in self.mro(K):
            ci = self.classes.get(c)
            if not ci:
                continue
            for n, mi in ci.methods.items():
                if n not in seen:
                    seen.add(n)
                    out.append(mi)
        return out

    def all_setters(self, K):
        seen, out = set(), []
        for c in self.mro(K):
            ci = self.classes.get(c)
            if not ci:
                continue
            for n, mi in ci.setters.items():
                if n not in seen:
                    seen.add(n)
                    out.append(mi)
        return out

    # ---------------------------------------------------------------- path summaries
    def summary(self, K, mi, stack=(), none=frozenset()):
        """Set of paths; each path = (reads frozenset, writes frozenset, counters tuple of (field, op, k),
        silence_dep frozenset of written fields that are control dependent on silence_level)."""
        key = (K, mi.qual, none)
        if key in self._summ:
            return self._summ[key]
        if key in stack or len(stack) > 40:
            return {Path()}
        an = Analyzer(self, K, mi, stack + (key,), none)
        paths = an.run()
        self._summ[key] = paths
        return paths


class Path:
    __slots__ = ("reads", "writes", "ctr", "inplace")

    def __init__(self, reads=frozenset(), writes=frozenset(), ctr=(), inplace=frozenset()):
        self.reads, self.writes, self.ctr, self.inplace = reads, writes, ctr, inplace

    def key(self):
        return (self.reads, self.writes, self.ctr, self.inplace)

    def __hash__(self):
        return hash(self.key())

    def __eq__(self, o):
        return self.key() == o.key()

    def then(self, o):
        return Path(self.reads | o.reads, self.writes | o.writes, self.ctr + o.ctr, self.inplace | o.inplace)


MAXP = 64


def compress(paths):
    """Bound the number of paths: merge paths with equal (writes, ctr) (reads are unioned)."""
    by = {}
    for p in paths:
        k = (p.writes, p.ctr)
        if k in by:
            q = by[k]
            by[k] = Path(q.reads | p.reads, q.writes, q.ctr, q.inplace | p.inplace)
        else:
            by[k] = p
    out = set(by.values())
    if len(out) > MAXP:
        # keep write/ctr distinctions only up to the cap: merge everything else conservatively by
        # dropping counter increments (sound for GUARD: fewer increments)
        allr = frozenset().union(*[p.reads for p in out])
        groups = {}
        for p in out:
            groups.setdefault(p.writes, []).append(p)
        out = set()
        for w, ps in groups.items():
            # common prefix of counter ops = certainly executed
            common = set(ps[0].ctr)
            for p in ps[1:]:
                common &= set(p.ctr)
            out.add(Path(allr, w, tuple(sorted(common)), frozenset().union(*[p.inplace for p in ps])))
    return out


class Analyzer:
    def __init__(self, prog, K, mi, stack, none=frozenset()):
        self.prog, self.K, self.mi, self.stack = prog, K, mi, stack
        self.consts = dict(none)   # parameters known to be a constant (None / True / False / number / str) here
        self.none = {k for k, v in self.consts.items() if v is None}
        args = mi.node.args.args
        self.selfname = args[0].arg if args and mi.kind not in ("static",) else None
        self.aliases = {}       # local name -> field it aliases (x = self.f  => in-place ops on x hit f)
        self.params = [a.arg for a in args[1:]] if self.selfname else [a.arg for a in args]
        self.consts = {p: v for p, v in self.consts.items() if not self.reassigned(p)}
        self.none = {k for k, v in self.consts.items() if v is None}

    def run(self):
        done = []
        live = self.block(self.mi.node.body, {Path()}, done)
        return compress(set(live) | set(done))

    # ---- statements: return set of live paths; finished (return) paths appended to `done`
    def block(self, stmts, paths, done):
        for s in stmts:
            if not paths:
                break
            paths = self.stmt(s, paths, done)
            if len(paths) > MAXP:
                paths = compress(paths)
        return paths

    def seq(self, paths, eff):
        return {p.then(e) for p in paths for e in eff}

    def stmt(self, s, paths, done):
        if isinstance(s, (ast.Expr,)):
            return self.seq(paths, self.expr(s.value))
        if isinstance(s, ast.Assign):
            eff = self.expr(s.value)
            for t in s.targets:
                eff = self.seq(eff, self.target(t, s.value))
                self.note_alias(t, s.value)
            return self.seq(paths, eff)
        if isinstance(s, ast.AnnAssign):
            eff = self.expr(s.value) if s.value is not None else {Path()}
            if s.value is not None:
                eff = self.seq(eff, self.target(s.target, s.value))
            return self.seq(paths, eff)
        if isinstance(s, ast.AugAssign):
            eff = self.expr(s.value)
            eff = self.seq(eff, self.expr_load_target(s.target))
            eff = self.seq(eff, self.target(s.target, s.value, aug=s.op))
            return self.seq(paths, eff)
        if isinstance(s, ast.Delete):
            eff = {Path()}
            for t in s.targets:
                eff = self.seq(eff, self.target(t, None))
            return self.seq(paths, eff)
        if isinstance(s, ast.Return):
            eff = self.expr(s.value) if s.value is not None else {Path()}
            done.extend(self.seq(paths, eff))
            return set()
        if isinstance(s, ast.Raise):
            return set()        # exceptions abort the method: no post-state to guard
        if isinstance(s, ast.If):
            tv = self.truth(s.test)
            if tv is True:
                return self.block(s.body, paths, done)
            if tv is False:
                return self.block(s.orelse, paths, done)
            c = self.expr(s.test)
            p0 = self.seq(paths, c)
            a = self.block(s.body, set(p0), done)
            b = self.block(s.orelse, set(p0), done)
            return compress(a | b)
        if isinstance(s, (ast.For, ast.While)):
            es_iter = isinstance(s, ast.For) and isinstance(s.iter, ast.Attribute) and s.iter.attr == "es" and \
                isinstance(s.iter.value, ast.Attribute) and self.is_self(s.iter.value.value) and s.iter.value.attr == "graph"
            if es_iter:
                # iterating the edge sequence reads the topology; stores through the loop variable
                # (e[name] = v) write link attributes
                head = {Path(reads=frozenset(["graph"]))}
                if isinstance(s.target, ast.Name):
                    self.aliases[s.target.id] = LA
            else:
                head = self.expr(s.iter) if isinstance(s, ast.For) else self.expr(s.test)
            p0 = self.seq(paths, head)
            if isinstance(s, ast.For):
                p0 = self.seq(p0, self.target(s.target, None))
            once = self.block(s.body, set(p0), done)
            # twice is enough to reach the fixpoint of the (reads, writes) sets; counters: 0 or 1 time
            out = compress(p0 | once)
            out = compress(out | self.block(s.orelse, set(out), done)) if s.orelse else out
            return out
        if isinstance(s, ast.With):
            eff = {Path()}
            for it in s.items:
                eff = self.seq(eff, self.expr(it.context_expr))
            return self.block(s.body, self.seq(paths, eff), done)
        if isinstance(s, ast.Try):
            a = self.block(s.body, set(paths), done)
            out = set(a)
            for h in s.handlers:
                out |= self.block(h.body, set(paths) | set(a), done)
            out = self.block(s.orelse, out, done) if s.orelse else out
            return self.block(s.finalbody, out, done) if s.finalbody else out
        if isinstance(s, (ast.Pass, ast.Break, ast.Continue, ast.Import, ast.ImportFrom, ast.Global,
                          ast.Nonlocal, ast.FunctionDef, ast.ClassDef)):
            return paths
        if isinstance(s, ast.Assert):
            return self.seq(paths, self.expr(s.test))
        return paths

    def truth(self, t):
        """True / False when the test is decided by parameters known to be None, else None."""
        if isinstance(t, ast.Compare) and len(t.ops) == 1 and isinstance(t.left, ast.Name) and \
                isinstance(t.comparators[0], ast.Constant) and t.comparators[0].value is None and t.left.id in self.none:
            if isinstance(t.ops[0], (ast.Is, ast.Eq)):
                return True
            if isinstance(t.ops[0], (ast.IsNot, ast.NotEq)):
                return False
        if isinstance(t, ast.Name) and t.id in self.consts:
            return bool(self.consts[t.id])
        if isinstance(t, ast.Compare) and len(t.ops) == 1 and isinstance(t.left, ast.Name) and t.left.id in self.consts \
                and isinstance(t.comparators[0], ast.Constant) and isinstance(t.ops[0], (ast.Eq, ast.NotEq)):
            eq = self.consts[t.left.id] == t.comparators[0].value
            return eq if isinstance(t.ops[0], ast.Eq) else not eq
        if isinstance(t, ast.Call) and dotted(t.func) == "hasattr" and t.args and self.is_self(t.args[0]):
            return True     # obligations concern live, fully constructed objects
        if isinstance(t, ast.Constant):
            return bool(t.value)
        if isinstance(t, ast.UnaryOp) and isinstance(t.op, ast.Not):
            v = self.truth(t.operand)
            return None if v is None else (not v)
        if isinstance(t, ast.BoolOp):
            vs = [self.truth(v) for v in t.values]
            if isinstance(t.op, ast.And):
                if any(v is False for v in vs):
                    return False
                if all(v is True for v in vs):
                    return True
            else:
                if any(v is True for v in vs):
                    return True
                if all(v is False for v in vs):
                    return False
        return None

    def none_args(self, mi, call):
        """parameters of callee `mi` that are None at this call (default None not passed, literal None,
        or one of our own None parameters passed through)"""
        a = mi.node.args
        params = [x.arg for x in a.args]
        if mi.kind not in ("static",):
            params = params[1:]
        defaults = dict(zip(params[len(params) - len(a.defaults):], a.defaults))
        for x, d in zip(a.kwonlyargs, a.kw_defaults):
            if d is not None:
                defaults[x.arg] = d
        given = {}
        for p, v in zip(params, call.args):
            given[p] = v
        for kw in call.keywords:
            if kw.arg:
                given[kw.arg] = kw.value
            else:
                return frozenset()      # **kwargs: unknown
        if any(isinstance(v, ast.Starred) for v in call.args):
            return frozenset()
        out = set()
        for p in params + [x.arg for x in a.kwonlyargs]:
            v = given.get(p, defaults.get(p))
            if v is None:
                continue
            if isinstance(v, ast.Constant) and (v.value is None or isinstance(v.value, (bool, int, str))):
                out.add((p, v.value))
            elif isinstance(v, ast.Name) and v.id in self.consts:
                out.add((p, self.consts[v.id]))
        return frozenset(out)

    def reassigned(self, name):
        """True if the parameter may be rebound to something other than the constant it is known to be."""
        cur = self.consts.get(name, "@@")
        for n in ast.walk(self.mi.node):
            if isinstance(n, ast.Assign) and any(isinstance(t, ast.Name) and t.id == name for t in n.targets):
                if isinstance(n.value, ast.Constant) and n.value.value == cur and type(n.value.value) is type(cur):
                    continue
                return True
            if isinstance(n, (ast.AugAssign, ast.AnnAssign, ast.For, ast.NamedExpr)):
                t = n.target
                for m in ast.walk(t):
                    if isinstance(m, ast.Name) and m.id == name:
                        return True
            if isinstance(n, ast.Tuple) and isinstance(getattr(n, "ctx", None), ast.Store):
                if any(isinstance(e, ast.Name) and e.id == name for e in n.elts):
                    return True
        return False

    def note_alias(self, t, value):
        if isinstance(t, ast.Name):
            f = self.field_of(value)
            if f is not None:
                self.aliases[t.id] = f
            elif isinstance(value, ast.Call) and (dotted(value.func) in MAY_ALIAS_FUNCS or
                                                  (dotted(value.func) == "to_cy" and not self.prog.to_cy_fresh)) and value.args \
                    and self.arg_target(value.args[0]) is not None:
                # np.asarray(x) / np.ravel(x) / ... return x itself (or a view) whenever no conversion is needed
                self.aliases[t.id] = self.arg_target(value.args[0])
            elif isinstance(value, ast.Call) and isinstance(value.func, ast.Attribute) and value.func.attr in MAY_ALIAS_METHODS \
                    and self.arg_target(value.func.value) is not None \
                    and not (isinstance(value.func.value, ast.Call)):
                self.aliases[t.id] = self.arg_target(value.func.value)
            elif isinstance(value, ast.Call):
                # x = self.cached_method(): in-place edits of x hit the cached value of that method
                fn = value.func
                d = dotted(fn)
                if isinstance(fn, ast.Attribute) and self.is_self(fn.value):
                    self.aliases[t.id] = "@result:" + fn.attr
                elif d and self.selfname and d.startswith(self.selfname + "."):
                    self.aliases[t.id] = "@result:" + d[len(self.selfname) + 1:]
                else:
                    self.aliases.pop(t.id, None)
            else:
                self.aliases.pop(t.id, None)

    def is_self(self, n):
        return isinstance(n, ast.Name) and n.id == self.selfname

    def field_of(self, n):
        """self.f / self.f[...] / self.f.T ... -> 'f' (root field) or None"""
        while isinstance(n, (ast.Subscript, ast.Attribute)):
            if isinstance(n, ast.Attribute) and self.is_self(n.value):
                return n.attr
            n = n.value
        return None

    # ---- store targets
    def target(self, t, value, aug=None):
        if isinstance(t, ast.Name):
            if aug is not None and t.id in self.aliases:
                f = self.aliases[t.id]      # x *= y on an ndarray alias is an in-place edit
                return {Path(writes=frozenset([f]), inplace=frozenset([f]))}
            if aug is not None and t.id in self.params:
                f = "@param:" + t.id
                return {Path(writes=frozenset([f]), inplace=frozenset([f]))}
            return {Path()}
        if isinstance(t, (ast.Tuple, ast.List)):
            eff = {Path()}
            for e in t.elts:
                eff = self.seq(eff, self.target(e, None))
            return eff
        if isinstance(t, ast.Starred):
            return self.target(t.value, None)
        if isinstance(t, ast.Attribute) and self.is_self(t.value):
            name = t.attr
            setter = self.prog.resolve(self.K, name, setter=True)
            if setter is not None and self.prog.is_prop(self.K, name):
                return set(self.prog.summary(self.K, setter, self.stack))
            ctr = ()
            if name.startswith("_mut_"):
                ctr = ((name,) + self.counter_op(name, value, aug),)
            return {Path(writes=frozenset([name]), ctr=ctr)}
        # self.f[...] = v, self.f.attr = v, self.graph.es[k] = v, local alias x[...] = v
        root = t
        chain = []
        while isinstance(root, (ast.Subscript, ast.Attribute)):
            if isinstance(root, ast.Attribute):
                if self.is_self(root.value):
                    f = root.attr
                    eff = self.expr_index(t)
                    if chain and chain[-1] in ("silence_level",) or (isinstance(t, ast.Attribute) and t.attr == "silence_level"):
                        return eff      # verbosity of an owned object: output only
                    if f == "graph" and "es" in chain:
                        return self.seq(eff, {Path(writes=frozenset([LA]), inplace=frozenset([LA]))})
                    if f == "graph" and "vs" in chain:
                        return self.seq(eff, {Path(writes=frozenset([NA_]), inplace=frozenset([NA_]))})
                    return self.seq(eff, {Path(writes=frozenset([f]), inplace=frozenset([f]))})
                chain.append(root.attr)
            root = root.value
        if isinstance(root, ast.Name) and root.id in self.aliases:
            f = self.aliases[root.id]
            return self.seq(self.expr_index(t), {Path(writes=frozenset([f]), inplace=frozenset([f]))})
        if isinstance(root, ast.Name) and root.id in self.params and not self.rebound(root.id):
            f = "@param:" + root.id
            return self.seq(self.expr_index(t), {Path(writes=frozenset([f]), inplace=frozenset([f]))})
        return self.expr_index(t)

    def rebound(self, name):
        """parameter re-assigned somewhere in the body (then stores hit the new object, conservatively ignored)"""
        for n in ast.walk(self.mi.node):
            if isinstance(n, ast.Assign) and any(isinstance(t, ast.Name) and t.id == name for t in n.targets):
                return True
        return False

    def arg_target(self, a):
        """what an actual argument expression denotes: field / cached result / own parameter, or None (fresh)"""
        if isinstance(a, ast.Name):
            if a.id in self.aliases:
                return self.aliases[a.id]
            if a.id in self.params and not self.rebound(a.id):
                return "@param:" + a.id
            return None
        f = self.field_of(a)
        if f is not None and not isinstance(a, ast.Call):
            return f
        if isinstance(a, ast.Call):
            d = dotted(a.func)
            if d and self.selfname and d.startswith(self.selfname + "."):
                return "@result:" + d[len(self.selfname) + 1:]
        return None

    def expr_index(self, t):
        eff = {Path()}
        n = t
        while isinstance(n, (ast.Subscript, ast.Attribute)):
            if isinstance(n, ast.Subscript):
                eff = self.seq(eff, self.expr(n.slice))
            n = n.value
        return eff

    def expr_load_target(self, t):
        if isinstance(t, ast.Attribute) and self.is_self(t.value) and t.attr.startswith("_mut_"):
            return {Path()}
        return self.expr(t)

    def counter_op(self, name, value, aug):
        """('inc', k) | ('keep', k) [= getattr(self,name,0)+k] | ('set', const) | ('havoc', 0)"""
        if aug is not None:
            if isinstance(aug, ast.Add) and isinstance(value, ast.Constant) and isinstance(value.value, int):
                return ("inc", value.value)
            return ("havoc", 0)
        k = 0
        v = value
        if isinstance(v, ast.BinOp) and isinstance(v.op, ast.Add) and isinstance(v.right, ast.Constant):
            k = v.right.value
            v = v.left
        if isinstance(v, ast.Call) and dotted(v.func) == "getattr" and len(v.args) >= 2 and \
                isinstance(v.args[1], ast.Constant) and v.args[1].value == name:
            return ("inc", k)       # getattr(self, c, 0) + k : previous value (0 when new) plus k
        if isinstance(v, ast.Attribute) and self.is_self(v.value) and v.attr == name:
            return ("inc", k)
        if isinstance(value, ast.Constant) and isinstance(value.value, int):
            return ("set", value.value)
        return ("havoc", 0)

    # ---- expressions (reads, calls)
    def expr(self, n):
        if n is None:
            return {Path()}
        eff = {Path()}
        for node in self.iter_eval_order(n):
            eff = self.seq(eff, self.atom(node))
            if len(eff) > MAXP:
                eff = compress(eff)
        return eff

    def iter_eval_order(self, n):
        """yield the nodes whose effects matter, children before parents"""
        out = []

        def visit(x):
            if isinstance(x, ast.Lambda):
                visit(x.body)
                return
            if isinstance(x, ast.IfExp):
                tv = self.truth(x.test)
                if tv is True:
                    visit(x.body)
                    return
                if tv is False:
                    visit(x.orelse)
                    return
            for c in ast.iter_child_nodes(x):
                visit(c)
            out.append(x)
        visit(n)
        return out

    def atom(self, n):
        if isinstance(n, ast.Attribute) and isinstance(n.ctx, ast.Load) and self.is_self(n.value):
            name = n.attr
            if self.prog.is_prop(self.K, name):
                g = self.prog.resolve(self.K, name)
                return set(self.prog.summary(self.K, g, self.stack))
            mi = self.prog.resolve(self.K, name)
            if mi is not None:
                return {Path()}     # bound method object; the call is handled at the Call node
            return {Path(reads=frozenset([name]))}
        if isinstance(n, ast.Attribute) and isinstance(n.ctx, ast.Load) and n.attr == "es" and \
                isinstance(n.value, ast.Attribute) and self.is_self(n.value.value) and n.value.attr == "graph":
            return {Path(reads=frozenset([LA]))}
        if isinstance(n, ast.Subscript) and isinstance(n.ctx, ast.Load) and isinstance(n.value, ast.Name) and \
                self.aliases.get(n.value.id) == LA:
            # e[name] on an edge of `for e in self.graph.es` reads a link attribute
            return {Path(reads=frozenset([LA]))}
        if isinstance(n, ast.Call):
            return self.call(n)
        return {Path()}

    def bind_params(self, mi, call, paths):
        """translate the callee's '@param:p' in-place effects to what the actual arguments denote"""
        if not any(x.startswith("@param:") for p in paths for x in p.inplace):
            return paths
        a = mi.node.args
        names = [x.arg for x in a.args][1:] if mi.kind != "static" else [x.arg for x in a.args]
        actual = dict(zip(names, call.args))
        for kw in call.keywords:
            if kw.arg:
                actual[kw.arg] = kw.value
        out = set()
        for p in paths:
            w, ip = set(p.writes), set(p.inplace)
            for x in list(ip):
                if x.startswith("@param:"):
                    ip.discard(x)
                    w.discard(x)
                    tgt = self.arg_target(actual.get(x[7:])) if x[7:] in actual else None
                    if tgt is not None:
                        ip.add(tgt)
                        w.add(tgt)
            out.add(Path(p.reads, frozenset(w), p.ctr, frozenset(ip)))
        return out

    def call(self, n):
        f = n.func
        dn = dotted(f)
        # NumPy `out=<array>`: the callee writes its result into that array (a view of it counts as the array)
        for kw in n.keywords:
            if kw.arg == "out":
                root = kw.value
                while isinstance(root, (ast.Subscript, ast.Attribute)) and self.field_of(root) is None:
                    root = root.value
                tgt = self.arg_target(root)
                if tgt is not None:
                    return {Path(writes=frozenset([tgt]), inplace=frozenset([tgt]))}
        if isinstance(f, ast.Attribute) and f.attr in INPLACE_ARG0 and n.args:
            tgt = self.arg_target(n.args[0])
            if tgt is not None:
                return {Path(writes=frozenset([tgt]), inplace=frozenset([tgt]))}
        # self.m(...)
        if isinstance(f, ast.Attribute) and self.is_self(f.value):
            mi = self.prog.resolve(self.K, f.attr)
            if mi is not None and mi.kind != "getter":
                return self.bind_params(mi, n, set(self.prog.summary(self.K, mi, self.stack, self.none_args(mi, n))))
            return {Path()}
        # Base.m(self, ...)
        if isinstance(f, ast.Attribute) and isinstance(f.value, ast.Name) and f.value.id in self.prog.classes \
                and n.args and self.is_self(n.args[0]):
            base = f.value.id
            mi = None
            for c in self.prog.mro(base):
                ci = self.prog.classes.get(c)
                if ci and f.attr in ci.methods:
                    mi = ci.methods[f.attr]
                    break
            if mi is not None:
                # static dispatch to Base.m but `self` stays an instance of K
                an = Analyzer(self.prog, self.K, mi, self.stack + ((self.K, mi.qual + "@static"),))
                if (self.K, mi.qual + "@static") in self.stack:
                    return {Path()}
                return set(an.run())
            return {Path()}
        # super().m(...)
        if isinstance(f, ast.Attribute) and isinstance(f.value, ast.Call) and dotted(f.value.func) == "super":
            mi = self.prog.resolve(self.K, f.attr, after=self.mi.cls)
            if mi is not None:
                an = Analyzer(self.prog, self.K, mi, self.stack + ((self.K, mi.qual + "@super"),))
                return set(an.run())
            return {Path()}
        # getattr(self, name)
        if dn == "getattr" and n.args and self.is_self(n.args[0]) and len(n.args) >= 2:
            a = n.args[1]
            if isinstance(a, ast.Constant) and isinstance(a.value, str):
                if self.prog.resolve(self.K, a.value) is not None:
                    mi = self.prog.resolve(self.K, a.value)
                    return set(self.prog.summary(self.K, mi, self.stack)) if mi.kind == "getter" else {Path()}
                return {Path(reads=frozenset([a.value]))}
            pre, suf = "", ""
            if isinstance(a, ast.JoinedStr):
                consts = [v.value for v in a.values if isinstance(v, ast.Constant)]
                if a.values and isinstance(a.values[0], ast.Constant):
                    pre = a.values[0].value
                if a.values and isinstance(a.values[-1], ast.Constant):
                    suf = a.values[-1].value
            eff = set()
            for mi in self.prog.all_methods(self.K):
                if mi.name.startswith(pre) and mi.name.endswith(suf) and (pre or suf) and not mi.name.startswith("__"):
                    eff |= set(self.prog.summary(self.K, mi, self.stack))
            return compress(eff) if eff else {Path(reads=frozenset(["@dynamic-getattr"]))}
        # in-place mutation of a field / alias through a method or NumPy function
        if isinstance(f, ast.Attribute) and f.attr in INPLACE_METHODS:
            fld = self.field_of(f.value)
            if fld is None and isinstance(f.value, ast.Name) and f.value.id in self.aliases:
                fld = self.aliases[f.value.id]
            if fld is not None:
                return {Path(writes=frozenset([fld]), inplace=frozenset([fld]))}
        if dn in INPLACE_FUNCS and n.args:
            fld = self.field_of(n.args[0])
            root = n.args[0]
            while isinstance(root, (ast.Subscript, ast.Attribute)):     # a view of an alias: x[:, i], x.T, x.flat
                root = root.value
            if fld is None and isinstance(root, ast.Name) and root.id in self.aliases:
                fld = self.aliases[root.id]
            if fld is not None:
                return {Path(writes=frozenset([fld]), inplace=frozenset([fld]))}
        # self.graph.<method>(..., weights=...) reads link attributes
        if isinstance(f, ast.Attribute) and isinstance(f.value, ast.Attribute) and self.is_self(f.value.value) \
                and f.value.attr == "graph":
            if any(k.arg in ("weights", "weight") for k in n.keywords):
                return {Path(reads=frozenset([LA]))}
        return {Path()}
