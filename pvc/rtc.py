"""Run-time contract check of the compiled kernels (bounded; never counted as proved).

For a kernel contract (the same `requires` / `defs` / `ensures` strings the VC generator proves from)
this module
  1. generates concrete inputs satisfying `requires`: the requires are turned into z3 formulas by the VC
     generator's own spec evaluator, quantifiers are expanded over a small scope and z3 models (with random
     element preferences) are read back as NumPy arrays / scalars,
  2. calls the REAL compiled function from the scratch build of the current tree in a separate interpreter
     (a crash of the kernel is a reported outcome, not a crash of the checker),
  3. evaluates every `ensures` clause on the real inputs/outputs with a CPython evaluator of the spec language
     (spec strings are Python expressions: all()/any() over range() generators run natively; ghost functions
     are evaluated by matching the recursive equations of `defs`; float equalities use a relative tolerance).
It is (a) the replay of deductive refutations on the real code: a refuted postcondition gets a concrete failing
input whenever one exists in the searched scope, and (b) a CPython cross-check of the VC generator: on the
unchanged tree every proved postcondition must also hold at run time.
"""
import ast
import math
import os
import pickle
import random
import subprocess
import sys
import tempfile
import time

import numpy as np
import z3

from . import symex, build
from .front_cy import INT_TYPES, FLOAT_TYPES

NP_OF = {
    "bint": "int32", "int": "int32", "long": "int64", "long int": "int64", "unsigned int": "uint32", "short": "int16",
    "char": "int8", "signed char": "int8", "Py_ssize_t": "int64", "size_t": "uint64",
    "BOOLTYPE_t": "int8", "INT8TYPE_t": "int8", "INT16TYPE_t": "int16", "INT32TYPE_t": "int32", "INT64TYPE_t": "int64",
    "ADJ_t": "int8", "MASK_t": "int8", "LAG_t": "int8", "DEGREE_t": "int16", "NODE_t": "int32",
    "float": "float32", "double": "float64", "FLOAT32TYPE_t": "float32", "FLOAT64TYPE_t": "float64",
    "WEIGHT_t": "float32", "DWEIGHT_t": "float64", "FIELD_t": "float32", "DFIELD_t": "float64",
}


class Skip(Exception):
    """The clause cannot be evaluated at run time (ghost state of the proof, not of the execution)."""


# ---------------------------------------------------------------- input generation

def _num(v):
    if z3.is_int_value(v):
        return v.as_long()
    if z3.is_rational_value(v):
        return float(v.numerator_as_long()) / float(v.denominator_as_long())
    if z3.is_algebraic_value(v):
        return float(v.approx(20).numerator_as_long()) / float(v.approx(20).denominator_as_long())
    if z3.is_true(v):
        return 1
    if z3.is_false(v):
        return 0
    raise Skip(f"model value {v}")


FLOAT_POOL = [0.0, 1.0, -1.0, 0.5, 2.0, 3.0, -2.5, 0.25, 1.5, 4.0, -0.75, 7.0]


def gen_inputs(f, contract, module, count=12, scope=3, seed=0, timeout_ms=4000):
    """-> list of {param: python value}; empty when the requires cannot be solved in the scope."""
    import copy
    c = copy.copy(contract)
    c.float_mode = "R"
    ex = symex.Exec(f, c, module, {})
    fparams = list(f.params)
    if c.py_mode:
        # Python region: the symbolic inputs are the typed names of the contract (self.<attr>, parameters, ghost inputs)
        from .front_cy import T as _T, scalar_type as _st
        fparams = []
        for nm, kind in c.inputs.items():
            v = ex.make_input(nm, kind)
            ex.vars[nm] = v
            if v.k == "arr":
                fparams.append((nm, _T("arr", elem=v.t.elem, ndim=v.t.ndim)))
            elif v.k == "int":
                fparams.append((nm, _st("long")))
            elif v.k == "float":
                fparams.append((nm, _st("double")))
            else:
                raise Skip(f"input {nm} of kind {kind}")
    else:
        ex.setup_params()
    ex.entry_vars = dict(ex.vars)
    ex.entry_heap = dict(ex.heap)
    facts = list(ex.facts)
    for r in c.requires:
        facts.append(ex.spec(r))
    rng = random.Random(seed)
    out, seen = [], set()
    params = [(pn, pt) for pn, pt in fparams if pn not in c.bind]
    arrs = [(pn, ex.vars[pn].t) for pn, pt in params if pt.kind == "arr"]
    tries = 0
    while len(out) < count and tries < count * 4:
        tries += 1
        S = max(scope if tries % 3 else scope + 1, getattr(c, 'rtc_scope', 0))
        dom = list(range(-1, S + 2))
        cache = {}
        body = symex._expand(z3.And(*facts), dom, cache)
        s = z3.Solver()
        s.set("timeout", timeout_ms)
        s.set("random_seed", rng.randrange(1 << 20))
        s.add(body)
        consts = {}
        symex._int_consts(body, consts, set())
        for k in consts.values():
            s.add(k >= -1, k <= S + 1)
        for pn, a in arrs:
            for d in a.shape:
                s.add(d >= 0, d <= S)
        # random preferences: shapes / scalars first, then element values
        prefs = []
        hints = list(getattr(c, "rtc_prefs", ()))
        if hints and rng.random() < 0.4:
            hints.pop(rng.randrange(len(hints)))
        if True:
            for h in hints:
                try:
                    prefs.append(symex._expand(ex.spec(h), dom, cache))
                except Exception:
                    pass
        for pn, a in arrs:
            for d in a.shape:
                prefs.append(d == rng.choice([S, S, S - 1, 1, 0] if S > 1 else [1, 0]))
        for pn, pt in params:
            if pt.kind == "int":
                prefs.append(ex.vars[pn].t == rng.choice(dom[1:]))
            elif pt.kind == "float":
                prefs.append(ex.vars[pn].t == z3.RealVal(repr(rng.choice(FLOAT_POOL))))
        eprefs = []
        # most cases draw the float elements from a pool of three values: ties and equal neighbours are frequent
        fpool = rng.sample(FLOAT_POOL, 3) if rng.random() < 0.7 else FLOAT_POOL
        for pn, a in arrs:
            isf = a.elem is not None and a.elem.kind == "float"
            for idx in _indices([S] * a.ndim):
                t = ex.heap[a.id]
                for i in idx:
                    t = z3.Select(t, i)
                if isf:
                    eprefs.append(t == z3.RealVal(repr(rng.choice(fpool))))
                else:
                    eprefs.append(t == rng.choice([0, 1, 0, 1, 2, S, -1]))
        rng.shuffle(eprefs)
        m = None
        if s.check() == z3.sat:
            # every preference is soft: keep it when the requires stay satisfiable with it (greedy, shapes first)
            t_pref = time.time()
            for e in prefs + eprefs:
                if time.time() - t_pref > 6:
                    break
                s.push()
                s.add(e)
                if s.check() == z3.sat:
                    s.pop()
                    s.add(e)
                else:
                    s.pop()
            if s.check() == z3.sat:
                m = s.model()
        if m is None:
            continue
        try:
            inp = _read_inputs(ex, f, c, m, params, fparams)
        except Skip:
            continue
        key = repr(sorted((k, (v.tolist() if isinstance(v, np.ndarray) else v)) for k, v in inp.items()))
        if key in seen:
            continue
        seen.add(key)
        out.append(inp)
    return out


def _indices(shape):
    import itertools
    return list(itertools.product(*[range(n) for n in shape]))


def _read_inputs(ex, f, c, m, params, fparams=None):
    inp = {}
    for pn, pt in (fparams if fparams is not None else f.params):
        if pn in c.bind:
            inp[pn] = c.bind[pn] if not callable(c.bind[pn]) else None
            continue
        v = ex.vars[pn]
        if pn in getattr(c, "lists3", ()):
            ev_ = lambda t: int(_num(m.eval(t, model_completion=True)))     # noqa
            n1 = max(0, min(ev_(ex.entry_heap[(v.t.id, "len")]), 6))
            out3 = []
            for i1 in range(n1):
                n2 = max(0, min(ev_(z3.Select(ex.entry_heap[(v.t.id, "len2")], i1)), 6))
                row = []
                for a1 in range(n2):
                    n3 = max(0, min(ev_(z3.Select(z3.Select(ex.entry_heap[(v.t.id, "ilen3")], i1), a1)), 6))
                    row.append([ev_(z3.Select(z3.Select(z3.Select(ex.entry_heap[(v.t.id, "elems3")], i1), a1), b1)) for b1 in range(n3)])
                out3.append(row)
            inp[pn] = out3
            continue
        if pn in getattr(c, "lists", ()):
            n_outer = max(0, _num(m.eval(ex.entry_heap[(v.t.id, "len")], model_completion=True)))
            lst = []
            for jj in range(n_outer):
                il = _num(m.eval(z3.Select(ex.entry_heap[(v.t.id, "ilen")], jj), model_completion=True))
                il = max(0, min(int(il), 8))
                lst.append([int(_num(m.eval(z3.Select(z3.Select(ex.entry_heap[(v.t.id, "elems")], jj), pp), model_completion=True)))
                            for pp in range(il)])
            inp[pn] = lst
            continue
        if pt.kind == "arr":
            a = v.t
            shape = [max(0, _num(m.eval(d, model_completion=True))) for d in a.shape]
            dt = NP_OF.get(a.elem.name if a.elem is not None else "", None)
            if dt is None:
                raise Skip(f"element type of {pn}")
            arr = np.zeros(shape, dtype=dt)
            nanh = ex.heap.get((a.id, "nan"))
            for idx in _indices(shape):
                t = ex.entry_heap[a.id]
                for i in idx:
                    t = z3.Select(t, i)
                val = _num(m.eval(t, model_completion=True))
                if nanh is not None:
                    nt = nanh
                    for i in idx:
                        nt = z3.Select(nt, i)
                    if z3.is_true(m.eval(nt, model_completion=True)):
                        val = float("nan")
                if arr.dtype.kind in "iu":
                    info = np.iinfo(arr.dtype)
                    if not (info.min <= val <= info.max):
                        raise Skip("value outside dtype")
                arr[idx] = val
            inp[pn] = arr
        elif pt.kind == "int":
            inp[pn] = int(_num(m.eval(v.t, model_completion=True)))
        elif pt.kind == "float":
            inp[pn] = float(_num(m.eval(v.t, model_completion=True)))
        elif pt.kind == "bool":
            inp[pn] = bool(z3.is_true(m.eval(v.t, model_completion=True)))
        else:
            raise Skip(f"parameter {pn} of kind {pt.kind}")
    return inp


# ---------------------------------------------------------------- calling the real code

_CALLER = r'''
import pickle, sys, copy, traceback
import numpy as np
mod, fn, inp_path, out_path = sys.argv[1:5]
start = int(sys.argv[5]) if len(sys.argv) > 5 else 0
import importlib
M = importlib.import_module(mod)
F = getattr(M, fn, None)
cases = pickle.load(open(inp_path, "rb"))
res = []
if F is None:
    pickle.dump({"missing": True}, open(out_path, "wb")); sys.exit(0)
for order, inp in cases[start:]:
    args = [copy.deepcopy(inp[p]) for p in order]
    try:
        np.random.seed(12345)
        r = F(*args)
        res.append({"ok": True, "result": r, "after": dict(zip(order, args))})
    except BaseException as e:
        res.append({"ok": False, "error": f"{type(e).__name__}: {e}"})
    pickle.dump({"missing": False, "res": res}, open(out_path + ".tmp", "wb"))
    import os
    os.replace(out_path + ".tmp", out_path)
'''


def call_real(src_dir, module, func, order, cases, per_case_s=2.5, max_hang=5):
    """Run `pyunicorn.<module>._ext.numerics.<func>` on every case in a fresh interpreter.  A case that does not
    return within `per_case_s` is recorded as {"ok": None} (termination is not part of any contract) and the
    interpreter is restarted behind it."""
    res, missing, rc, err = [], False, 0, ""
    with tempfile.TemporaryDirectory(prefix="pvc-rtc-") as d:
        ip, op, sp = os.path.join(d, "in.pkl"), os.path.join(d, "out.pkl"), os.path.join(d, "caller.py")
        pickle.dump([(order, c) for c in cases], open(ip, "wb"))
        open(sp, "w").write(_CALLER)
        env = dict(os.environ, PYTHONPATH=src_dir, OMP_NUM_THREADS="1", OPENBLAS_NUM_THREADS="1")
        restarts = hangs = 0
        while len(res) < len(cases) and not missing and restarts <= len(cases):
            start = len(res)
            if os.path.exists(op):
                os.unlink(op)
            p = subprocess.Popen(["/venv/bin/python", sp, f"pyunicorn.{module}._ext.numerics", func, ip, op, str(start)],
                                 stdout=subprocess.DEVNULL, stderr=subprocess.PIPE, text=True, env=env)
            done, last, t_last = 0, 0, time.time()
            t_begin = time.time()
            while True:
                try:
                    p.wait(timeout=0.25)
                    ended = True
                except subprocess.TimeoutExpired:
                    ended = False
                cur = None
                if os.path.exists(op):
                    try:
                        cur = pickle.load(open(op, "rb"))
                    except Exception:
                        cur = None
                if cur is not None:
                    if cur.get("missing"):
                        missing = True
                    done = len(cur.get("res", []))
                    if done > last:
                        last, t_last = done, time.time()
                if ended:
                    break
                # allow for interpreter start-up before the first case
                budget = per_case_s + (8.0 if done == 0 else 0.0)
                if time.time() - t_last > budget:
                    p.kill()
                    p.wait()
                    break
            part = cur.get("res", []) if cur else []
            res.extend(part)
            if missing:
                break
            if len(res) < len(cases):
                if p.returncode is not None and p.returncode >= 0 and ended and p.returncode == 0:
                    break       # finished normally but short: should not happen
                if ended:
                    rc = p.returncode
                    try:
                        err = p.stderr.read()[-600:]
                    except Exception:
                        err = ""
                    res.append({"ok": False, "crash": True, "error": f"interpreter died (rc={rc}): {err[-300:]}"})
                else:
                    res.append({"ok": None, "error": f"no return within {per_case_s}s"})
                    hangs += 1
                    if hangs >= max_hang:
                        while len(res) < len(cases):
                            res.append({"ok": None, "error": "not run (earlier cases did not return)"})
                restarts += 1
    return {"missing": missing, "res": res, "rc": rc, "stderr": err}


# ---------------------------------------------------------------- CPython evaluator of the spec language

class _EqRewrite(ast.NodeTransformer):
    def visit_Compare(self, n):
        self.generic_visit(n)
        parts, left = [], n.left
        for op, right in zip(n.ops, n.comparators):
            if isinstance(op, ast.Eq):
                parts.append(ast.Call(ast.Name("_eq", ast.Load()), [left, right], []))
            elif isinstance(op, ast.NotEq):
                parts.append(ast.UnaryOp(ast.Not(), ast.Call(ast.Name("_eq", ast.Load()), [left, right], [])))
            else:
                parts.append(ast.Compare(left, [op], [right]))
            left = right
        return parts[0] if len(parts) == 1 else ast.BoolOp(ast.And(), parts)

    def visit_Call(self, n):
        self.generic_visit(n)
        # the spec connectives are lazy (a false antecedent / an untaken branch is never evaluated)
        if isinstance(n.func, ast.Name) and n.func.id == "implies" and len(n.args) == 2:
            return ast.BoolOp(ast.Or(), [ast.UnaryOp(ast.Not(), n.args[0]), n.args[1]])
        if isinstance(n.func, ast.Name) and n.func.id == "ite" and len(n.args) == 3:
            return ast.IfExp(n.args[0], n.args[1], n.args[2])
        return n

    def visit_BinOp(self, n):
        self.generic_visit(n)
        if isinstance(n.op, ast.Div):      # the spec's `/` is real division with C semantics for zero (no exception)
            return ast.Call(ast.Name("_div", ast.Load()), [n.left, n.right], [])
        return n


def _isfloat(x):
    return isinstance(x, (float, np.floating))


class SpecEval:
    def __init__(self, contract, inputs, after, result, tol=2e-4):
        self.c, self.tol = contract, tol
        self.pre = dict(inputs)
        self.post = dict(inputs)
        self.post.update(after)
        self.post["result"] = result
        self.env = self.post
        self.memo = {}
        self.eqs = self._parse_defs()

    # -- helpers visible to the spec
    def _eq(self, a, b):
        if isinstance(a, (tuple, list)) or isinstance(b, (tuple, list)):
            return tuple(a) == tuple(b)
        if _isfloat(a) or _isfloat(b):
            a, b = float(a), float(b)
            if math.isnan(a) or math.isnan(b):
                return False
            if math.isinf(a) or math.isinf(b):
                return a == b
            return abs(a - b) <= self.tol * max(1.0, abs(a), abs(b))
        return a == b

    @staticmethod
    def _div(a, b):
        a, b = float(a), float(b)
        if b == 0.0:
            return float("nan") if a == 0.0 or math.isnan(a) else math.copysign(float("inf"), a) * (1 if math.copysign(1, b) > 0 else -1)
        return a / b

    def namespace(self, env, extra=None):
        def shape(x, d):
            return int(np.shape(x)[d])

        def old(x):
            raise Skip("old() handled syntactically")
        ns = {
            "_eq": self._eq, "_div": self._div, "implies": lambda a, b: (not a) or b, "iff": lambda a, b: bool(a) == bool(b),
            "ite": lambda c, a, b: a if c else b, "shape": shape, "real": float, "abs": abs, "min": min, "max": max,
            "sqrt": lambda x: math.sqrt(x) if x >= 0 else float("nan"), "isnan": lambda x: _isfloat(x) and math.isnan(x),
            "all": all, "any": any, "range": range, "len": len, "int": int, "float": float, "True": True, "False": False,
            "extent": lambda x: int(np.size(x)), "contiguous": lambda x: bool(x.flags["C_CONTIGUOUS"]),
            "fsum": lambda f, n: sum(f(i) for i in range(int(n))),
            "lastnz": lambda f, n: max([i for i in range(int(n)) if f(i) != 0], default=-1),
            "log": lambda x: math.log(x) if x > 0 else float("nan"),
            "amax": lambda a: float(np.max(a)),
            "rowsum": lambda A, a: int(np.asarray(A)[a].sum()), "mult": lambda L, j, k: list(L[j]).count(k),
            "ilen": lambda L, j: len(L[j]), "item": lambda L, j, p_: L[j][p_],
            "len2": lambda L, i: len(L[i]), "ilen3": lambda L, i, a: len(L[i][a]), "item3": lambda L, i, a, b: L[i][a][b], "floor": math.floor, "fabs": abs, "INT32": 2147483647,
        }
        for g in list(self.c.ghost) + list(getattr(self.c, "rtc_ghost", {}) or {}):
            ns[g] = (lambda name: (lambda *a: self.ghost(name, a)))(g)
        ns.update(env)
        if extra:
            ns.update(extra)
        return ns

    def _compile(self, tree):
        tree = _OldRewrite().visit(tree)
        tree = _EqRewrite().visit(tree)
        ast.fix_missing_locations(tree)
        return compile(ast.Expression(tree), "<spec>", "eval")

    def eval_text(self, text, extra=None):
        tree = ast.parse(text.strip(), mode="eval").body
        for n in ast.walk(tree):
            if isinstance(n, ast.Call) and isinstance(n.func, ast.Name) and n.func.id in ("count", "at_loop", "unchanged", "offset",
                                                                                          "same_array"):
                raise Skip(f"{n.func.id}() is proof state")
        code = self._compile(tree)
        ns = self.namespace(self.post, extra)
        ns["_old"] = lambda name: self.pre[name]
        return eval(code, ns)

    def _gh(self):
        return set(self.c.ghost) | set(getattr(self.c, "rtc_ghost", {}) or {})

    # -- ghost functions from defs
    def _parse_defs(self):
        eqs = {}
        for d in list(self.c.defs) + list(getattr(self.c, "rtc_defs", ())) + list(self.c.requires):
            tree = ast.parse(d.strip(), mode="eval").body
            self._collect(tree, [], eqs)
        return eqs

    def _collect(self, n, gens, eqs):
        if isinstance(n, ast.Call) and isinstance(n.func, ast.Name) and n.func.id == "all" and n.args and \
                isinstance(n.args[0], ast.GeneratorExp):
            g = n.args[0]
            self._collect(g.elt, gens + list(g.generators), eqs)
            return
        if isinstance(n, ast.BoolOp) and isinstance(n.op, ast.And):
            for v in n.values:
                self._collect(v, gens, eqs)
            return
        if isinstance(n, ast.Call) and isinstance(n.func, ast.Name) and n.func.id == "implies":
            # implies(cond, eq): equation under a condition
            sub = {}
            self._collect(n.args[1], gens, sub)
            for k, lst in sub.items():
                for (lhs, rhs, gg, conds) in lst:
                    eqs.setdefault(k, []).append((lhs, rhs, gg, conds + [n.args[0]]))
            return
        if isinstance(n, ast.Call) and isinstance(n.func, ast.Name) and n.func.id == "iff" and \
                isinstance(n.args[0], ast.Call) and isinstance(n.args[0].func, ast.Name) and n.args[0].func.id in self._gh():
            eqs.setdefault(n.args[0].func.id, []).append((n.args[0], n.args[1], gens, []))
            return
        if isinstance(n, ast.Compare) and len(n.ops) == 1 and isinstance(n.ops[0], ast.Eq):
            l, r = n.left, n.comparators[0]
            if isinstance(l, ast.Call) and isinstance(l.func, ast.Name) and l.func.id in self._gh():
                eqs.setdefault(l.func.id, []).append((l, r, gens, []))
                return
            if isinstance(r, ast.Call) and isinstance(r.func, ast.Name) and r.func.id in self._gh():
                eqs.setdefault(r.func.id, []).append((r, l, gens, []))
                return
        # anything else in defs (bounds facts about ghosts etc.) is not a definition; ignored by the evaluator

    def ghost(self, name, args):
        args = tuple(int(a) if isinstance(a, (bool, np.integer)) else a for a in args)
        key = (name, args)
        if key in self.memo:
            v = self.memo[key]
            if v is _BUSY:
                raise Skip(f"cyclic ghost definition {name}{args}")
            return v
        self.memo[key] = _BUSY
        try:
            for lhs, rhs, gens, conds in self.eqs.get(name, []):
                b = self._match(lhs.args, args, gens)
                if b is None:
                    continue
                ns = self.namespace(self.pre, b)
                ns["_old"] = lambda nm: self.pre[nm]
                if not all(eval(self._compile(c), ns) for c in conds):
                    continue
                v = eval(self._compile(rhs), ns)
                self.memo[key] = v
                return v
        except BaseException:
            self.memo.pop(key, None)
            raise
        self.memo.pop(key, None)
        raise Skip(f"no defining equation matches {name}{args}")

    def _match(self, pats, vals, gens):
        if len(pats) != len(vals):
            return None
        b = {}
        pend = []
        for p, v in zip(pats, vals):
            if isinstance(p, ast.Name) and any(isinstance(g.target, ast.Name) and g.target.id == p.id for g in gens):
                if p.id in b and b[p.id] != v:
                    return None
                b[p.id] = v
            else:
                pend.append((p, v))
        # patterns var+const / var-const with an unbound generator variable
        for p, v in list(pend):
            gv = {g.target.id for g in gens if isinstance(g.target, ast.Name)}
            if isinstance(p, ast.BinOp) and isinstance(p.op, (ast.Add, ast.Sub)) and isinstance(p.left, ast.Name) and \
                    p.left.id not in b and p.left.id in gv and \
                    not any(isinstance(x, ast.Name) and x.id in gv for x in ast.walk(p.right)):
                try:
                    ns0 = self.namespace(self.pre)
                    ns0["_old"] = lambda nm: self.pre[nm]
                    off = eval(self._compile(p.right), ns0)
                except Exception:
                    continue
                b[p.left.id] = v - off if isinstance(p.op, ast.Add) else v + off
                pend.remove((p, v))
        ns = self.namespace(self.pre, b)
        ns["_old"] = lambda nm: self.pre[nm]
        for p, v in pend:
            try:
                if eval(self._compile(p), ns) != v:
                    return None
            except NameError:
                return None
        # generator domains
        for g in gens:
            if not isinstance(g.target, ast.Name):
                return None
            if g.target.id not in b:
                continue        # variable not used on the left-hand side: irrelevant for this equation
            ns = self.namespace(self.pre, b)
            ns["_old"] = lambda nm: self.pre[nm]
            try:
                dom = eval(self._compile(g.iter), ns)
                if b[g.target.id] not in dom:
                    return None
                for c in g.ifs:
                    if not eval(self._compile(c), ns):
                        return None
            except NameError:
                return None
        return b


_BUSY = object()


class _OldRewrite(ast.NodeTransformer):
    """old(e): evaluate e with every parameter name replaced by its entry value."""

    def visit_Call(self, n):
        if isinstance(n.func, ast.Name) and n.func.id == "old":
            return _InOld().visit(n.args[0])
        self.generic_visit(n)
        return n


class _InOld(ast.NodeTransformer):
    def visit_Name(self, n):
        return ast.Call(ast.Name("_oldv", ast.Load()), [ast.Constant(n.id), n], [])


def check_case(contract, inputs, after, result, only_frame=False):
    """-> list of (clause, 'holds' | 'violated' | 'skipped', detail)"""
    ev = SpecEval(contract, inputs, after, result)
    out = []
    for pn, before in inputs.items():
        if isinstance(before, np.ndarray) and pn not in (contract.modifies or ()) and pn in after:
            same = np.array_equal(before, after[pn], equal_nan=(before.dtype.kind == "f"))
            out.append((f"(frame) array parameter {pn} is not written", "holds" if same else "violated",
                        "" if same else f"{pn} before {before.tolist()} after {np.asarray(after[pn]).tolist()}"))
    for e in ([] if only_frame else list(contract.ensures) + list(getattr(contract, "rtc_ensures", ()))):
        try:
            extra = {"_oldv": lambda name, cur: ev.pre[name] if name in ev.pre else cur}
            ok = ev.eval_text(e, extra)
            out.append((e, "holds" if ok else "violated", ""))
        except Skip as s:
            out.append((e, "skipped", str(s)))
        except RecursionError:
            out.append((e, "skipped", "recursion depth"))
        except (IndexError, KeyError, TypeError, ValueError, ZeroDivisionError, OverflowError) as x:
            out.append((e, "violated", f"{type(x).__name__}: {x}"))
    return out


# ---------------------------------------------------------------- driver

def jsonable(v):
    if isinstance(v, np.ndarray):
        return {"dtype": str(v.dtype), "shape": list(v.shape), "data": [None if (isinstance(x, float) and math.isnan(x)) else x
                                                                        for x in v.ravel().tolist()]}
    if isinstance(v, (np.integer,)):
        return int(v)
    if isinstance(v, (np.floating,)):
        return float(v)
    if isinstance(v, (tuple, list)):
        return [jsonable(x) for x in v]
    if isinstance(v, float) and math.isnan(v):
        return None
    return v if isinstance(v, (int, float, str, bool, type(None))) else repr(v)


def run_rtc(job, src_dir, count=12, seed=0, extra_inputs=()):
    """-> dict(tag, cases, evaluated, holds, violated:[...], skipped:{clause: reason}, error)"""
    from .runner import load_module
    t0 = time.time()
    out = {"tag": job.tag, "func": job.func, "cases": 0, "evaluated": 0, "holds": 0, "violated": [], "skipped": {},
           "error": None, "inapplicable": None}
    try:
        m = load_module(job.module, job.lang)
        f = m["funcs"].get(job.func)
        if f is None:
            out["inapplicable"] = f"function {job.func} not found"
            return out
        cases = list(extra_inputs) + gen_inputs(f, job.contract, m, count=count, seed=seed)
        if not cases:
            out["inapplicable"] = "no input satisfying the requires found in the small scope"
            return out
        if getattr(job, "only_kinds", None):
            # frame-only run (C06): the frame must hold for every input, also outside the arithmetic assumptions of
            # the functional contract - add variants with NaN / inf samples in the float arrays
            rng = random.Random(seed + 7)
            extra = []
            for c0 in cases[:3]:
                for special in (float("nan"), float("inf")):
                    c1 = {k: (v.copy() if isinstance(v, np.ndarray) else v) for k, v in c0.items()}
                    hit = False
                    for k, v in c1.items():
                        if isinstance(v, np.ndarray) and v.dtype.kind == "f" and v.size:
                            v.flat[rng.randrange(v.size)] = special
                            hit = True
                    if hit:
                        extra.append(c1)
            cases = cases + extra
        order = [pn for pn, _ in f.params]
        got = call_real(src_dir, job.module, job.func, order, cases,
                        **({"per_case_s": 1.5, "max_hang": 2} if getattr(job, "only_kinds", None) else {}))
        if got.get("missing"):
            out["inapplicable"] = "not callable from Python (cdef)"
            return out
        res = got.get("res", [])
        out["cases"] = len(cases)
        out["nonterminating"] = 0
        out["raised"] = {}
        for inp, r in zip(cases, res):
            if r["ok"] is None:
                out["nonterminating"] += 1
                continue
            if not r["ok"]:
                kind = r["error"].split(":")[0]
                allowed = not r.get("crash") and not (
                    (kind == "ZeroDivisionError" and "divzero" in job.contract.checks) or
                    (kind == "IndexError" and "bounds" in job.contract.checks) or
                    (kind == "OverflowError" and ("overflow" in job.contract.checks or "narrow" in job.contract.checks)))
                if allowed:
                    # contracts are partial-correctness statements: an exception the contract does not exclude
                    out["raised"][kind] = out["raised"].get(kind, 0) + 1
                    continue
                out["violated"].append({"clause": "(call) no " + kind + " under the requires (proved obligation family: "
                                        + ("divzero" if kind == "ZeroDivisionError" else "bounds" if kind == "IndexError" else "memory safety") + ")",
                                        "detail": r["error"], "inputs": {k: jsonable(v) for k, v in inp.items()}})
                continue
            for clause, st, detail in check_case(job.contract, inp, r["after"], r["result"],
                                                 only_frame=bool(getattr(job, "only_kinds", None))):
                if st == "skipped":
                    out["skipped"][clause] = detail
                    continue
                out["evaluated"] += 1
                if st == "holds":
                    out["holds"] += 1
                else:
                    out["violated"].append({"clause": clause, "detail": detail,
                                            "inputs": {k: jsonable(v) for k, v in inp.items()},
                                            "result": jsonable(r["result"]),
                                            "after": {k: jsonable(v) for k, v in r["after"].items()
                                                      if isinstance(v, np.ndarray)}})
    except Skip as s:
        out["inapplicable"] = str(s)
    except symex.Undecidable as s:
        out["inapplicable"] = f"outside the encodable subset: {s}"
    except Exception:
        import traceback
        out["error"] = traceback.format_exc()[-1500:]
    out["wall"] = round(time.time() - t0, 2)
    return out


def unjson(v):
    if isinstance(v, dict) and "dtype" in v and "shape" in v:
        data = [float("nan") if x is None else x for x in v["data"]]
        return np.array(data, dtype=v["dtype"]).reshape(v["shape"])
    return v


def _rtc_worker(args):
    job, src_dir, count, seed, extra = args
    from . import npvec  # noqa: F401
    if job.lang == "py":
        return run_rtc_py(job, src_dir, count=count, seed=seed, extra_inputs=extra)
    return run_rtc(job, src_dir, count=count, seed=seed, extra_inputs=extra)


def run_layer(jobs, src_dir, tier="quick", seed=0, workers=10, only=None, extra=None):
    """Run-time contract check of every Cython kernel job with a postcondition.  -> list of run_rtc results"""
    from concurrent.futures import ProcessPoolExecutor
    sel = [j for j in jobs if ((j.lang == "cy" and (j.contract.ensures or getattr(j.contract, "rtc_ensures", None)
                                                     or getattr(j, "only_kinds", None))) or
                               (j.lang == "py" and (getattr(j.contract, "vectors", False) or getattr(j.contract, "rtc_py", False))
                                and j.contract.ensures))
           and (only is None or j.tag in only)]
    if not sel:
        return []
    count = 16 if tier == "quick" else 96
    tasks = [(j, src_dir, (max(4, count // 2) if getattr(j, "only_kinds", None) else count), seed, (extra or {}).get(j.tag, ()))
             for j in sel]
    if len(tasks) == 1:
        return [_rtc_worker(tasks[0])]
    with ProcessPoolExecutor(max_workers=min(workers, len(tasks))) as ex:
        return list(ex.map(_rtc_worker, tasks))


# ---------------------------------------------------------------- Python regions with a stub object (formula contracts)

_CALLER_PY = r'''
import pickle, sys, copy, re, inspect, importlib
import numpy as np
mod, cls, meth, inp_path, out_path = sys.argv[1:6]
M = importlib.import_module(mod)
C = getattr(M, cls)
F = getattr(C, meth)
if hasattr(F, "cache_info") and hasattr(F, "__wrapped__"):
    F = F.__wrapped__       # the region under contract is the method body; the memoising wrapper is the subject of C01
cases = pickle.load(open(inp_path, "rb"))
res = []
class _Bare(C):
    """bare instance: attributes the region does not model get harmless defaults"""
    def __getattr__(self, name):
        if name == "silence_level":
            return 3
        if name.startswith("_mut_"):
            return 0
        raise AttributeError(name)


class _NS:
    pass


for inp, stubs, bind in cases:
    held = {k: copy.deepcopy(v) for k, v in inp.items() if k.startswith("self.")}
    # a typed input that is a property of the class (Network.adjacency ...) is shadowed by a plain class attribute of a
    # per-case subclass: the region reads the value, the property's own code is not part of the region
    shadow = {k[5:]: v for k, v in held.items() if isinstance(inspect.getattr_static(C, k[5:], None), property)}
    obj = C.__new__(type("_BareCase", (_Bare,), shadow) if shadow else _Bare)
    for k, v in held.items():
        if k[5:] not in shadow:
            object.__setattr__(obj, k[5:], v)
    for mname, src in stubs.items():
        fn_ = (lambda a: (lambda *x, **y: a.copy()))(inp[src])
        if "." in mname:            # self.<component>.<method>(): a stand-in component object carrying the stub
            comp, meth_ = mname.split(".", 1)
            holder = getattr(obj, comp, None) if comp in vars(obj) else None
            if holder is None:
                holder = _NS()
                object.__setattr__(obj, comp, holder)
            setattr(holder, meth_, fn_)
        else:
            object.__setattr__(obj, mname, fn_)
    kwargs = {}
    is_static = isinstance(inspect.getattr_static(C, meth), staticmethod)
    for pn in list(inspect.signature(F).parameters)[(0 if is_static else 1):]:
        if pn in inp:
            kwargs[pn] = copy.deepcopy(inp[pn])
        elif pn in bind:
            kwargs[pn] = bind[pn]
    try:
        with np.errstate(all="ignore"):
            r = F(**kwargs) if is_static else F(obj, **kwargs)
        # contents of the array OBJECTS that were handed in (a field rebound to another array is not a write)
        after = {k: v for k, v in held.items() if isinstance(v, np.ndarray)}
        after.update({k: v for k, v in kwargs.items() if isinstance(v, np.ndarray) and k in inp})
        res.append({"ok": True, "result": r, "after": after})
    except BaseException as e:
        res.append({"ok": False, "error": f"{type(e).__name__}: {e}"})
pickle.dump({"res": res}, open(out_path, "wb"))
'''


class _Stub:
    pass


def run_rtc_py(job, src_dir, count=12, seed=0, extra_inputs=()):
    """Run-time check of a formula contract on a Python method: the object is a bare instance carrying the typed
    `self.<attr>` inputs, methods named in call_facts return the ghost input they are specified to equal."""
    import re
    from .front_py import parse_region
    t0 = time.time()
    c = job.contract
    out = {"tag": job.tag, "func": job.func, "cases": 0, "evaluated": 0, "holds": 0, "violated": [], "skipped": {},
           "error": None, "inapplicable": None, "nonterminating": 0, "raised": {}}
    try:
        f = parse_region(build.src(*job.module.split("/")), job.func, c.region)
        m = {"funcs": {}, "cfuncs": {}, "externs": {}, "module_vars": {}}
        cases = list(extra_inputs) + gen_inputs(f, c, m, count=count, seed=seed)
        if not cases:
            out["inapplicable"] = "no input satisfying the requires found in the small scope"
            return out
        if getattr(c, "rtc_py", False):
            # near ties: pairs of float inputs that differ by a few ulps / 1e-6 relative (a mirrored entry of a matrix, a
            # scalar next to an element).  Code that compares with a tolerance (isclose / allclose / rounding) where the
            # property states a strict comparison is exposed by exactly these inputs.
            rng = random.Random(seed + 13)
            extra = []
            for c0 in cases[:8]:
                c1 = {k: (v.copy() if isinstance(v, np.ndarray) else v) for k, v in c0.items()}
                farrs = [k for k, v in c1.items() if isinstance(v, np.ndarray) and v.dtype.kind == "f" and v.size >= 2]
                fsc = [k for k, v in c1.items() if isinstance(v, float)]
                if not farrs:
                    continue
                a = c1[rng.choice(farrs)]
                rel = rng.choice([1e-6, 3e-6, -1e-6, 2e-7])
                if a.ndim == 2 and a.shape[0] == a.shape[1] and a.shape[0] >= 2:
                    # make the matrix symmetric up to one near-tied mirrored pair
                    a[:] = np.triu(a) + np.triu(a, 1).T
                    i, j = rng.sample(range(a.shape[0]), 2)
                    base = a[i, j] if a[i, j] != 0 else 1.0
                    a[i, j] = base
                    a[j, i] = base * (1 + rel)
                    if fsc:
                        c1[rng.choice(fsc)] = float(base) * (1 + rel / 2)      # scalar between the two
                else:
                    flat = a.reshape(-1)
                    i, j = rng.sample(range(flat.size), 2)
                    base = flat[i] if flat[i] != 0 else 1.0
                    flat[i] = base
                    flat[j] = base * (1 + rel)
                    if fsc:
                        c1[rng.choice(fsc)] = float(base) * (1 + rel / 2)
                extra.append(c1)
            cases = cases + extra
        stubs = {}
        for fn, facts in c.call_facts.items():
            for e in facts.get("ensures", []):
                mm = re.match(r"same_array\(result,\s*(\w+)\)", e)
                if mm and fn.startswith("self."):
                    stubs[fn[5:]] = mm.group(1)
        bind = {k: v for k, v in c.bind.items() if not callable(v)}
        cls, meth = job.func.split(".")[:2]
        modname = "pyunicorn." + job.module[:-3].replace("/", ".")
        with tempfile.TemporaryDirectory(prefix="pvc-rtc-") as d:
            ip, op, sp = os.path.join(d, "in.pkl"), os.path.join(d, "out.pkl"), os.path.join(d, "caller.py")
            pickle.dump([(cs, stubs, bind) for cs in cases], open(ip, "wb"))
            open(sp, "w").write(_CALLER_PY)
            env = dict(os.environ, PYTHONPATH=src_dir, OMP_NUM_THREADS="1", OPENBLAS_NUM_THREADS="1")
            p = subprocess.run(["/venv/bin/python", sp, modname, cls, meth, ip, op], capture_output=True, text=True,
                               timeout=120, env=env)
            if not os.path.exists(op):
                out["error"] = "caller failed: " + p.stderr[-800:]
                return out
            res = pickle.load(open(op, "rb"))["res"]
        out["cases"] = len(cases)
        for inp, r in zip(cases, res):
            if not r["ok"]:
                kind = r["error"].split(":")[0]
                out["raised"][kind] = out["raised"].get(kind, 0) + 1
                out.setdefault("raised_example", r["error"][:300])
                continue
            selfobj = _Stub()
            env_in = {}
            for k, v in inp.items():
                if k.startswith("self."):
                    setattr(selfobj, k[5:], v)
                else:
                    env_in[k] = v
            env_in["self"] = selfobj
            env_in.update(bind)
            after_in = {k: v for k, v in r.get("after", {}).items() if not k.startswith("self.")}
            for clause, st, detail in check_case(c, env_in, after_in, r["result"]):
                if st == "skipped":
                    out["skipped"][clause] = detail
                    continue
                out["evaluated"] += 1
                if st == "holds":
                    out["holds"] += 1
                else:
                    out["violated"].append({"clause": clause, "detail": detail,
                                            "inputs": {k: jsonable(v) for k, v in inp.items()}, "result": jsonable(r["result"])})
    except Skip as s_:
        out["inapplicable"] = str(s_)
    except symex.Undecidable as s_:
        out["inapplicable"] = f"outside the encodable subset: {s_}"
    except Exception:
        import traceback
        out["error"] = traceback.format_exc()[-1500:]
    out["wall"] = round(time.time() - t0, 2)
    return out
