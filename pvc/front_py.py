"""Python front end for *regions* of methods (py_mode of the VC generator).

A region is addressed as  file.py : Class.method : <selector>  where the selector is the source
text of an `if` test (`"if:mpi.available"`; `#n` picks the n-th such statement) or `"body"` for the
whole method.  The region is re-extracted from the current source on every run; its free variables
are symbolic inputs typed by the contract.  Nothing else of the method is modelled."""
import ast

from .front_cy import Func


def parse_region(path, qual, selector):
    tree = ast.parse(open(path).read())
    cname, _, mname = qual.partition(".")
    mname, _, variant = mname.partition("#")
    node = None
    for c in tree.body:
        if isinstance(c, ast.ClassDef) and c.name == cname:
            for m in c.body:
                if isinstance(m, ast.FunctionDef) and m.name == mname:
                    is_setter = any(isinstance(d, ast.Attribute) and d.attr == "setter" for d in m.decorator_list)
                    if (variant == "setter") == is_setter:
                        node = m
        if isinstance(c, ast.FunctionDef) and not mname and c.name == cname:
            node = c
    if node is None:
        return None
    body = node.body
    if selector != "body":
        kind, _, rest = selector.partition(":")
        txt, _, num = rest.partition("#")
        want = int(num) if num else 1
        found = 0
        body = None
        for n in ast.walk(node):
            if kind == "if" and isinstance(n, ast.If) and ast.unparse(n.test) == txt:
                found += 1
                if found == want:
                    body = n.body
                    break
        if body is None:
            return None
    for n in ast.walk(node):
        if hasattr(n, "lineno"):
            n.orig_line = n.lineno
    f = Func(f"{qual}[{selector}]", f"{path}:{qual}", "py", [], {}, body, node.lineno, path, "py")
    f.src = "\n".join(ast.unparse(s) for s in body)
    return f
