"""./check <property-id> [--tier quick|thorough] [--replay PATH] [--update-baseline]

Exit codes: 0 property held on everything explored (known findings listed);
            1 VIOLATION (refuted obligation with counter-model, or failing bounded case);
            2 undecided (an obligation could be neither proved nor refuted); never a VIOLATION;
            3 the checker itself is broken (no obligations, vacuous contract, canary not refuted,
              build failure).
"""
import argparse
import importlib
import json
import os
import re
import subprocess
import sys
import time

from . import build, runner

VERIF = build.VERIF


def load_known():
    p = os.path.join(VERIF, "known_findings.json")
    if not os.path.exists(p):
        return {"known": [], "fixed": []}
    return json.load(open(p))


def match_known(known, prop, ident):
    for k in known["known"]:
        if k["property"] == prop and re.search(k["match"], ident):
            return k
    return None


def write_replay(prop, idx, payload):
    d = os.path.join(VERIF, "replays", prop)
    os.makedirs(d, exist_ok=True)
    p = os.path.join(d, f"{idx:03d}.json")
    with open(p, "w") as f:
        json.dump(payload, f, indent=1, default=str)
    return p


def run_bounded(mod, prop, tier, seed, replay=None, sanitize=False):
    script = os.path.join(VERIF, "bounded", prop.lower() + ".py")
    if not os.path.exists(script):
        return None
    tree = build.scratch_tree(sanitize=False)
    out = os.path.join(tree, f"bounded_{prop}.json")
    env = dict(os.environ)
    env["PYTHONPATH"] = os.path.join(tree, "src") + ":" + VERIF
    env["PYTHONDONTWRITEBYTECODE"] = "1"
    env["VERIF_TIER"] = tier
    env["VERIF_SEED"] = str(seed)
    env["PVC_SCRATCH"] = tree
    cmd = [sys.executable, script, "--tier", tier, "--seed", str(seed), "--out", out]
    if replay:
        cmd += ["--replay", replay]
    limit = getattr(mod, "BOUNDED_TIMEOUT", {}).get(tier, 900 if tier == "quick" else 3600)
    t0 = time.time()
    try:
        r = subprocess.run(cmd, cwd=VERIF, env=env, capture_output=True, text=True, timeout=limit)
    except subprocess.TimeoutExpired:
        return {"error": f"bounded harness exceeded {limit}s", "wall_s": time.time() - t0}
    if not os.path.exists(out):
        return {"error": f"bounded harness wrote no report (exit {r.returncode}): {r.stderr[-1500:]}",
                "wall_s": time.time() - t0}
    rep = json.load(open(out))
    rep["wall_s"] = round(time.time() - t0, 2)
    if r.returncode not in (0, 1) or (not replay and not rep.get("evaluations")):
        # a harness that died (traceback, signal) or evaluated nothing decided nothing: never "held"
        return {"error": f"bounded harness broke (exit {r.returncode}, {rep.get('evaluations')} evaluations): "
                         f"{r.stderr[-1200:]}", "wall_s": rep["wall_s"]}
    return rep


def main(argv=None):
    ap = argparse.ArgumentParser()
    ap.add_argument("prop")
    ap.add_argument("--tier", default=os.environ.get("VERIF_TIER", "quick"), choices=["quick", "thorough"])
    ap.add_argument("--replay", default=None)
    ap.add_argument("--update-baseline", action="store_true")
    ap.add_argument("--no-bounded", action="store_true")
    ap.add_argument("--only-bounded", action="store_true")
    args = ap.parse_args(argv)
    prop = args.prop.upper()
    os.environ["VERIF_TIER_CURRENT"] = args.tier
    seed = int(os.environ.get("VERIF_SEED", "0"))
    t0 = time.time()
    try:
        mod = importlib.import_module(f"contracts.{prop.lower()}")
    except ModuleNotFoundError:
        print(f"no check registered for {prop}")
        return 3
    known = load_known()
    lines, violations, undecided, broken, known_hits = [], [], [], [], []

    if args.replay:
        payload = json.load(open(args.replay))
        if payload.get("source") == "bounded":
            rep = run_bounded(mod, prop, args.tier, seed, replay=args.replay)
            bad = rep.get("failures") if rep else None
            print(json.dumps(rep, indent=1)[:4000])
            if bad:
                print(f"VIOLATION property={prop} replay={args.replay}")
                return 1
            return 0
        if payload.get("source") == "rtc":
            from . import rtc
            tree = build.scratch_tree(sanitize=False)
            js = [j for j in mod.jobs(args.tier) if j.tag == payload["kernel"]]
            inp = {k: rtc.unjson(v) for k, v in payload["inputs"].items()}
            res = rtc.run_layer(js, os.path.join(tree, "src"), args.tier, seed, extra={payload["kernel"]: [inp]}) if js else []
            bad = [v for r in res for v in r["violated"] if v["inputs"] == payload["inputs"]]
            print(json.dumps(bad[:3], indent=1, default=str)[:3000])
            if bad:
                print(f"VIOLATION property={prop} replay={args.replay}")
                return 1
            return 0
        args.only_obligation = payload.get("obligation")

    # replay files of earlier runs of this property are stale once a new run starts
    rdir = os.path.join(VERIF, "replays", prop)
    if os.path.isdir(rdir) and not args.replay:
        for fn in os.listdir(rdir):
            if fn.endswith(".json"):
                os.unlink(os.path.join(rdir, fn))

    # ------------------------------------------------------------ P layer
    P = {"jobs": 0, "obligations": 0, "discharged": 0, "by_backend": {}, "solver_s": 0.0,
         "functions": [], "samples": [], "refuted": [], "undecided": [], "inapplicable": []}
    results = []
    structural = []
    if not args.only_bounded:
        try:
            jobs = mod.jobs(args.tier)
            canaries = getattr(mod, "canaries", lambda tier: [])(args.tier)
            allres = runner.run_jobs(jobs + canaries, workers=14,
                                     timeout_ms=getattr(mod, "TIMEOUT_MS", 10000),
                                     second_opinion=(args.tier == "thorough"))
            results, canres = allres[:len(jobs)], allres[len(jobs):]
            if hasattr(mod, "structural"):
                structural = mod.structural(args.tier)
        except Exception as e:
            import traceback
            traceback.print_exc()
            broken.append(f"obligation generation crashed: {type(e).__name__}: {e}")
            canres = []
        P["jobs"] = len(results)
        bpath0 = os.path.join(VERIF, "baseline", prop + ".json")
        base_loops = (json.load(open(bpath0)).get("loops", {}) if os.path.exists(bpath0) else {})
        for jr in results:
            bl = base_loops.get(jr["tag"])
            if bl is not None and jr.get("loop_keys") is not None and bl != jr["loop_keys"] and not jr["error"] \
                    and not jr["inapplicable"] and any(r["status"] != "proved" for r in jr["results"]):
                # the loop structure differs from the one the invariants were keyed to: needs a re-keyed contract;
                # refutations under shifted keys would be artefacts (the bounded / run-time layers still decide)
                jr["inapplicable"] = (f"{jr['tag']}: the loop structure of {jr['func']} changed (contract keyed to {bl}, "
                                      f"found {jr['loop_keys']}); its loop invariants need re-keying - obligations not decided")
        for jr in results:
            if jr["error"]:
                broken.append(f"{jr['tag']}: {jr['error'][-300:]}")
                continue
            if jr["inapplicable"]:
                P["inapplicable"].append(jr["inapplicable"])
                continue
            if jr.get("vacuous"):
                broken.append(f"{jr['tag']}: preconditions unsatisfiable (vacuous contract)")
            if jr.get("missing_loops"):
                P["inapplicable"].append(f"{jr['tag']}: loop invariants keyed to loops that no longer exist: {jr['missing_loops']}")
            if not jr["results"] and not jr.get("only_kinds"):
                broken.append(f"{jr['tag']}: zero obligations generated")
            P["functions"].append(f"{jr['module']}:{jr['func']} [{jr['tag']}]")
            for r in jr["results"]:
                r["tag"] = jr["tag"]
                P["obligations"] += 1
                P["solver_s"] += r["time"]
                if r["status"] == "proved":
                    P["discharged"] += 1
                    P["by_backend"][r["backend"]] = P["by_backend"].get(r["backend"], 0) + 1
                elif r["status"] == "refuted":
                    P["refuted"].append(r)
                else:
                    P["undecided"].append(r)
        for r in structural:
            P["obligations"] += 1
            P["solver_s"] += r.get("time", 0.0)
            if r["status"] == "proved":
                P["discharged"] += 1
                P["by_backend"][r["backend"]] = P["by_backend"].get(r["backend"], 0) + 1
            elif r["status"] == "refuted":
                P["refuted"].append(r)
            elif r["status"] == "inapplicable":
                P["inapplicable"].append(r["id"] + ": " + r.get("detail", ""))
            else:
                P["undecided"].append(r)
        inapp_tags = {jr["tag"] for jr in results if jr.get("inapplicable")}
        for jr in canres:
            ok = (not jr["error"]) and any(r["status"] == "refuted" for r in jr["results"])
            base_tag = jr["tag"].split("#")[0]
            if not ok and jr.get("inapplicable") and not jr["error"] and base_tag in inapp_tags:
                # the function left the encodable subset / its contract no longer fits: reported once, as inapplicable
                continue
            if not ok:
                broken.append(f"canary {jr['tag']} was not refuted (engine unsound or blind): {jr.get('error') or jr.get('inapplicable')}")
        P["canaries"] = len(canres)
        if hasattr(mod, "extra_canaries") and not broken:
            for name, ok in mod.extra_canaries(args.tier):
                P["canaries"] += 1
                if not ok:
                    broken.append(f"canary not refuted: {name}")
        allr = [r for jr in results for r in jr.get("results", [])] + structural
        kinds = {}
        for r in allr:
            kinds[r["kind"]] = kinds.get(r["kind"], 0) + 1
        P["by_kind"] = kinds
        seen_kinds = set()
        for r in allr:
            if r["kind"] not in seen_kinds and len(P["samples"]) < 10:
                seen_kinds.add(r["kind"])
                P["samples"].append({"obligation": r["id"][:300], "status": r["status"],
                                     "backend": r.get("backend"), "solver_s": r.get("time")})
        if not args.only_bounded and P["obligations"] == 0 and not broken and getattr(mod, "HAS_P", True):
            broken.append("zero obligations generated")

    # ------------------------------------------------------------ baseline comparison
    bpath = os.path.join(VERIF, "baseline", prop + ".json")
    ids_now = sorted(r["id"] for jr in results for r in jr.get("results", []) if r["status"] == "proved") + \
        sorted(r["id"] for r in structural if r["status"] == "proved")
    if args.update_baseline:
        os.makedirs(os.path.dirname(bpath), exist_ok=True)
        json.dump({"proved": ids_now, "loops": {jr["tag"]: jr.get("loop_keys", []) for jr in results if jr.get("loop_keys")}},
                  open(bpath, "w"), indent=0)
    baseline = set(json.load(open(bpath))["proved"]) if os.path.exists(bpath) else set()

    # ------------------------------------------------------------ B layer
    rep = None
    if not args.no_bounded and getattr(mod, "HAS_BOUNDED", True):
        try:
            rep = run_bounded(mod, prop, args.tier, seed)
        except build.BuildError as e:
            broken.append(f"scratch build failed: {str(e)[-800:]}")
        if rep is not None and rep.get("error"):
            broken.append("bounded: " + rep["error"])
            rep = None

    # ------------------------------------------------------------ R layer: run-time check of the kernel contracts
    rtc_res, rtc_fail = [], {}
    if not args.only_bounded and not args.no_bounded and not broken:
        try:
            from . import rtc
            tree = build.scratch_tree(sanitize=False)
            rtc_res = rtc.run_layer(mod.jobs(args.tier), os.path.join(tree, "src"), args.tier, seed)
        except build.BuildError as e:
            broken.append(f"scratch build failed: {str(e)[-800:]}")
        for rr in rtc_res:
            if rr.get("error"):
                broken.append(f"run-time contract check of {rr['tag']} crashed: {rr['error'][-300:]}")
            for v in rr.get("violated", []):
                rtc_fail.setdefault(rr["func"], []).append((rr["tag"], v))

    # ------------------------------------------------------------ classification
    nrep = 0
    bounded_fail_checks = set()
    if rep:
        for fl in rep.get("failures", []):
            ident = "bounded:" + fl["check"]
            k = match_known(known, prop, ident)
            if k:
                if ident not in [x[0] for x in known_hits]:
                    known_hits.append((ident, k))
                continue
            bounded_fail_checks.add(fl["check"])
            nrep += 1
            path = write_replay(prop, nrep, {"property": prop, "source": "bounded", "check": fl["check"],
                                             "witness": fl["witness"], "detail": fl["detail"],
                                             "tier": args.tier, "seed": seed})
            violations.append(f"VIOLATION property={prop} replay={path}")
            lines.append(f"  bounded contract `{fl['check']}` fails on the real code: {fl['detail'][:200]}")
    grouped = {}
    for r in P["refuted"]:
        ident = "obligation:" + r["id"]
        k = match_known(known, prop, ident)
        if k:
            known_hits.append((ident, k))
            continue
        gk = (r["kind"], r.get("func"))
        if gk in grouped:
            grouped[gk].setdefault("also_refuted", []).append(r["id"])
            continue
        grouped[gk] = r
    for r in grouped.values():
        nrep += 1
        confirmed = None
        fkey = (r.get("func") or "").split("[")[0]
        hit = rtc_fail.get(fkey) or rtc_fail.get(r.get("tag", "")) or \
            next((v for k, v in rtc_fail.items() if k and (k in (r.get("tag") or "") or k in r["id"])), None)
        if hit:
            tag, v = hit[0]
            confirmed = {"failed": True, "how": "run-time check of the same contract on the rebuilt kernel (pvc/rtc.py)",
                         "kernel": tag, "clause": v["clause"], "detail": v["detail"], "inputs": v["inputs"],
                         "result": v.get("result"), "arrays_after_call": v.get("after")}
            for x in hit:
                x[1]["reported"] = True
        if confirmed is None and hasattr(mod, "replay_refuted"):
            try:
                confirmed = mod.replay_refuted(r, build)
            except Exception as e:
                confirmed = None
                r["replay_error"] = f"{type(e).__name__}: {e}"
        payload = {"property": prop, "source": "obligation", "obligation": r["id"], "kind": r["kind"],
                   "function": r.get("func"), "line": r.get("line"), "verifier": r.get("backend"),
                   "verifier_output": {"status": r["status"], "model": r.get("model"), "detail": r.get("detail")},
                   "was_proved_on_baseline": r["id"] in baseline,
                   "replay_on_real_code": confirmed, "bounded_failures_same_run": sorted(bounded_fail_checks),
                   "same_defect_other_obligations": r.get("also_refuted", [])[:50]}
        path = write_replay(prop, nrep, payload)
        suffix = "" if (confirmed and confirmed.get("failed")) or bounded_fail_checks else " no-failing-input-found"
        violations.append(f"VIOLATION property={prop} replay={path}{suffix}")
        lines.append(f"  refuted obligation {r['id'][:220]}  model={json.dumps(r.get('model'))[:300]}")
    for func, lst in rtc_fail.items():
        rest = [(t, v) for t, v in lst if not v.get("reported")]
        seen_cl = set()
        for tag, v in rest:
            ident = f"rtc:{tag}/{v['clause']}"
            if v["clause"] in seen_cl:
                continue
            seen_cl.add(v["clause"])
            k = match_known(known, prop, ident)
            if k:
                known_hits.append((ident, k))
                continue
            nrep += 1
            path = write_replay(prop, nrep, {"property": prop, "source": "rtc", "kernel": tag, "clause": v["clause"],
                                             "detail": v["detail"], "inputs": v["inputs"], "result": v.get("result"),
                                             "arrays_after_call": v.get("after"),
                                             "note": "contract clause evaluated by CPython on the output of the rebuilt kernel"})
            violations.append(f"VIOLATION property={prop} replay={path}")
            lines.append(f"  contract clause of {tag} fails at run time on the rebuilt kernel: `{v['clause'][:160]}` {v['detail'][:120]}")
    for r in P["undecided"]:
        undecided.append(r["id"])
        lines.append(f"  UNDECIDED obligation {r['id'][:220]} ({r.get('detail')}; was proved on baseline: {r['id'] in baseline})")
    for t in P["inapplicable"]:
        lines.append(f"  INAPPLICABLE {t[:300]}")

    # ------------------------------------------------------------ evidence
    wall = round(time.time() - t0, 2)
    level = mod.LEVEL
    complete = (P["obligations"] > 0 and P["discharged"] == P["obligations"] and not P["inapplicable"])
    if level == "proof" and not complete:
        level_out = "other"
    else:
        level_out = level
    cov = {
        "obligations": P["obligations"], "discharged": P["discharged"],
        "checker_cmd": f"./check {prop} --tier {args.tier}",
        "trusted_base": getattr(mod, "TRUSTED_BASE", []),
        "functions_under_contract": P["functions"],
        "obligations_by_kind": P.get("by_kind", {}), "discharged_by_backend": P["by_backend"],
        "solver_time_s": round(P["solver_s"], 3),
        "refuted": [r["id"][:300] for r in P["refuted"]],
        "undecided": [r["id"][:300] for r in P["undecided"]],
        "inapplicable": P["inapplicable"], "canaries_refuted": P.get("canaries", 0),
        "known_findings_hit": [i for i, _ in known_hits],
        "samples": P["samples"],
        "explanation": getattr(mod, "EXPLANATION", ""),
        "not_decided_by_this_check": getattr(mod, "NOT_DECIDED", []),
    }
    if rep:
        cov["bounded"] = {"label": "bounded stand-in (never counted as proved)", "scope": rep.get("scope"),
                          "rule": rep.get("rule"), "evaluations": rep.get("evaluations"),
                          "distinct_nontrivial": rep.get("distinct_nontrivial"),
                          "failures_by_check": rep.get("failures_by_check"), "skipped": rep.get("skipped"),
                          "samples": rep.get("samples", [])[:5], "wall_s": rep.get("wall_s")}
        cov["evaluations"] = int(rep.get("evaluations") or 0)
        cov["distinct_nontrivial"] = int(rep.get("distinct_nontrivial") or 0)
        cov["rule"] = rep.get("rule") or ""
        cov["samples"] = (P["samples"] + rep.get("samples", [])[:4]) or ["(none)"]
    try:
        assumed = {}
        for j in (mod.jobs(args.tier) if not args.only_bounded else []):
            c = j.contract
            ent = {}
            if c.requires:
                ent["requires (assumed of the callers unless a [uses] contract of the call site proves them)"] = list(c.requires)[:40]
            if getattr(c, "call_facts", None):
                ent["assumed contracts of callees (call_facts)"] = {k: v.get("ensures", []) for k, v in c.call_facts.items()}
            if getattr(c, "rtc_ensures", None):
                ent["clauses checked at run time only (bounded)"] = list(c.rtc_ensures)
            if ent:
                assumed[j.tag] = ent
        cov["assumed_contracts"] = assumed
    except Exception as e:      # evidence only
        cov["assumed_contracts"] = {"error": str(e)}
    if rtc_res:
        cov["runtime_contract_check"] = {
            "label": "bounded (run-time evaluation of the proved contracts on the rebuilt kernels; never counted as proved)",
            "how": "inputs = z3 models of the requires in a small scope; real compiled function called in a separate "
                   "interpreter; every ensures clause evaluated by a CPython evaluator of the spec language (pvc/rtc.py)",
            "kernels": {rr["tag"]: {"cases": rr.get("cases"), "clause_evaluations": rr.get("evaluated"), "hold": rr.get("holds"),
                                    "violated": len(rr.get("violated", [])), "no_return_within_budget": rr.get("nonterminating"),
                                    "raised_exception_not_excluded_by_contract": rr.get("raised"),
                                    "clauses_not_evaluable_at_run_time": rr.get("skipped"), "inapplicable": rr.get("inapplicable")}
                        for rr in rtc_res}}
    if not cov["samples"]:
        cov["samples"] = ["(no obligations generated)"]
    ev = {"property_id": prop, "tier": args.tier, "seed": seed, "level": level_out, "coverage": cov,
          "assumptions": getattr(mod, "ASSUMPTIONS", []), "wall_s": wall, "violations": len(violations)}
    # runs against another tree (PVC_REPO: seeded changes, scratch mutations) must not overwrite the evidence of /repo
    evdir = os.path.join(VERIF, "evidence") if os.path.realpath(build.REPO) == "/repo" else \
        os.path.join(VERIF, ".cache", "evidence-other-tree")
    os.makedirs(evdir, exist_ok=True)
    with open(os.path.join(evdir, prop + ".json"), "w") as f:
        json.dump(ev, f, indent=1, default=str)

    # ------------------------------------------------------------ report
    print(f"{prop} [{args.tier}] obligations={P['obligations']} discharged={P['discharged']} "
          f"refuted={len(P['refuted'])} undecided={len(P['undecided'])} inapplicable={len(P['inapplicable'])} "
          f"bounded={'%s evals, %s failures' % (rep.get('evaluations'), rep.get('n_failures')) if rep else 'n/a'} "
          f"rtc={sum(rr.get('evaluated') or 0 for rr in rtc_res)} clause evals on {len(rtc_res)} kernels, "
          f"{sum(len(rr.get('violated', [])) for rr in rtc_res)} violated wall={wall}s")
    for ln in lines:
        print(ln)
    for ident, k in known_hits:
        print(f"KNOWN-FINDING: property={prop} {k['what']} [{ident[:120]}]")
    if broken:
        for b in broken:
            print("CHECKER-BROKEN:", b)
    for v in violations:
        print(v)
    if violations:
        return 1
    if broken:
        return 3
    if undecided or P["inapplicable"]:
        return 2
    return 0


if __name__ == "__main__":
    sys.exit(main())
