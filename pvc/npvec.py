"""NumPy-lite, part 2: one-dimensional *virtual vectors* in Python regions (py_mode).

A virtual vector is (length term, element function i -> z3 term, optional presence predicate).  The NumPy semantics
encoded here (assumed, listed in the evidence):
    np.arange(a, b)          length max(b-a, 0), element i = a + i                        (integer arguments)
    v[c:]  (c >= 0 or < 0)   Python slice semantics on a 1-d array / vector (a view; only read here)
    u @ v, np.dot(u, v)      requires equal lengths (obligation `shape`), value  FSUM(lambda i. u_i * v_i, n)
    v.sum(), np.sum(v)       FSUM(lambda i. v_i, n)      (over the present elements of a filtered vector)
    u*v, u/v, u+v, u-v, -v   elementwise (equal lengths for vector-vector: obligation `shape`), scalars broadcast
    v != s, v == s, v > s..  elementwise comparison (boolean vector)
    np.extract(mask, v)      the vector of the elements of v where mask holds: only elementwise operations and sums are
                             supported on the result, so it is represented as v with a presence predicate
    np.log(v)                elementwise, uninterpreted uf_log
    np.nonzero(v)[0].max(initial=-1)     LASTNZ(lambda i. v_i, n): the largest index with a non-zero element, -1 if none
FSUM / LASTNZ are uninterpreted here: a postcondition `result == fsum(lambda i: ..., n)` is proved when summand and
length of the code's sum equal those of the specification (array extensionality + arithmetic).  For counter-models the
finite-scope search replaces FSUM by the finite sum and LASTNZ by its definition (symex._expand), so a refutation is a
concrete input in real arithmetic.
"""
import ast
import itertools

import z3

from . import symex
from .symex import Val, Undecidable, I, Rl, PYINT, PYFLOAT

AI = z3.ArraySort(I, I)
AR = z3.ArraySort(I, Rl)
FSUM_I = z3.Function("FSUM_I", AI, I, I)
FSUM_R = z3.Function("FSUM_R", AR, I, Rl)
LASTNZ_I = z3.Function("LASTNZ_I", AI, I, I)
LASTNZ_R = z3.Function("LASTNZ_R", AR, I, I)
UF_LOG = z3.Function("uf_log", Rl, Rl)
AMAX_R = z3.Function("AMAX_R", z3.ArraySort(I, AR), I, I, Rl)      # maximum over an n0 x n1 float matrix (uninterpreted + bounds)


def amax_of(ex, mat):
    """M.max() of a non-empty 2-d float array: AMAX_R(contents, n0, n1) with `every entry <= it` as a fact (that it is attained
    is not needed by any contract so far); the specification writes amax(M) and gets the same term."""
    if mat.ndim != 2 or mat.elem is None or mat.elem.kind != "float":
        raise Undecidable("max() of this array")
    t = AMAX_R(ex.heap[mat.id], mat.shape[0], mat.shape[1])
    qi, qj = z3.Int(f"mx0!{next(ex.n)}"), z3.Int(f"mx1!{next(ex.n)}")
    ex.facts.append(z3.ForAll([qi, qj], z3.Implies(z3.And(qi >= 0, qi < mat.shape[0], qj >= 0, qj < mat.shape[1]),
                                                    ex.select(mat, [qi, qj]) <= t)))
    return t


def matmul2(ex, a, b, node):
    """A @ B of two 2-d arrays: element [i, j] = FSUM(lambda k. A[i, k] * B[k, j], n)"""
    ex.oblige("shape", f"{symex.src_of(node)}: inner extents of the matrix product agree", a.shape[1] == b.shape[0], node)
    ka = "float" if (a.elem is not None and a.elem.kind == "float") else "int"
    kb = "float" if (b.elem is not None and b.elem.kind == "float") else "int"
    kind = "float" if "float" in (ka, kb) else "int"
    qi, qj = z3.Int(f"mm0!{next(ex.n)}"), z3.Int(f"mm1!{next(ex.n)}")
    k = fresh_idx()
    body = _elem_arith(ex, ast.Mult(), ex.select(a, [qi, k]), ka, ex.select(b, [k, qj]), kb, node)[0]
    el = mk_fsum(body, k, a.shape[1], kind == "float", ex)
    et = symex.scalar_type("FLOAT64TYPE_t" if kind == "float" else "INT64TYPE_t")
    r = symex.ArrObj(f"matmul_{next(ex.n)}", et, 2, ex.fm, shape=[a.shape[0], b.shape[1]], fresh=True)
    r.contig = True
    ex.objs[r.id] = r
    ex.heap[r.id] = z3.Lambda([qi], z3.Lambda([qj], el))
    return Val("arr", r, symex.T("arr", elem=et, ndim=2))


_FSV = itertools.count()


def fresh_idx():
    """a summation / lambda index that occurs nowhere else (no capture when sums are nested)"""
    return z3.Int(f"fsv!{next(_FSV)}")


def _lam_depth(t, _memo=None):
    """nesting depth of lambdas / quantifiers inside the term"""
    if _memo is None:
        _memo = {}
    k = t.get_id()
    if k in _memo:
        return _memo[k]
    if z3.is_quantifier(t):
        d = 1 + _lam_depth(t.body(), _memo)
    elif z3.is_app(t):
        d = max([_lam_depth(c, _memo) for c in t.children()], default=0)
    else:
        d = 0
    _memo[k] = d
    return d


def canon_lambda(i, body):
    """Lambda over the index constant i with a canonical bound name (`fs!<depth>`): two sums built independently - by the
    code and by the specification - from alpha-equivalent bodies are then the same term, and nested sums never share a
    bound name (inner sums have a smaller depth)."""
    c = z3.Int(f"fs!{_lam_depth(body)}")
    return z3.Lambda([c], z3.substitute(body, (i, c)))


class Vec:
    def __init__(self, n, f, kind, present=None):
        self.n = n              # z3 Int length (>= 0)
        self.f = f              # python: z3 Int -> z3 term of sort Int (kind int/bool) or Real (kind float)
        self.kind = kind        # "int" | "float" | "bool"
        self.present = present  # python: z3 Int -> z3 Bool, or None


def as_vec(ex, v):
    if v.k == "vec":
        return v.t
    if v.k == "arr" and v.t.ndim == 1:
        a = v.t
        heap = ex.heap[a.id]
        kind = "float" if (a.elem is not None and a.elem.kind == "float") else "int"
        return Vec(a.shape[0], lambda i, h=heap: z3.Select(h, i), kind)
    return None


def _real(t, kind):
    return t if kind == "float" else z3.ToReal(t)


def _lam(vec, as_real=False, masked_zero=True):
    i = fresh_idx()
    body = vec.f(i)
    if vec.kind == "bool":
        body = z3.If(body, z3.IntVal(1), z3.IntVal(0)) if z3.is_bool(body) else body
    if as_real and vec.kind != "float":
        body = z3.ToReal(body)
    if vec.present is not None and masked_zero:
        body = z3.If(vec.present(i), body, z3.RealVal(0) if (as_real or vec.kind == "float") else z3.IntVal(0))
    return canon_lambda(i, body)


def _canon(t):
    """normal form of summands / lengths: sums of monomials, sorted - code and specification then build the SAME term
    whenever they agree up to ring arithmetic, and the proof is syntactic (extensionality is the fallback)"""
    return z3.simplify(t, som=True, sort_sums=True, arith_lhs=True)


def simp_under(ctx, t, _solver=None, _cache=None):
    """Resolve every if-then-else in `t` whose condition is decided by the context `ctx` (list of z3 Bools)."""
    if _solver is None:
        _solver = z3.Solver()
        _solver.set("timeout", 1500)
        _solver.add(*ctx)
        _cache = {}
    key = t.get_id()
    if key in _cache:
        return _cache[key][1]
    r = t
    if z3.is_app(t) and t.num_args() > 0:
        if z3.is_app_of(t, z3.Z3_OP_ITE):
            c = simp_under(ctx, t.arg(0), _solver, _cache)
            _solver.push()
            _solver.add(z3.Not(c))
            always = _solver.check() == z3.unsat
            _solver.pop()
            if always:
                r = simp_under(ctx, t.arg(1), _solver, _cache)
            else:
                _solver.push()
                _solver.add(c)
                never = _solver.check() == z3.unsat
                _solver.pop()
                if never:
                    r = simp_under(ctx, t.arg(2), _solver, _cache)
                else:
                    r = z3.If(c, simp_under(ctx, t.arg(1), _solver, _cache), simp_under(ctx, t.arg(2), _solver, _cache))
        else:
            args = [simp_under(ctx, a, _solver, _cache) for a in t.children()]
            r = t.decl()(*args)
    _cache[key] = (t, r)
    return r


def mk_fsum(body, i, n, is_real, ex=None):
    """FSUM(lambda i. body, n) in normal form:  ite(n > 0, FSUM(lambda i. body', n'), 0)  where body' and n' are body
    and n with every if-then-else resolved that the path facts together with n > 0 and 0 <= i < n decide (the empty
    sum is 0 by definition)."""
    ctx = []
    if ex is not None:
        ctx = [f for f in ex.facts if not z3.is_quantifier(f) and "Lambda" not in f.sexpr()[:0]]
        ctx = [f for f in ctx if _qfree(f)]
    n0 = _canon(n)
    ctx2 = ctx + [n0 > 0]
    n1 = _canon(simp_under(ctx2, n0))
    b1 = _canon(simp_under(ctx2 + [i >= 0, i < n1], _canon(body)))
    zero = z3.RealVal(0) if is_real else z3.IntVal(0)
    return z3.If(n0 > 0, (FSUM_R if is_real else FSUM_I)(canon_lambda(i, b1), n1), zero)


def _qfree(f):
    try:
        return "forall" not in f.sexpr() and "exists" not in f.sexpr() and "lambda" not in f.sexpr()
    except Exception:
        return False


def vsum(ex, vec):
    i = fresh_idx()
    lam = _lam(vec)
    body = z3.Select(lam, i)
    if vec.kind == "float":
        return Val("float", mk_fsum(z3.simplify(body), i, vec.n, True, ex), PYFLOAT)
    return Val("int", mk_fsum(z3.simplify(body), i, vec.n, False, ex), PYINT)


def lastnz(ex, vec):
    if vec.present is not None:
        raise Undecidable("nonzero() of a filtered vector")
    f = _lam(vec)
    n = vec.n
    r = (LASTNZ_R if vec.kind == "float" else LASTNZ_I)(f, n)
    # characterisation of this occurrence (the definition of LASTNZ at (f, n))
    j = z3.Int(f"lz!{next(ex.n)}")
    zero = z3.RealVal(0) if vec.kind == "float" else z3.IntVal(0)
    ex.facts.append(z3.And(r >= -1, r < z3.If(n > 0, n, 0), z3.Implies(r >= 0, z3.Select(f, r) != zero),
                           z3.ForAll([j], z3.Implies(z3.And(j > r, j < n, j >= 0), z3.Select(f, j) == zero))))
    return Val("int", r, PYINT)


def arange(ex, n):
    args = [ex.to_int(ex.ev(a)) for a in n.args]
    if len(args) == 1:
        lo, hi = z3.IntVal(0), args[0]
    elif len(args) == 2:
        lo, hi = args
    else:
        raise Undecidable("np.arange with a step")
    ln = z3.If(hi - lo > 0, hi - lo, 0)
    return Val("vec", Vec(ln, lambda i, lo=lo: lo + i, "int"))


def vslice(ex, base, sl, node):
    vec = as_vec(ex, base)
    if vec is None or vec.present is not None:
        raise Undecidable(f"slice {symex.src_of(node)}")
    if sl.step is not None or sl.upper is not None:
        raise Undecidable(f"slice {symex.src_of(node)}")
    c = ex.to_int(ex.ev(sl.lower)) if sl.lower is not None else z3.IntVal(0)
    n = vec.n
    start = z3.If(c >= 0, z3.If(c <= n, c, n), z3.If(n + c >= 0, n + c, 0))
    return Val("vec", Vec(n - start, lambda i, f=vec.f, s=start: f(s + i), vec.kind))


def _elem_arith(ex, op, x, kx, y, ky, node):
    """elementwise scalar operation on z3 terms -> (term, kind)"""
    fl = kx == "float" or ky == "float" or isinstance(op, ast.Div)
    if fl:
        a, b = _real(_b2i(x), kx), _real(_b2i(y), ky)
        if isinstance(op, ast.Add):
            return a + b, "float"
        if isinstance(op, ast.Sub):
            return a - b, "float"
        if isinstance(op, ast.Mult):
            return a * b, "float"
        if isinstance(op, ast.Div):
            return a / b, "float"
        raise Undecidable("vector operator")
    a, b = _b2i(x), _b2i(y)
    if isinstance(op, ast.Add):
        return a + b, "int"
    if isinstance(op, ast.Sub):
        return a - b, "int"
    if isinstance(op, ast.Mult):
        return a * b, "int"
    raise Undecidable("vector operator")


def _b2i(t):
    return z3.If(t, z3.IntVal(1), z3.IntVal(0)) if z3.is_bool(t) else t


def vbinop(ex, op, a, b, node):
    va, vb = as_vec(ex, a), as_vec(ex, b)
    if isinstance(op, ast.MatMult) and ((va is not None and b.k == "arr" and b.t.ndim == 2) or
                                        (vb is not None and a.k == "arr" and a.t.ndim == 2)):
        # vector @ matrix  -> element j = FSUM(lambda i. v_i * M[i, j], n);   matrix @ vector -> element j = FSUM(lambda i. M[j, i] * v_i, n)
        vec, mat, vec_left = (va, b.t, True) if va is not None else (vb, a.t, False)
        if vec.present is not None:
            raise Undecidable("@ on a filtered vector")
        inner = mat.shape[0] if vec_left else mat.shape[1]
        outer = mat.shape[1] if vec_left else mat.shape[0]
        ex.oblige("shape", f"{symex.src_of(node)}: inner extents of the product agree", vec.n == inner, node)
        mk = "float" if (mat.elem is not None and mat.elem.kind == "float") else "int"
        kind = "float" if "float" in (vec.kind, mk) else "int"

        def elem(j, vec=vec, mat=mat, vec_left=vec_left, mk=mk, kind=kind):
            i = fresh_idx()
            m = ex.select(mat, [i, j] if vec_left else [j, i])
            x, y = (vec.f(i), m) if vec_left else (m, vec.f(i))
            xk, yk = (vec.kind, mk) if vec_left else (mk, vec.kind)
            body = _elem_arith(ex, ast.Mult(), x, xk, y, yk, node)[0]
            return mk_fsum(body, i, vec.n, kind == "float", ex)
        return Val("vec", Vec(outer, elem, kind))
    if isinstance(op, ast.MatMult) and a.k == "arr" and b.k == "arr" and a.t.ndim == 2 and b.t.ndim == 2:
        return matmul2(ex, a.t, b.t, node)
    if isinstance(op, ast.MatMult):
        if va is None or vb is None or va.present is not None or vb.present is not None:
            raise Undecidable("@ on non-vectors")
        ex.oblige("shape", f"{symex.src_of(node)}: operands of @ have equal length", va.n == vb.n, node)
        i = fresh_idx()
        body, kind = _elem_arith(ex, ast.Mult(), va.f(i), va.kind, vb.f(i), vb.kind, node)
        if kind == "float":
            return Val("float", mk_fsum(body, i, va.n, True, ex), PYFLOAT)
        return Val("int", mk_fsum(body, i, va.n, False, ex), PYINT)
    if not isinstance(op, (ast.Add, ast.Sub, ast.Mult, ast.Div)):
        raise Undecidable("vector operator")
    if va is not None and vb is not None:
        if (va.present is None) != (vb.present is None):
            raise Undecidable("filtered and unfiltered vector combined")
        if va.present is not None:
            # both filtered: only sound when they come from the same filter
            i0 = z3.Int("pp!i")
            if not z3.eq(z3.simplify(va.present(i0)), z3.simplify(vb.present(i0))):
                raise Undecidable("vectors with different filters combined")
        ex.oblige("shape", f"{symex.src_of(node)}: elementwise operands have equal length", va.n == vb.n, node)
        kind = _elem_arith(ex, op, va.f(z3.Int("k!0")), va.kind, vb.f(z3.Int("k!0")), vb.kind, node)[1]
        return Val("vec", Vec(va.n, lambda i: _elem_arith(ex, op, va.f(i), va.kind, vb.f(i), vb.kind, node)[0], kind, va.present))
    vec, sc, left = (va, b, True) if va is not None else (vb, a, False)
    if sc.k not in ("int", "float", "bool"):
        raise Undecidable("vector combined with a non-scalar")
    st = ex.to_float(sc) if sc.k == "float" else ex.to_int(sc)
    sk = "float" if sc.k == "float" else "int"
    if left:
        fn = lambda i: _elem_arith(ex, op, vec.f(i), vec.kind, st, sk, node)[0]     # noqa
    else:
        fn = lambda i: _elem_arith(ex, op, st, sk, vec.f(i), vec.kind, node)[0]     # noqa
    kind = _elem_arith(ex, op, vec.f(z3.Int("k!0")), vec.kind, st, sk, node)[1]
    return Val("vec", Vec(vec.n, fn, kind, vec.present))


def vcompare(ex, op, a, b, node):
    va, vb = as_vec(ex, a), as_vec(ex, b)
    if va is not None and vb is not None:
        raise Undecidable("vector-vector comparison")
    vec, sc, left = (va, b, True) if va is not None else (vb, a, False)
    if sc.k not in ("int", "float", "bool"):
        raise Undecidable("vector compared with a non-scalar")
    fl = vec.kind == "float" or sc.k == "float"
    st = ex.to_float(sc) if fl else ex.to_int(sc)

    def fn(i):
        x = _real(_b2i(vec.f(i)), vec.kind) if fl else _b2i(vec.f(i))
        l, r = (x, st) if left else (st, x)
        return {ast.Eq: l == r, ast.NotEq: l != r, ast.Lt: l < r, ast.LtE: l <= r, ast.Gt: l > r, ast.GtE: l >= r}[type(op)]
    return Val("vec", Vec(vec.n, fn, "bool", vec.present))


def extract(ex, n):
    m, v = ex.ev(n.args[0]), ex.ev(n.args[1])
    vm, vv = as_vec(ex, m), as_vec(ex, v)
    if vm is None or vv is None or vm.kind != "bool" or vm.present is not None or vv.present is not None:
        raise Undecidable("np.extract")
    ex.oblige("shape", f"{symex.src_of(n)}: mask and array of np.extract have equal length", vm.n == vv.n, n)
    return Val("vec", Vec(vv.n, vv.f, vv.kind, present=lambda i, g=vm.f: g(i)))


def vlog(ex, v):
    vec = as_vec(ex, v)
    return Val("vec", Vec(vec.n, lambda i: UF_LOG(_real(_b2i(vec.f(i)), vec.kind)), "float", vec.present))


# ---------------------------------------------------------------- hooks into Exec

_orig_binop = symex.Exec.binop
_orig_call = symex.Exec.ev_Call
_orig_subscript = symex.Exec.ev_Subscript
_orig_method = symex.Exec.method_call
_orig_unary = symex.Exec.ev_UnaryOp
_orig_compare = symex.Exec.ev_Compare
_orig_attr = symex.Exec.ev_Attribute
_orig_spec_call = symex.Exec.spec_call


def _is2d(v):
    return v.k == "arr" and v.t.ndim == 2


def _binop(self, op, a, b, n):
    if self.c.py_mode and getattr(self.c, "vectors", False):
        if a.k == "vec" or b.k == "vec" or isinstance(op, ast.MatMult):
            return vbinop(self, op, a, b, n)
        # elementwise arithmetic of 2-d arrays (equal shapes: obligation `shape`) and of a 2-d array with a scalar
        if isinstance(op, (ast.Add, ast.Sub, ast.Mult, ast.Div)) and (_is2d(a) or _is2d(b)) and \
                all(_is2d(v) or v.k in ("int", "float", "bool") for v in (a, b)):
            def kind_of(v):
                if v.k == "arr":
                    return "float" if (v.t.elem is not None and v.t.elem.kind == "float") else "int"
                return "float" if v.k == "float" else "int"
            ka, kb = kind_of(a), kind_of(b)

            def term(v):
                return v.t if v.k in ("float",) else (self.to_int(v) if v.k in ("int", "bool") else v)
            probe = _elem_arith(self, op, z3.Real("pa!") if ka == "float" else z3.Int("pa!"), ka,
                                z3.Real("pb!") if kb == "float" else z3.Int("pb!"), kb, n)[1]

            def f(*xs):
                it = iter(xs)
                x = next(it) if a.k == "arr" else a
                y = next(it) if b.k == "arr" else b
                xt = (self.to_float(x) if ka == "float" else self.to_int(x))
                yt = (self.to_float(y) if kb == "float" else self.to_int(y))
                return _elem_arith(self, op, xt, ka, yt, kb, n)[0]
            arrs = [v for v in (a, b) if v.k == "arr"]
            return self.elementwise(f, *arrs, elem="FLOAT64TYPE_t" if probe == "float" else "INT64TYPE_t")
    return _orig_binop(self, op, a, b, n)


def _ev_call(self, n):
    if self.c.py_mode and getattr(self.c, "vectors", False):
        fn = self.fname(n.func)
        if fn in ("np.arange", "numpy.arange"):
            return arange(self, n)
        if fn in ("np.identity", "np.eye", "numpy.identity", "numpy.eye") and len(n.args) == 1 and not n.keywords:
            # N x N float64 matrix with ones on the diagonal (negative N raises ValueError in NumPy: continue with N >= 0)
            nn = self.to_int(self.ev(n.args[0]))
            self.assume(nn >= 0)
            et = symex.scalar_type("FLOAT64TYPE_t")
            r = symex.ArrObj(f"eye_{next(self.n)}", et, 2, self.fm, shape=[nn, nn], fresh=True)
            r.contig = True
            self.objs[r.id] = r
            qi, qj = z3.Int(f"ey0!{next(self.n)}"), z3.Int(f"ey1!{next(self.n)}")
            self.heap[r.id] = z3.Lambda([qi], z3.Lambda([qj], z3.If(qi == qj, self.fm.lit(1), self.fm.lit(0))))
            return Val("arr", r, symex.T("arr", elem=et, ndim=2))
        if fn in ("np.extract", "numpy.extract"):
            return extract(self, n)
        if fn in ("np.log", "numpy.log") and n.args:
            v = self.ev(n.args[0])
            if v.k == "vec" or (v.k == "arr" and v.t.ndim == 1):
                return vlog(self, v)
            if v.k in ("int", "float"):
                return Val("float", UF_LOG(self.to_float(v)), PYFLOAT)
        if fn in ("np.sum", "numpy.sum") and len(n.args) == 1 and not n.keywords:
            v = self.ev(n.args[0])
            if v.k == "vec" or (v.k == "arr" and v.t.ndim == 1):
                return vsum(self, as_vec(self, v))
        if fn in ("np.sum", "numpy.sum") and len(n.args) == 1 and len(n.keywords) == 1 and n.keywords[0].arg == "axis" \
                and isinstance(n.keywords[0].value, ast.Constant) and n.keywords[0].value.value in (0, 1):
            # np.sum(M, axis=0): element j = sum_i M[i, j]  (column sums);  axis=1: element j = sum_i M[j, i]  (row sums)
            v = self.ev(n.args[0])
            if v.k == "arr" and v.t.ndim == 2:
                mat, ax = v.t, n.keywords[0].value.value
                isf = mat.elem is not None and mat.elem.kind == "float"

                def elem(j, mat=mat, ax=ax, isf=isf):
                    i = fresh_idx()
                    return mk_fsum(self.select(mat, [i, j] if ax == 0 else [j, i]), i, mat.shape[ax], isf, self)
                return Val("vec", Vec(mat.shape[1 - ax], elem, "float" if isf else "int"))
        if fn in ("np.dot", "numpy.dot") and len(n.args) == 2:
            return vbinop(self, ast.MatMult(), self.ev(n.args[0]), self.ev(n.args[1]), n)
        if fn in ("np.array", "np.asarray", "numpy.array", "numpy.asarray") and len(n.args) == 1 and not n.keywords:
            v0 = self.ev(n.args[0])
            if v0.k == "arr" and v0.t.ndim == 2 and getattr(self.c, "array_inputs_are_arrays", False):
                return v0           # np.array(M) of an input the contract types as an array: same values (a copy; only read here)
        if fn in ("np.ones_like", "numpy.ones_like") and len(n.args) == 1 and not n.keywords:
            v0 = self.ev(n.args[0])
            if v0.k == "arr" and v0.t.ndim == 2:
                isf0 = v0.t.elem is not None and v0.t.elem.kind == "float"
                return self.elementwise(lambda x: self.fm.lit(1) if isf0 else z3.IntVal(1), v0,
                                        elem="FLOAT64TYPE_t" if isf0 else "INT64TYPE_t")
        if fn in ("np.linalg.matrix_power", "numpy.linalg.matrix_power") and len(n.args) == 2 and \
                isinstance(n.args[1], ast.Constant) and isinstance(n.args[1].value, int) and 1 <= n.args[1].value <= 4:
            v0 = self.ev(n.args[0])
            if v0.k == "arr" and v0.t.ndim == 2:
                r0 = v0
                for _ in range(n.args[1].value - 1):       # NumPy multiplies from the left: ((M @ M) @ M) ...
                    r0 = matmul2(self, r0.t, v0.t, n)
                return r0
        if fn in ("np.diag", "numpy.diag") and len(n.args) in (1, 2) and not n.keywords:
            # np.diag(M, k) of a 2-d array: the k-th diagonal as a vector (k >= 0: M[i, i+k]; k < 0: M[i-k, i])
            v = self.ev(n.args[0])
            if v.k == "arr" and v.t.ndim == 2:
                mat = v.t
                kk = self.to_int(self.ev(n.args[1])) if len(n.args) == 2 else z3.IntVal(0)
                n0, n1 = mat.shape

                def mn(a, b):
                    return z3.If(a <= b, a, b)
                ln = z3.If(kk >= 0, mn(n0, n1 - kk), mn(n0 + kk, n1))
                ln = z3.simplify(z3.If(ln > 0, ln, 0))
                isf = mat.elem is not None and mat.elem.kind == "float"
                return Val("vec", Vec(ln, lambda i, mat=mat, kk=kk: z3.If(kk >= 0, self.select(mat, [i, i + kk]),
                                                                           self.select(mat, [i - kk, i])),
                                      "float" if isf else "int"))
        if fn in ("np.nonzero", "numpy.nonzero") and len(n.args) == 1:
            v = self.ev(n.args[0])
            vec = as_vec(self, v)
            if vec is not None:
                return Val("nz", vec)
        if fn == "float" and len(n.args) == 1:
            v = self.ev(n.args[0])
            if v.k in ("int", "float", "bool"):
                return Val("float", self.to_float(v), PYFLOAT)
        if isinstance(n.func, ast.Attribute) and (fn is None or (n.func.attr == "dot" and fn not in self.c.call_facts)):
            # method calls on vectors / 1-d arrays:  v.sum(),  np.nonzero(v)[0].max(initial=-1),  x.dot(y)
            try:
                recv = self.ev(n.func.value)
            except Undecidable:
                recv = None
            if recv is not None:
                if n.func.attr == "transpose" and not n.args and recv.k == "arr" and recv.t.ndim == 2:
                    return self.method_call(recv, "transpose", n)
                if n.func.attr == "sum" and not n.args and (recv.k == "vec" or (recv.k == "arr" and recv.t.ndim == 1)):
                    return vsum(self, as_vec(self, recv))
                if n.func.attr == "sum" and not n.args and not n.keywords and recv.k == "arr" and recv.t.ndim == 2:
                    # M.sum(): the sum over all entries, row by row:  FSUM(lambda i. FSUM(lambda j. M[i, j], n1), n0)
                    mat = recv.t
                    isf = mat.elem is not None and mat.elem.kind == "float"
                    i_, j_ = fresh_idx(), fresh_idx()
                    inner = mk_fsum(self.select(mat, [i_, j_]), j_, mat.shape[1], isf, self)
                    tot = mk_fsum(inner, i_, mat.shape[0], isf, self)
                    return Val("float", tot, PYFLOAT) if isf else Val("int", tot, PYINT)
                if n.func.attr == "dot" and len(n.args) == 1 and not n.keywords and \
                        (recv.k == "vec" or (recv.k == "arr" and recv.t.ndim in (1, 2))):
                    arg0 = self.ev(n.args[0])
                    if recv.k == "arr" and recv.t.ndim == 2 and arg0.k in ("int", "float"):
                        return self.binop(ast.Mult(), recv, arg0, n)       # M.dot(scalar) = M * scalar
                    return vbinop(self, ast.MatMult(), recv, arg0, n)
                if n.func.attr == "max" and not n.args and not n.keywords and recv.k == "arr" and recv.t.ndim == 2 \
                        and recv.t.elem is not None and recv.t.elem.kind == "float" and getattr(self.c, "amax_spec", False):
                    # (only for contracts whose specification speaks about amax(M); elsewhere min / max keep the paired
                    #  lo <= every entry <= hi model of the engine)
                    return Val("float", amax_of(self, recv.t), PYFLOAT)
                if n.func.attr == "diagonal" and not n.args and not n.keywords and recv.k == "arr" and recv.t.ndim == 2:
                    mat = recv.t
                    ln = z3.simplify(z3.If(mat.shape[0] <= mat.shape[1], mat.shape[0], mat.shape[1]))
                    isf = mat.elem is not None and mat.elem.kind == "float"
                    return Val("vec", Vec(ln, lambda i, mat=mat: self.select(mat, [i, i]), "float" if isf else "int"))
                if n.func.attr == "max" and recv.k == "nz0":
                    kw = {k.arg: k.value for k in n.keywords}
                    if set(kw) == {"initial"} and isinstance(kw["initial"], ast.UnaryOp) and isinstance(kw["initial"].op, ast.USub) \
                            and isinstance(kw["initial"].operand, ast.Constant) and kw["initial"].operand.value == 1:
                        return lastnz(self, recv.t)
                    raise Undecidable("nonzero(...)[0].max without initial=-1")
    return _orig_call(self, n)


def _norm_bound(b, n, default):
    """Python slice bound b (z3 Int or None) on an axis of length n -> clamped index in [0, n]"""
    if b is None:
        return default
    nb = z3.If(b < 0, b + n, b)
    return z3.If(nb < 0, 0, z3.If(nb > n, n, nb))


def ndview(ex, base, items, node):
    """read-only view  A[l0:u0, l1:u1, ...]  (no steps; integer items drop the axis): a fresh array whose element at q is
    A[l + q] per sliced axis, with Python's clamping of the bounds"""
    a = base.t
    if len(items) > a.ndim:
        raise Undecidable("too many indices")
    items = list(items) + [ast.Slice(None, None, None)] * (a.ndim - len(items))
    starts, shape, fixed = [], [], []
    for d, it in enumerate(items):
        n_d = a.shape[d]
        if isinstance(it, ast.Slice):
            if it.step is not None:
                raise Undecidable(f"slice with a step: {symex.src_of(node)}")
            lo = _norm_bound(ex.to_int(ex.ev(it.lower)) if it.lower is not None else None, n_d, z3.IntVal(0))
            hi = _norm_bound(ex.to_int(ex.ev(it.upper)) if it.upper is not None else None, n_d, n_d)
            starts.append(lo)
            shape.append(z3.If(hi - lo > 0, hi - lo, 0))
            fixed.append(None)
        else:
            i = ex.to_int(ex.ev(it))
            if not ex.spec_mode:
                ex.oblige("bounds", f"{symex.src_of(node)}: 0 <= index{d} < extent{d}", z3.And(i >= 0, i < n_d), node)
            fixed.append(i)
            starts.append(None)
    qs = [z3.Int(f"vw{d}!{next(ex.n)}") for d in range(len(shape))]
    idx, k = [], 0
    for d in range(a.ndim):
        if fixed[d] is not None:
            idx.append(fixed[d])
        else:
            idx.append(starts[d] + qs[k])
            k += 1
    term = ex.select(a, idx)
    for q in reversed(qs):
        term = z3.Lambda([q], term)
    r = symex.ArrObj(f"view_{next(ex.n)}", a.elem, len(shape), ex.fm, shape=[z3.simplify(x) for x in shape], fresh=True)
    r.is_bool = getattr(a, "is_bool", False)
    r.contig = None
    ex.objs[r.id] = r
    ex.heap[r.id] = term
    return Val("arr", r, symex.T("arr", elem=a.elem, ndim=len(shape)))


def _ev_subscript(self, n):
    if self.c.py_mode and getattr(self.c, "vectors", False):
        items_ = n.slice.elts if isinstance(n.slice, ast.Tuple) else [n.slice]
        lead_ints = 0
        for i_ in items_:
            if isinstance(i_, ast.Slice):
                break
            lead_ints += 1
        col_like = any(isinstance(i_, ast.Slice) for i_ in items_) and \
            any(not isinstance(i_, ast.Slice) for i_ in items_[lead_ints:])      # an index AFTER a slice: A[:, i]
        if (any(isinstance(i, ast.Slice) and (i.lower is not None or i.upper is not None) for i in items_) or col_like) and \
                all(isinstance(i, ast.Slice) or not isinstance(i, (ast.List, ast.Tuple)) for i in items_):
            try:
                base0 = self.ev(n.value)
            except Undecidable:
                base0 = None
            if base0 is not None and base0.k == "arr" and (base0.t.ndim >= 2 or len(items_) >= 2):
                return ndview(self, base0, items_, n)
        if isinstance(n.slice, ast.Slice):
            base = self.ev(n.value)
            if base.k == "vec" or (base.k == "arr" and base.t.ndim == 1):
                return vslice(self, base, n.slice, n)
        else:
            try:
                base = self.ev(n.value) if isinstance(n.value, (ast.Call, ast.Name)) else None
            except Undecidable:
                base = None
            if base is not None and base.k == "nz":
                if isinstance(n.slice, ast.Constant) and n.slice.value == 0:
                    return Val("nz0", base.t)
                raise Undecidable("np.nonzero(...) index")
            if base is not None and base.k == "vec":
                vec = base.t
                if vec.present is not None:
                    raise Undecidable("index into a filtered vector")
                i = self.to_int(self.ev(n.slice))
                if not self.spec_mode:
                    self.oblige("bounds", f"{symex.src_of(n)}: 0 <= index < length", z3.And(i >= 0, i < vec.n), n)
                t = vec.f(i)
                return Val("float", t, PYFLOAT) if vec.kind == "float" else Val("int", _b2i(t), PYINT)
    return _orig_subscript(self, n)


def _ev_unary(self, n):
    if self.c.py_mode and getattr(self.c, "vectors", False) and isinstance(n.op, ast.USub):
        v = self.ev(n.operand)
        if v.k == "vec":
            vec = v.t
            return Val("vec", Vec(vec.n, lambda i: -_b2i(vec.f(i)), "float" if vec.kind == "float" else "int", vec.present))
        if v.k == "float":
            return Val("float", -v.t, v.ty, nan=v.nan)
        if v.k == "int":
            return Val("int", -v.t, v.ty)
    return _orig_unary(self, n)


def _ev_compare(self, n):
    if self.c.py_mode and getattr(self.c, "vectors", False) and len(n.ops) == 1:
        a, b = self.ev(n.left), self.ev(n.comparators[0])
        if (a.k == "vec" or b.k == "vec") and type(n.ops[0]) in (ast.Eq, ast.NotEq, ast.Lt, ast.LtE, ast.Gt, ast.GtE):
            return vcompare(self, n.ops[0], a, b, n)
    return _orig_compare(self, n)


def _spec_call(self, fn, n):
    if fn == "fsum":
        # fsum(lambda i: e, n): the indexed sum  e(0) + ... + e(n-1)   (0 for n <= 0)
        lam, cnt = n.args
        if not isinstance(lam, ast.Lambda) or len(lam.args.args) != 1:
            raise Undecidable("fsum needs a one-argument lambda")
        nn = self.to_int(self.ev(cnt))
        i = fresh_idx()
        saved = dict(self.bound_vars)
        self.bound_vars[lam.args.args[0].arg] = Val("int", i, PYINT)
        try:
            body = self.ev(lam.body)
        finally:
            self.bound_vars = saved
        if body.k == "float":
            return Val("float", mk_fsum(body.t, i, nn, True, self), PYFLOAT)
        return Val("int", mk_fsum(self.to_int(body), i, nn, False, self), PYINT)
    if fn == "lastnz":
        lam, cnt = n.args
        nn = self.to_int(self.ev(cnt))
        i = fresh_idx()
        saved = dict(self.bound_vars)
        self.bound_vars[lam.args.args[0].arg] = Val("int", i, PYINT)
        try:
            body = self.ev(lam.body)
        finally:
            self.bound_vars = saved
        kind = "float" if body.k == "float" else "int"
        vec = Vec(nn, lambda j, b=(body.t if kind == "float" else self.to_int(body)): z3.substitute(b, (i, j)), kind)
        return lastnz(self, vec)
    if fn == "log":
        return Val("float", UF_LOG(self.to_float(self.ev(n.args[0]))), PYFLOAT)
    if fn == "amax":
        v = self.ev(n.args[0])
        if v.k != "arr":
            raise Undecidable("amax of non-array")
        return Val("float", amax_of(self, v.t), PYFLOAT)
    return _orig_spec_call(self, fn, n)


symex.Exec.binop = _binop
symex.Exec.ev_Call = _ev_call
symex.Exec.ev_Subscript = _ev_subscript
symex.Exec.ev_UnaryOp = _ev_unary
symex.Exec.ev_Compare = _ev_compare
symex.Exec.spec_call = _spec_call


# ---------------------------------------------------------------- inlining of helper methods of the same class (py_mode)
_orig_opaque = symex.Exec.opaque_call


def _opaque_call(self, fn, n):
    """`self.<helper>(...)` where <helper> is a method of the class the region belongs to, has no assumed contract
    (call_facts) and no call assertion: the helper's current body is inlined (depth <= 2), so that moving code into
    a private helper does not take it out of the contract's reach."""
    if self.c.py_mode and getattr(self.c, "vectors", False) and isinstance(fn, str) and fn.startswith("self.") \
            and fn.count(".") == 1 and fn not in self.c.call_facts and not any(k.startswith(f"{fn}#") for k in self.c.call_facts) \
            and not any(k.split("#")[0] == "call:" + fn for k in self.c.asserts) and fn not in self.c.count_calls \
            and getattr(self, "inline_depth", 0) < 2 and getattr(self.f, "file", None):
        import ast as _ast
        cls = self.f.name.split(".")[0] if "." in self.f.name else None
        cls = cls or (self.f.qual.split(":")[-1].split(".")[0] if getattr(self.f, "qual", None) else None)
        helper = _find_method(self.f.file, cls, fn[5:])
        if helper is not None and not any(isinstance(d, _ast.Name) or isinstance(d, _ast.Attribute) or isinstance(d, _ast.Call)
                                          for d in helper.decorator_list):
            params = [a.arg for a in helper.args.args][1:]
            defaults = helper.args.defaults
            dmap = dict(zip(params[len(params) - len(defaults):], defaults)) if defaults else {}
            args = [self.ev(a) for a in n.args]
            kws = {k.arg: self.ev(k.value) for k in n.keywords if k.arg}
            bound = {}
            for i, pn in enumerate(params):
                if i < len(args):
                    bound[pn] = args[i]
                elif pn in kws:
                    bound[pn] = kws[pn]
                elif pn in dmap:
                    bound[pn] = self.ev(dmap[pn])
                else:
                    return _orig_opaque(self, fn, n)
            return _inline_py(self, helper, bound)
    return _orig_opaque(self, fn, n)


_method_cache = {}


def _find_method(path, cls, name):
    import ast as _ast
    key = (path, cls, name)
    if key not in _method_cache:
        found = None
        try:
            tree = _ast.parse(open(path).read())
            for c in tree.body:
                if isinstance(c, _ast.ClassDef) and c.name == cls:
                    for m in c.body:
                        if isinstance(m, _ast.FunctionDef) and m.name == name:
                            found = m
        except Exception:
            found = None
        _method_cache[key] = found
    return _method_cache[key]


def _inline_py(self, helper, bound):
    # locals of the helper live in their own scope; `self.<attr>` names are shared (they are keys "self.x" of vars)
    saved_vars = self.vars
    saved_ret, saved_exits, saved_ls = self.returns, self.exits, self.loop_stack
    shared_keys = {k: v for k, v in saved_vars.items() if k.startswith("self.") or k.startswith("#")}
    self.vars = dict(shared_keys)
    self.vars.update(bound)
    self.returns, self.exits, self.loop_stack = [], None, self.loop_stack + [("inline:" + helper.name, None)]
    self.inline_depth = getattr(self, "inline_depth", 0) + 1
    g0 = self.guard
    try:
        self.block(helper.body)
    finally:
        self.inline_depth -= 1
    rets = self.returns
    inner = self.vars
    self.vars = saved_vars
    for k, v in inner.items():
        if k.startswith("self.") or k.startswith("#"):
            self.vars[k] = v
    self.returns, self.exits, self.loop_stack = saved_ret, saved_exits, saved_ls
    self.guard = g0
    res = None
    for g, v, heap in reversed(rets):
        res = v if res is None else self.merge_vals(g, v, res)
    return res if res is not None else Val("none")


symex.Exec.opaque_call = _opaque_call


# ---------------------------------------------------------------- block stores  A[l0:u0, l1:u1] = B  and  B.transpose()
_orig_numpy_store = symex.Exec.numpy_store
_orig_method2 = symex.Exec.method_call


def _numpy_store(self, tgt, val, node):
    if getattr(self.c, "vectors", False) and val.k == "arr":
        items = self.index_list(tgt.slice)
        base = self.ev(tgt.value)
        if base.k == "arr" and len(items) == base.t.ndim and all(isinstance(i, ast.Slice) and i.step is None for i in items):
            a, b = base.t, val.t
            if b.ndim != a.ndim:
                return False
            los, his = [], []
            for d, it in enumerate(items):
                n_d = a.shape[d]
                lo = _norm_bound(self.to_int(self.ev(it.lower)) if it.lower is not None else None, n_d, z3.IntVal(0))
                hi = _norm_bound(self.to_int(self.ev(it.upper)) if it.upper is not None else None, n_d, n_d)
                los.append(lo)
                his.append(hi)
                self.oblige("shape", f"{symex.src_of(tgt)}: the assigned array has the extent of the target block (axis {d})",
                            b.shape[d] == z3.If(hi - lo > 0, hi - lo, 0), tgt)
            qs = [z3.Int(f"bs{d}!{next(self.n)}") for d in range(a.ndim)]
            inside = z3.And(*[z3.And(q >= lo, q < hi) for q, lo, hi in zip(qs, los, his)])
            src = self.select(b, [q - lo for q, lo in zip(qs, los)])
            if a.elem.kind == "float" and b.elem.kind != "float":
                src = z3.ToReal(src) if self.fm.mode == "R" else src
            term = z3.If(inside, src, self.select(a, qs))
            for q in reversed(qs):
                term = z3.Lambda([q], term)
            self.heap[a.id] = term
            return True
    return _orig_numpy_store(self, tgt, val, node)


def _method_call2(self, recv, name, n):
    if getattr(self.c, "vectors", False) and recv.k == "arr" and recv.t.ndim == 2 and name == "transpose" and not n.args:
        a = recv.t
        i, j = z3.Int(f"tr0!{next(self.n)}"), z3.Int(f"tr1!{next(self.n)}")
        r = symex.ArrObj(f"transpose_{next(self.n)}", a.elem, 2, self.fm, shape=[a.shape[1], a.shape[0]], fresh=True)
        r.is_bool = getattr(a, "is_bool", False)
        r.contig = None
        self.objs[r.id] = r
        self.heap[r.id] = z3.Lambda([i], z3.Lambda([j], self.select(a, [j, i])))
        return Val("arr", r, recv.ty)
    return _orig_method2(self, recv, name, n)


symex.Exec.numpy_store = _numpy_store
symex.Exec.method_call = _method_call2


# ---------------------------------------------------------------- M.T, np.maximum / np.minimum / np.mean([a, b], axis=0) on 2-d arrays
_orig_attr2 = symex.Exec.ev_Attribute
_prev_call = symex.Exec.ev_Call


def _ev_attribute(self, n):
    if self.c.py_mode and getattr(self.c, "vectors", False) and n.attr == "T":
        try:
            v = self.ev(n.value)
        except Undecidable:
            v = None
        if v is not None and v.k == "arr" and v.t.ndim == 2:
            return self.method_call(v, "transpose", ast.Call(func=n, args=[], keywords=[]))
    return _orig_attr2(self, n)


def _ev_call3(self, n):
    if self.c.py_mode and getattr(self.c, "vectors", False):
        fn = self.fname(n.func)
        kws = {k.arg: k.value for k in n.keywords}
        if fn in ("np.maximum", "np.minimum", "numpy.maximum", "numpy.minimum") and len(n.args) == 2 and set(kws) <= {"out"}:
            a, b = self.ev(n.args[0]), self.ev(n.args[1])
            if a.k == "arr" and b.k == "arr" and a.t.ndim == b.t.ndim and "out" in kws:
                # out=<array>: the result is written into that array (operands are read first - NumPy buffers overlapping
                # operands), which is returned
                o = self.ev(kws["out"])
                if o.k != "arr" or o.t.ndim != a.t.ndim:
                    raise Undecidable("out= target of np.minimum / np.maximum")
                isf = a.t.elem.kind == "float" or b.t.elem.kind == "float"
                mx = fn.endswith("maximum")

                def g(x, y):
                    xt = self.to_float(x) if isf else self.to_int(x)
                    yt = self.to_float(y) if isf else self.to_int(y)
                    return z3.If(xt >= yt, xt, yt) if mx else z3.If(xt <= yt, xt, yt)
                r = self.elementwise(g, a, b, elem=o.t.elem.name)
                if r.t.sort != o.t.sort:
                    raise Undecidable("out= target of another element sort")
                for d in range(a.t.ndim):
                    self.oblige("shape", f"{symex.src_of(n)}: out= array has the shape of the result (axis {d})",
                                o.t.shape[d] == r.t.shape[d], n)
                self.heap[o.t.id] = self.heap[r.t.id]
                return o
            if a.k == "arr" and b.k == "arr" and a.t.ndim == b.t.ndim:
                isf = a.t.elem.kind == "float" or b.t.elem.kind == "float"
                mx = fn.endswith("maximum")

                def f(x, y):
                    xt = self.to_float(x) if isf else self.to_int(x)
                    yt = self.to_float(y) if isf else self.to_int(y)
                    return z3.If(xt >= yt, xt, yt) if mx else z3.If(xt <= yt, xt, yt)
                return self.elementwise(f, a, b, elem="FLOAT64TYPE_t" if isf else "INT64TYPE_t")
        if fn in ("np.mean", "numpy.mean") and len(n.args) == 1 and isinstance(n.args[0], ast.List) and len(n.args[0].elts) >= 1:
            kw = {k.arg: k.value for k in n.keywords}
            if set(kw) == {"axis"} and isinstance(kw["axis"], ast.Constant) and kw["axis"].value == 0:
                vals = [self.ev(e) for e in n.args[0].elts]
                if all(v.k == "arr" and v.t.ndim == vals[0].t.ndim for v in vals):
                    cnt = len(vals)
                    return self.elementwise(lambda *xs: sum((self.to_float(x) for x in xs[1:]), self.to_float(xs[0])) / cnt,
                                            *vals, elem="FLOAT64TYPE_t")
    return _prev_call(self, n)


symex.Exec.ev_Attribute = _ev_attribute
symex.Exec.ev_Call = _ev_call3
