"""Scratch builds of the working tree of the repository under check.

The bounded layer never imports pyunicorn from the repository itself: the tree is copied to
a temporary directory outside /repo and /verif, its four Cython extensions are rebuilt there
from the *current* sources, and the directory is removed when the check ends.  The compiled
objects are cached under /verif/.cache keyed by a hash of every file that influences them
(setup.py, *.pyx, *.pxd, src_numerics.c); a cache hit is therefore byte-for-byte the build the
current sources would produce.  Pure-Python sources are always copied fresh.
"""
import atexit
import hashlib
import os
import shutil
import subprocess
import sys
import tempfile

VERIF = os.path.dirname(os.path.dirname(os.path.abspath(__file__)))
REPO = os.environ.get("PVC_REPO", "/repo")
CACHE = os.path.join(VERIF, ".cache")
_scratch = {}


def repo():
    return REPO


def src(*parts):
    return os.path.join(REPO, "src", "pyunicorn", *parts)


def _ext_sources():
    out = [os.path.join(REPO, "setup.py")]
    for root, _dirs, files in os.walk(os.path.join(REPO, "src")):
        for f in sorted(files):
            if f.endswith((".pyx", ".pxd")) or f == "src_numerics.c":
                out.append(os.path.join(root, f))
    return sorted(out)


def ext_hash(extra=""):
    h = hashlib.sha256()
    h.update(extra.encode())
    h.update(sys.version.encode())
    for p in _ext_sources():
        h.update(os.path.relpath(p, REPO).encode())
        with open(p, "rb") as f:
            h.update(f.read())
    return h.hexdigest()[:20]


def _cleanup():
    for d in list(_scratch.values()):
        shutil.rmtree(d, ignore_errors=True)
    _scratch.clear()


atexit.register(_cleanup)


def _prune_cache(keep=4):
    if not os.path.isdir(CACHE):
        return
    ents = [os.path.join(CACHE, d) for d in os.listdir(CACHE) if d.startswith("so-")]
    ents.sort(key=os.path.getmtime, reverse=True)
    for d in ents[keep:]:
        shutil.rmtree(d, ignore_errors=True)


def scratch_tree(sanitize=False):
    """Return the path of a scratch copy of the repository with freshly built extensions."""
    key = "san" if sanitize else "plain"
    if key in _scratch:
        return _scratch[key]
    tmp = tempfile.mkdtemp(prefix="pvc-build-")
    _scratch[key] = tmp
    subprocess.run(["rsync", "-a", "--exclude", "*.so", "--exclude", "__pycache__",
                    "--exclude", "*.egg-info", "--exclude", "/src/pyunicorn/*/_ext/numerics.c",
                    "--exclude", ".git", "--exclude", "/build", "--exclude", "/docs",
                    "--exclude", "/tests", REPO + "/", tmp + "/"], check=True)
    hsh = ext_hash("sanitize" if sanitize else "")
    cdir = os.path.join(CACHE, "so-" + hsh)
    pkgs = ["climate", "core", "funcnet", "timeseries"]
    if os.path.isdir(cdir) and all(os.path.exists(os.path.join(cdir, p + ".so")) for p in pkgs):
        for p in pkgs:
            shutil.copy2(os.path.join(cdir, p + ".so"),
                         os.path.join(tmp, "src", "pyunicorn", p, "_ext",
                                      "numerics.cpython-312-x86_64-linux-gnu.so"))
        os.utime(cdir)
        return tmp
    env = dict(os.environ)
    if sanitize:
        env["CC"] = "clang"
        env["LDSHARED"] = "clang -shared"
        env["CFLAGS"] = "-fsanitize=address,undefined -fno-sanitize-recover=undefined -fno-omit-frame-pointer -g -O1"
        env["LDFLAGS"] = "-fsanitize=address,undefined"
    r = subprocess.run(["/venv/bin/python", "setup.py", "build_ext", "--inplace", "-j8"],
                       cwd=tmp, env=env, capture_output=True, text=True)
    if r.returncode != 0:
        raise BuildError(r.stdout[-3000:] + r.stderr[-3000:])
    os.makedirs(cdir, exist_ok=True)
    for p in pkgs:
        so = os.path.join(tmp, "src", "pyunicorn", p, "_ext",
                          "numerics.cpython-312-x86_64-linux-gnu.so")
        shutil.copy2(so, os.path.join(cdir, p + ".so"))
    shutil.rmtree(os.path.join(tmp, "build"), ignore_errors=True)
    _prune_cache()
    return tmp


class BuildError(Exception):
    pass
