"""VC generator: guarded forward symbolic execution of one function (Python `ast` body + static
types, produced by front_cy / front_c / front_py) against a sidecar contract.

Semantics encoded (trusted base, see DESIGN.md section 3):
  * C integers are mathematical integers plus explicit side obligations: every +,-,* on a
    fixed-width C integer type must fit the promoted type (kind `overflow`), every store /
    cast into a narrower integer type must fit it (kind `narrow`);
  * typed-buffer / raw-pointer accesses yield a `bounds` obligation 0 <= index < extent;
  * integer and float division yield a `divzero` obligation (Cython cdivision=False raises);
  * floats: mode "R" = mathematical reals, mode "UF" = uninterpreted sort with uninterpreted
    operations (bit-exact "computes this expression" reasoning; only order axioms);
  * loops are cut at invariants (auto: range bounds; sidecar: everything else); variables and
    arrays assigned in a loop are havoc'd; calls are replaced by callee contracts or, for the
    small `cdef inline` helpers passed as function pointers, inlined;
  * random draws are havoc constrained to their documented range.
Distinct array parameters are assumed not to alias (listed as an assumption).
"""
import ast
import itertools

import z3

from .front_cy import T, OBJ, PYINT, PYFLOAT, BOOL, scalar_type, DTYPE_NAMES

I = z3.IntSort()
B = z3.BoolSort()
Rl = z3.RealSort()


class Undecidable(Exception):
    """The function uses a construct the generator cannot encode -> obligations inapplicable."""


# ---------------------------------------------------------------- values

class Val:
    __slots__ = ("k", "t", "ty", "extra", "nan")

    def __init__(self, k, t=None, ty=None, extra=None, nan=None):
        self.nan = nan      # z3 Bool "is NaN" (only in nan_aware contracts); None = never NaN
        self.k = k          # int | float | bool | arr | ptr | tuple | obj | func | none | slice
        self.t = t          # z3 term (int/float/bool), ArrObj (arr), (ArrObj, offset) (ptr), list (tuple)
        self.ty = ty        # static T (for ints: drives overflow obligations)
        self.extra = extra

    def __repr__(self):
        return f"Val({self.k},{self.t})"


class ArrObj:
    """A heap array: identity + current contents term + shape terms."""
    _ids = itertools.count()

    def __init__(self, name, elem, ndim, fm, shape=None, fresh=False):
        self.name = name
        self.elem = elem            # T of elements
        self.ndim = ndim
        self.id = next(ArrObj._ids)
        self.fresh = fresh
        es = fm.sort_of(elem)
        self.esort = es
        s = es
        for _ in range(ndim):
            s = z3.ArraySort(I, s)
        self.sort = s
        self.shape = shape if shape is not None else [z3.Int(f"{name}__d{d}") for d in range(ndim)]

    def __repr__(self):
        return f"<arr {self.name}>"


class LolObj:
    """A Python list of lists of ints: heap[(id,'len')] = outer length, heap[(id,'mult')][j][k] = number of
    occurrences of k in inner list j.  Order inside an inner list is not modelled (stated in the contract)."""
    _ids = itertools.count(1000000)

    def __init__(self, name):
        self.name = name
        self.id = next(LolObj._ids)


MULT_SORT = z3.ArraySort(I, z3.ArraySort(I, I))


class FloatModel:
    def __init__(self, mode="R"):
        self.mode = mode
        if mode == "UF":
            self.F = z3.DeclareSort("F")
            F = self.F
            self.fn = {
                "add": z3.Function("fadd", F, F, F), "sub": z3.Function("fsub", F, F, F),
                "mul": z3.Function("fmul", F, F, F), "div": z3.Function("fdiv", F, F, F),
                "neg": z3.Function("fneg", F, F), "abs": z3.Function("fabs", F, F),
                "sqrt": z3.Function("fsqrt", F, F), "pow": z3.Function("fpow", F, F, F),
                "lt": z3.Function("flt", F, F, B), "le": z3.Function("fle", F, F, B),
                "i2f": z3.Function("i2f", I, F), "f2i": z3.Function("f2i", F, I),
                "f32": z3.Function("f32", F, F), "floor": z3.Function("ffloor", F, F),
                "max": z3.Function("fmax", F, F, F), "min": z3.Function("fmin", F, F, F),
                "lit": z3.Function("flit", z3.StringSort(), F) if False else None,
            }
            self._lits = {}
        else:
            self.F = Rl

    def sort_of(self, t):
        if t is None:
            return I
        if t.kind == "float":
            return self.F
        if t.kind == "bool":
            return I
        if t.kind == "int":
            return I
        return I

    def lit(self, v):
        if self.mode == "R":
            return z3.RealVal(repr(float(v)) if not isinstance(v, int) else v)
        key = repr(float(v))
        if key not in self._lits:
            self._lits[key] = z3.Const("flit_" + key.replace(".", "_").replace("-", "m").replace("+", ""), self.F)
        return self._lits[key]

    def axioms(self):
        if self.mode != "UF":
            return []
        F = self.F
        x, y, zz = z3.Consts("fx fy fz", F)
        lt, le = self.fn["lt"], self.fn["le"]
        ax = [
            z3.ForAll([x], z3.Not(lt(x, x))),
            z3.ForAll([x, y], z3.Implies(lt(x, y), z3.Not(lt(y, x)))),
            z3.ForAll([x, y], le(x, y) == z3.Or(lt(x, y), x == y)),
            z3.ForAll([x, y, zz], z3.Implies(z3.And(lt(x, y), lt(y, zz)), lt(x, zz))),
            z3.ForAll([x, y], z3.Or(lt(x, y), lt(y, x), x == y)),   # no NaN (assumption)
        ]
        zero = self._lits.get("0.0")
        if zero is not None:
            ax += [z3.ForAll([x], self.fn["add"](x, zero) == x), z3.ForAll([x], self.fn["add"](zero, x) == x)]
        # literal ordering
        ks = sorted(self._lits, key=float)
        for a, b in zip(ks, ks[1:]):
            ax.append(lt(self._lits[a], self._lits[b]))
        return ax


# ---------------------------------------------------------------- obligations

class Obl:
    def __init__(self, func, kind, text, formula, line=None, hyps=None):
        self.func, self.kind, self.text = func, kind, text
        self.formula = formula      # z3 Bool: must be valid
        self.line = line
        self.id = None
        self.status = None
        self.model = None
        self.backend = None
        self.time = 0.0
        self.detail = ""


def src_of(node):
    try:
        return ast.unparse(node)
    except Exception:
        return "<expr>"


# ---------------------------------------------------------------- contracts

class Contract:
    """Sidecar contract of one function.

    requires / ensures: list of spec strings (Python expressions; see SpecEval)
    loops: {loop_key: [invariant strings]}   loop_key = dotted path of loop tokens
    float_mode: "R" | "UF";  inline: names of helper functions inlined at call sites
    bind: {param: python-constant or function name} - specialisation of parameters
    ghost: {name: (arg sorts..., result sort)} uninterpreted spec functions
    """

    def __init__(self, func, requires=(), ensures=(), loops=None, float_mode="R", bind=None,
                 ghost=None, lemmas=(), modifies=None, defs=(), name=None, checks=("bounds", "overflow", "narrow", "divzero", "frame"),
                 assume_types=True, note="", nan_aware=False, asserts=None, py_mode=False, inputs=None,
                 call_facts=None, count_calls=(), rtc_prefs=(), rtc_scope=0, lists=(), vectors=False, lists3=(), rtc_ensures=(), rtc_defs=(), rtc_ghost=None):
        # clauses evaluated by the run-time layer only (bounded): not proof obligations
        self.rtc_ensures, self.rtc_defs, self.rtc_ghost = list(rtc_ensures), list(rtc_defs), dict(rtc_ghost or {})
        self.lists3 = tuple(lists3)   # parameters that are lists of lists of int lists (read-only model)
        self.vectors = vectors      # py_mode: 1-d NumPy vector semantics of pvc/npvec.py
        self.timeout_ms = 3000 if vectors else None   # formula contracts: syntactic proofs take ms; go to the finite scope early
        self.lists = tuple(lists)   # parameters that are Python lists of int lists (modelled by multiplicity tables)
        self.rtc_prefs, self.rtc_scope = list(rtc_prefs), rtc_scope   # run-time contract check: soft input preferences
        self.count_calls = tuple(count_calls)   # ghost counters: number of executed calls of these functions
        self.py_mode = py_mode          # Python glue: unknown expressions are opaque instead of fatal
        self.inputs = inputs or {}      # py_mode: free variables of the region -> "int" | "float" | "obj"
        self.call_facts = call_facts or {}   # "<dotted call>": [spec facts assumed about its result `result`]
        self.nan_aware = nan_aware
        self.asserts = asserts or {}     # {"<statement source>[#n]": [spec, ...]} checked before it runs
        self.func = func
        self.requires, self.ensures = list(requires), list(ensures)
        self.loops = loops or {}
        self.float_mode = float_mode
        self.bind = bind or {}
        self.ghost = ghost or {}
        self.lemmas = list(lemmas)
        self.defs = list(defs)
        self.modifies = modifies
        self.name = name or func
        self.checks = set(checks) | {"frame", "fwidth"}
        self.note = note


def promote(a, b):
    """C usual arithmetic conversions on two int types (None bits = python int)."""
    if a is None or a.kind != "int":
        a = PYINT
    if b is None or b.kind != "int":
        b = PYINT
    if a.bits is None and b.bits is None:
        return PYINT
    if a.bits is None:
        a = b
    if b.bits is None:
        b = a
    bits = max(32, a.bits, b.bits)
    signed = True
    for x in (a, b):
        if x.bits == bits and not x.signed:
            signed = False
    return T("int", "long" if bits == 64 else ("unsigned int" if not signed else "int"), bits, signed)


class Exec:
    def __init__(self, func, contract, module, contracts=None):
        self.f = func
        self.c = contract
        self.mod = module              # {"funcs":..., "externs":..., "module_vars":...}
        self.contracts = contracts or {}
        self.fm = FloatModel(contract.float_mode)
        self.obls = []
        self.facts = []
        self.guard = z3.BoolVal(True)
        self.vars = {}
        self.heap = {}                 # ArrObj.id -> contents term
        self.objs = {}                 # ArrObj.id -> ArrObj
        self.entry_heap = {}
        self.entry_vars = {}
        self.n = itertools.count()
        self.types = dict(func.types)
        self.loop_stack = []
        self.exits = None
        self.returns = []              # (guard, Val, heap snapshot)
        self.ghosts = {}
        self.cur_line = func.lineno
        self.spec_mode = False
        self.bound_vars = {}
        self.inline_depth = 0
        self.labels = {}

    # ---- helpers
    def fresh(self, base, sort=I):
        return z3.Const(f"{base}!{next(self.n)}", sort)

    def assume(self, fact):
        self.facts.append(z3.Implies(self.guard, fact))

    def oblige(self, kind, text, formula, node=None):
        if self.spec_mode:
            return
        if kind not in self.c.checks and kind in ("bounds", "overflow", "narrow", "divzero"):
            if kind in ("bounds", "divzero") and self.f.lang == "cy":
                # not an obligation of this contract, but Cython raises (IndexError / ZeroDivisionError)
                # when it fails, so execution only continues when it holds
                self.assume(formula)
            return
        line = getattr(node, "orig_line", None) or self.cur_line
        o = Obl(self.f.name, kind, text, z3.Implies(z3.And(*self.facts, self.guard), formula), line)
        self.obls.append(o)
        # after checking, the fact may be used (failed obligation reported separately)
        self.assume(formula)

    def type_range_fact(self, term, ty):
        r = ty.rng() if ty is not None else None
        if r is None:
            return None
        return z3.And(term >= r[0], term <= r[1])

    # ---- value constructors
    def mk_int(self, t, ty=None):
        return Val("int", t, ty or PYINT)

    def mk_float(self, t, ty=None):
        return Val("float", t, ty or PYFLOAT)

    def mk_bool(self, t):
        return Val("bool", t, BOOL)

    def const_int(self, v):
        return Val("int", z3.IntVal(v), PYINT, extra=v)

    def to_bool(self, v):
        if v.k == "bool":
            return v.t
        if v.k == "int":
            return v.t != 0
        if v.k == "float":
            return v.t != self.fm.lit(0)
        if v.k == "none":
            return z3.BoolVal(False)
        if v.k == "lol3":           # truthiness of a list: non-empty
            return self.heap[(v.t.id, "len")] > 0
        if v.k == "lol3b":
            return z3.Select(self.heap[(v.t[0].id, "len2")], v.t[1]) > 0
        if v.k == "lol3c":
            return z3.Select(z3.Select(self.heap[(v.t[0].id, "ilen3")], v.t[1]), v.t[2]) > 0
        if v.k == "ilist":
            return z3.Select(self.heap[(v.t[0].id, "ilen")], v.t[1]) > 0
        if v.k in ("obj", "func", "arr"):
            t = self.fresh("truthy", B)
            if not self.spec_mode:
                self.labels.setdefault(("truthy",), []).append(t)      # an unknown condition of the Python glue
            return t
        raise Undecidable(f"truthiness of {v.k}")

    def to_int(self, v):
        if v.k == "int":
            return v.t
        if v.k == "bool":
            return z3.If(v.t, z3.IntVal(1), z3.IntVal(0))
        raise Undecidable(f"integer expected, got {v.k}")

    def to_float(self, v):
        if v.k == "float":
            return v.t
        if v.k in ("int", "bool"):
            it = self.to_int(v)
            if self.fm.mode == "R":
                return z3.ToReal(it)
            if v.extra is not None and isinstance(v.extra, int):
                return self.fm.lit(v.extra)
            return self.fm.fn["i2f"](it)
        raise Undecidable(f"float expected, got {v.k}")

    # ---- arrays
    def new_array(self, name, elem, ndim, shape=None, init=None, fresh=True):
        a = ArrObj(f"{name}_{next(self.n)}" if fresh else name, elem, ndim, self.fm, shape, fresh)
        self.objs[a.id] = a
        if init is None:
            cont = z3.Const(f"{a.name}__c", a.sort)
        else:
            cont = init
            for _ in range(ndim):
                pass
            # constant array nested
            s = a.esort
            cont = init
            sorts = []
            for _ in range(ndim):
                sorts.append(s)
                cont = z3.K(I, cont)
                s = z3.ArraySort(I, s)
        self.heap[a.id] = cont
        a.init_known = init is not None
        if self.c.nan_aware and elem is not None and elem.kind == "float":
            self.nan_heap(a)
        return a

    def select(self, a, idx):
        t = self.heap[a.id]
        for i in idx:
            t = z3.Select(t, i)
        return t

    def store(self, a, idx, val):
        def rec(t, ii):
            if len(ii) == 1:
                return z3.Store(t, ii[0], val)
            return z3.Store(t, ii[0], rec(z3.Select(t, ii[0]), ii[1:]))
        self.heap[a.id] = self._ite_heap(a, rec(self.heap[a.id], idx))

    def _ite_heap(self, a, new):
        # writes happen under the current guard: state merging handles it at joins,
        # so inside a branch we just overwrite.
        return new

    def elem_val(self, a, term, idx=None):
        e = a.elem
        if e is None or e.kind == "int" or e.kind == "bool":
            return Val("int", term, e if e is not None else PYINT)
        if e.kind == "float":
            nan = None
            if self.c.nan_aware and idx is not None:
                nan = self.nan_select(a, idx)
            return Val("float", term, e, nan=nan)
        return Val("obj", term, e)

    def nanof(self, v):
        return v.nan if (v.k == "float" and v.nan is not None) else z3.BoolVal(False)

    def nan_heap(self, a):
        key = (a.id, "nan")
        if key not in self.heap:
            srt = B
            for _ in range(a.ndim):
                srt = z3.ArraySort(I, srt)
            if a.fresh and getattr(a, "init_known", False):
                c = z3.BoolVal(False)
                for _ in range(a.ndim):
                    c = z3.K(I, c)
                self.heap[key] = c
            else:
                self.heap[key] = z3.Const(f"{a.name}__nan0", srt)
            if key not in self.entry_heap and not a.fresh:
                self.entry_heap[key] = self.heap[key]
        return self.heap[key]

    def nan_select(self, a, idx):
        t = self.nan_heap(a)
        for i in idx:
            t = z3.Select(t, i)
        return t

    def nan_store(self, a, idx, flag):
        def rec(t, ii):
            if len(ii) == 1:
                return z3.Store(t, ii[0], flag)
            return z3.Store(t, ii[0], rec(z3.Select(t, ii[0]), ii[1:]))
        self.heap[(a.id, "nan")] = rec(self.nan_heap(a), idx)

    def check_index(self, a, idx, node, what):
        for d, i in enumerate(idx):
            self.oblige("bounds", f"{what}: 0 <= index{d} < extent{d}",
                        z3.And(i >= 0, i < a.shape[d]), node)

    # ---- snapshot / merge
    def snapshot(self):
        return (dict(self.vars), dict(self.heap))

    def restore(self, snap):
        self.vars, self.heap = dict(snap[0]), dict(snap[1])

    def merge_vals(self, c, a, b):
        if a is b:
            return a
        if a is None or b is None:
            return a if b is None else b
        if a.k != b.k:
            if {a.k, b.k} <= {"int", "bool"}:
                return Val("int", z3.If(c, self.to_int(a), self.to_int(b)), a.ty if a.k == "int" else b.ty)
            if {a.k, b.k} <= {"int", "bool", "float"}:
                return Val("float", z3.If(c, self.to_float(a), self.to_float(b)), PYFLOAT)
            return Val("obj", None, OBJ)
        if a.k in ("int", "float", "bool"):
            if (a.t is b.t or z3.eq(a.t, b.t)) and a.nan is None and b.nan is None:
                return a
            nan = None
            if a.k == "float" and (a.nan is not None or b.nan is not None):
                nan = z3.If(c, self.nanof(a), self.nanof(b))
            return Val(a.k, z3.If(c, a.t, b.t), a.ty, a.extra if a.extra == b.extra else None, nan=nan)
        if a.k == "tuple" and len(a.t) == len(b.t):
            return Val("tuple", [self.merge_vals(c, x, y) for x, y in zip(a.t, b.t)])
        if a.k == "ptr":
            if a.t[0] is b.t[0]:
                return Val("ptr", (a.t[0], z3.If(c, a.t[1], b.t[1])), a.ty)
            raise Undecidable("pointer to different arrays at join")
        if a.k == "arr":
            if a.t is b.t:
                return a
            raise Undecidable("array variable bound to different arrays at join")
        if a.k == "ilist":
            if a.t[0] is b.t[0]:
                return Val("ilist", (a.t[0], z3.If(c, a.t[1], b.t[1])))
            return Val("obj", None, OBJ)
        return a

    def merge(self, c, s1, s2):
        """state := ite(c, s1, s2)"""
        v1, h1 = s1
        v2, h2 = s2
        vars_ = {}
        joined = {}
        for k in set(v1) | set(v2):
            a, b = v1.get(k), v2.get(k)
            if k.startswith("#"):       # ghost call counter: absent means zero
                a = a or Val("int", z3.IntVal(0), PYINT)
                b = b or Val("int", z3.IntVal(0), PYINT)
            if a is not None and b is not None and a.k == "arr" and b.k == "arr" and a.t is not b.t \
                    and a.t.ndim == b.t.ndim and a.t.sort == b.t.sort:
                # a name bound to different arrays in the two branches: a new array that is one or the other
                r = ArrObj(f"join_{next(self.n)}", a.t.elem, a.t.ndim, self.fm,
                           shape=[z3.If(c, x, y) for x, y in zip(a.t.shape, b.t.shape)], fresh=True)
                r.is_bool = getattr(a.t, "is_bool", False) and getattr(b.t, "is_bool", False)
                r.contig = True if (getattr(a.t, "contig", None) is True and getattr(b.t, "contig", None) is True) else None
                self.objs[r.id] = r
                joined[r.id] = z3.If(c, h1[a.t.id], h2[b.t.id])
                vars_[k] = Val("arr", r, a.ty)
                continue
            vars_[k] = self.merge_vals(c, a, b)
        heap = {}
        for k in set(h1) | set(h2):
            a, b = h1.get(k), h2.get(k)
            if a is None or b is None:
                heap[k] = a if b is None else b
            elif a is b or z3.eq(a, b):
                heap[k] = a
            else:
                heap[k] = z3.If(c, a, b)
        heap.update(joined)
        self.vars, self.heap = vars_, heap

    # ================================================================ expressions
    def ev(self, n):
        m = getattr(self, "ev_" + type(n).__name__, None)
        if m is None:
            if self.c.py_mode:
                for ch in ast.iter_child_nodes(n):
                    if isinstance(ch, ast.expr):
                        self.ev(ch)
                return Val("obj", None, OBJ)
            raise Undecidable(f"expression {type(n).__name__}: {src_of(n)}")
        if getattr(n, "orig_line", None):
            self.cur_line = n.orig_line
        if self.c.py_mode and not self.spec_mode:
            try:
                return m(n)
            except Undecidable:
                return Val("obj", None, OBJ)
        return m(n)

    def ev_Constant(self, n):
        v = n.value
        if isinstance(v, bool):
            return self.mk_bool(z3.BoolVal(v))
        if isinstance(v, int):
            return self.const_int(v)
        if isinstance(v, float):
            return Val("float", self.fm.lit(v), PYFLOAT, extra=v)
        if v is None:
            return Val("none")
        if isinstance(v, str):
            return Val("str", v)
        raise Undecidable(f"constant {v!r}")

    def ev_Name(self, n):
        name = n.id
        if name in self.bound_vars:
            return self.bound_vars[name]
        if name in self.vars:
            return self.vars[name]
        if name in self.c.bind:
            b = self.c.bind[name]
            if isinstance(b, bool):
                return Val("int", z3.IntVal(int(b)), scalar_type("bint"), extra=int(b))
            if isinstance(b, int):
                return self.const_int(b)
            if b is None:
                return Val("none")
            if isinstance(b, str):
                return Val("func", b)
        if name in DTYPE_NAMES:
            return Val("dtype", DTYPE_NAMES[name])
        if name in self.mod.get("funcs", {}):
            return Val("func", name)
        mv = self.mod.get("module_vars", {})
        if name in mv:
            if mv[name] == "None":
                return Val("none")
            return Val("func", mv[name])
        if name in ("np", "rd", "random", "cnp", "numpy", "math"):
            return Val("mod", name)
        if name in self.types:
            # declared but unassigned C variable: arbitrary value of its type
            v = self.havoc_scalar(name, self.types[name])
            self.vars[name] = v
            return v
        if self.c.py_mode:
            v = self.make_input(name, self.c.inputs.get(name, "obj"))
            self.vars[name] = v
            if name in self.c.inputs:
                self.entry_vars.setdefault(name, v)
            return v
        raise Undecidable(f"unknown name {name}")

    def make_input(self, name, kind):
        """py_mode: symbolic input of the region, typed by the contract:
        "int" | "float" | "bool" | "obj" | "arr:<elem>:<ndim>" (elem: int8, int32, int64, bool, float32, float64)"""
        safe = name.replace(".", "_")
        if kind == "int":
            return Val("int", z3.Int(safe), PYINT)
        if kind == "bool":
            t = z3.Int(safe)
            self.facts.append(z3.Or(t == 0, t == 1))
            return Val("int", t, scalar_type("bint"))
        if kind == "float":
            return Val("float", z3.Const(safe, self.fm.F), PYFLOAT,
                       nan=z3.Bool(safe + "_nan") if self.c.nan_aware else None)
        if kind.startswith("arr:"):
            _, el, nd = kind.split(":")
            et = {"int8": "INT8TYPE_t", "int16": "INT16TYPE_t", "int32": "INT32TYPE_t", "int64": "INT64TYPE_t",
                  "bool": "BOOLTYPE_t", "float32": "FLOAT32TYPE_t", "float64": "FLOAT64TYPE_t"}[el]
            a = ArrObj(safe, scalar_type(et), int(nd), self.fm)
            a.is_bool = (el == "bool")
            self.objs[a.id] = a
            self.heap[a.id] = z3.Const(f"{safe}__c0", a.sort)
            self.entry_heap[a.id] = self.heap[a.id]
            for sh in a.shape:
                self.facts.append(sh >= 0)
            if a.is_bool:
                qs = [z3.Int(f"bq{d}!{next(self.n)}") for d in range(a.ndim)]
                el_ = self.select(a, qs)
                self.facts.append(z3.ForAll(qs, z3.Or(el_ == 0, el_ == 1)))
            if self.c.nan_aware and a.elem.kind == "float":
                self.nan_heap(a)
            return Val("arr", a, T("arr", elem=a.elem, ndim=a.ndim))
        return Val("obj", None, OBJ)

    def havoc_scalar(self, name, ty):
        if ty is None:
            ty = OBJ
        if ty.kind == "int":
            t = self.fresh(name)
            r = self.type_range_fact(t, ty)
            if r is not None:
                self.facts.append(r)
            if ty.name == "bint":
                self.facts.append(z3.Or(t == 0, t == 1))
            return Val("int", t, ty)
        if ty.kind == "float":
            return Val("float", self.fresh(name, self.fm.F), ty,
                       nan=self.fresh(name + "_nan", B) if self.c.nan_aware else None)
        if ty.kind == "bool":
            return Val("bool", self.fresh(name, B), ty)
        return Val("obj", None, ty)

    def ev_Tuple(self, n):
        return Val("tuple", [self.ev(e) for e in n.elts])

    ev_List = ev_Tuple

    def ev_IfExp(self, n):
        c = self.to_bool(self.ev(n.test))
        sc = z3.simplify(c)
        if z3.is_true(sc):
            return self.ev(n.body)
        if z3.is_false(sc):
            return self.ev(n.orelse)
        g = self.guard
        self.guard = z3.And(g, c)
        a = self.ev(n.body)
        self.guard = z3.And(g, z3.Not(c))
        b = self.ev(n.orelse)
        self.guard = g
        return self.merge_vals(c, a, b)

    def ev_UnaryOp(self, n):
        v = self.ev(n.operand)
        if self.c.py_mode and v.k == "arr" and isinstance(n.op, ast.Invert) and getattr(v.t, "is_bool", False):
            return self.elementwise(lambda x: z3.If(self.to_bool(x), z3.IntVal(0), z3.IntVal(1)), v)
        if isinstance(n.op, ast.Not):
            return self.mk_bool(z3.Not(self.to_bool(v)))
        if isinstance(n.op, ast.USub):
            if v.k == "float":
                return Val("float", -v.t if self.fm.mode == "R" else self.fm.fn["neg"](v.t), v.ty,
                           -v.extra if v.extra is not None else None, nan=v.nan)
            t = self.to_int(v)
            return Val("int", -t, v.ty, -v.extra if v.extra is not None else None)
        if isinstance(n.op, ast.UAdd):
            return v
        raise Undecidable("unary op")

    def ev_BoolOp(self, n):
        g = self.guard
        is_and = isinstance(n.op, ast.And)
        acc = None
        for e in n.values:
            b = self.to_bool(self.ev(e))
            acc = b if acc is None else (z3.And(acc, b) if is_and else z3.Or(acc, b))
            sa = z3.simplify(acc)
            if (is_and and z3.is_false(sa)) or ((not is_and) and z3.is_true(sa)):
                acc = sa
                break       # short circuit decided by a constant: later operands are not evaluated
            self.guard = z3.And(g, acc if is_and else z3.Not(acc))
        self.guard = g
        return self.mk_bool(acc)

    def cmp(self, op, a, b, node=None):
        if a.k == "tuple" and b.k == "tuple" and isinstance(op, (ast.Eq, ast.NotEq)):
            if len(a.t) != len(b.t):
                r = z3.BoolVal(False)
            else:
                r = z3.And(*[self.cmp(ast.Eq(), x, y, node) for x, y in zip(a.t, b.t)]) if a.t else z3.BoolVal(True)
            return r if isinstance(op, ast.Eq) else z3.Not(r)
        if a.k == "none" or b.k == "none":
            same = (a.k == b.k)
            if isinstance(op, (ast.Is, ast.Eq)):
                return z3.BoolVal(same)
            if isinstance(op, (ast.IsNot, ast.NotEq)):
                return z3.BoolVal(not same)
            raise Undecidable("comparison with None")
        if a.k == "func" or b.k == "func":
            if isinstance(op, ast.Is):
                return z3.BoolVal(a.k == b.k and a.t == b.t)
            if isinstance(op, ast.IsNot):
                return z3.BoolVal(not (a.k == b.k and a.t == b.t))
        if a.k == "float" or b.k == "float":
            x, y = self.to_float(a), self.to_float(b)
            if self.fm.mode == "R":
                r = {ast.Lt: x < y, ast.LtE: x <= y, ast.Gt: x > y, ast.GtE: x >= y,
                     ast.Eq: x == y, ast.NotEq: x != y}[type(op)]
                if self.c.nan_aware and (a.nan is not None or b.nan is not None):
                    anynan = z3.Or(self.nanof(a), self.nanof(b))
                    r = z3.Or(anynan, r) if isinstance(op, ast.NotEq) else z3.And(z3.Not(anynan), r)
                return r
            lt, le = self.fm.fn["lt"], self.fm.fn["le"]
            return {ast.Lt: lt(x, y), ast.LtE: le(x, y), ast.Gt: lt(y, x), ast.GtE: le(y, x),
                    ast.Eq: x == y, ast.NotEq: x != y}[type(op)]
        if a.k in ("int", "bool") and b.k in ("int", "bool"):
            if a.k == "bool" and b.k == "bool" and isinstance(op, (ast.Eq, ast.NotEq)):
                r = a.t == b.t
                return r if isinstance(op, ast.Eq) else z3.Not(r)
            x, y = self.to_int(a), self.to_int(b)
            return {ast.Lt: x < y, ast.LtE: x <= y, ast.Gt: x > y, ast.GtE: x >= y,
                    ast.Eq: x == y, ast.NotEq: x != y, ast.Is: x == y, ast.IsNot: x != y}[type(op)]
        raise Undecidable(f"comparison of {a.k} and {b.k}")

    def elementwise(self, f, *vals, elem="BOOLTYPE_t"):
        """new array whose element at index q is f(element values at q) (NumPy broadcasting of scalars only)"""
        arrs = [v for v in vals if v.k == "arr"]
        a0 = arrs[0].t
        for v in arrs[1:]:
            for d in range(a0.ndim):
                self.oblige("shape", f"elementwise operation: operand shapes agree (axis {d})",
                            v.t.shape[d] == a0.shape[d]) if v.t.ndim == a0.ndim else None
            if v.t.ndim != a0.ndim:
                raise Undecidable("broadcasting between arrays of different rank")
        qs = [z3.Int(f"e{d}!{next(self.n)}") for d in range(a0.ndim)]
        elems = []
        for v in vals:
            if v.k == "arr":
                elems.append(self.elem_val(v.t, self.select(v.t, qs), qs))
            else:
                elems.append(v)
        body = f(*elems)
        et = scalar_type(elem)
        r = ArrObj(f"ew_{next(self.n)}", et, a0.ndim, self.fm, shape=list(a0.shape), fresh=True)
        r.contig = True
        r.is_bool = (elem == "BOOLTYPE_t")
        self.objs[r.id] = r
        term = body
        for q in reversed(qs):
            term = z3.Lambda([q], term)
        self.heap[r.id] = term
        return Val("arr", r, T("arr", elem=et, ndim=a0.ndim))

    def ev_Compare(self, n):
        if self.c.py_mode and len(n.ops) == 1 and isinstance(n.left, ast.Name) and \
                isinstance(n.ops[0], (ast.Eq, ast.NotEq, ast.In, ast.NotIn, ast.Is, ast.IsNot)):
            # comparison of an opaque name with a literal (mode strings ...): the SAME unknown truth value every time
            # the same comparison is evaluated while the name is not rebound
            rc = n.comparators[0]
            lit = isinstance(rc, ast.Constant) and isinstance(rc.value, str) or \
                (isinstance(rc, (ast.List, ast.Tuple)) and all(isinstance(e, ast.Constant) for e in rc.elts))
            cur = self.vars.get(n.left.id)
            if lit and (cur is None or cur.k == "obj") and n.left.id not in self.bound_vars and not self.spec_mode:
                ver = self.labels.get(("rebind", n.left.id), 0)
                key = ("litcmp", n.left.id, ver, ast.unparse(rc))
                if key not in self.labels:
                    t = self.fresh("truthy", B)
                    if not (n.left.id in self.c.inputs and ver == 0):
                        # (a declared input that was never rebound is chosen by the caller: its comparisons with
                        # literals are free, not "unknown conditions")
                        self.labels.setdefault(("truthy",), []).append(t)
                    self.labels[key] = t
                t = self.labels[key]
                neg = isinstance(n.ops[0], (ast.NotEq, ast.NotIn, ast.IsNot))
                return self.mk_bool(z3.Not(t) if neg else t)
        if self.c.py_mode and len(n.ops) == 1:
            l0, r0 = self.ev(n.left), self.ev(n.comparators[0])
            if l0.k == "arr" or r0.k == "arr":
                op = n.ops[0]
                return self.elementwise(lambda a, b: z3.If(self.cmp(op, a, b, n), z3.IntVal(1), z3.IntVal(0)), l0, r0)
            acc = self.cmp(n.ops[0], l0, r0, n)
            return self.mk_bool(acc)
        left = self.ev(n.left)
        acc = None
        for op, rn in zip(n.ops, n.comparators):
            right = self.ev(rn)
            c = self.cmp(op, left, right, n)
            acc = c if acc is None else z3.And(acc, c)
            left = right
        return self.mk_bool(acc)

    def arith_int(self, op, a, b, node):
        x, y = self.to_int(a), self.to_int(b)
        ta = a.ty if a.k == "int" else scalar_type("int")
        tb = b.ty if b.k == "int" else scalar_type("int")
        rty = promote(ta, tb)
        if isinstance(op, ast.Add):
            r = x + y
        elif isinstance(op, ast.Sub):
            r = x - y
        elif isinstance(op, ast.Mult):
            r = x * y
        elif isinstance(op, ast.FloorDiv):
            self.oblige("divzero", f"{src_of(node)}: divisor != 0", y != 0, node)
            r = x / y   # z3 int div is floor for positive divisor; python floor semantics otherwise
            if not self.spec_mode:
                r = z3.If(y > 0, x / y, -((-x) / (-y)) if False else z3.If(x % y == 0, x / y, x / y))
                # z3 `div` rounds so that remainder is non-negative: equals floor for y>0;
                # for y<0 it equals ceil -> adjust
                r = z3.If(y > 0, x / y, z3.If(x % (-y) == 0, x / y, x / y - 1))
        elif isinstance(op, ast.Mod):
            self.oblige("divzero", f"{src_of(node)}: divisor != 0", y != 0, node)
            r = z3.If(y > 0, x % y, -((-x) % (-y)))
        elif isinstance(op, ast.BitOr):
            # only truthiness is ever used by the kernels: keep zero-ness exact
            r = self.fresh("bitor")
            self.facts.append((r == 0) == z3.And(x == 0, y == 0))
            self.facts.append(z3.Implies(z3.And(x >= 0, y >= 0), z3.And(r >= 0, r <= x + y)))
        elif isinstance(op, ast.Pow):
            if b.extra is not None and isinstance(b.extra, int) and 0 <= b.extra <= 4:
                r = z3.IntVal(1)
                for _ in range(b.extra):
                    r = r * x
            else:
                raise Undecidable("integer power")
        else:
            raise Undecidable(f"int operator {type(op).__name__}")
        ext = None
        if a.extra is not None and b.extra is not None and isinstance(op, (ast.Add, ast.Sub, ast.Mult)):
            ext = {ast.Add: a.extra + b.extra, ast.Sub: a.extra - b.extra, ast.Mult: a.extra * b.extra}[type(op)]
        if rty.bits is not None and isinstance(op, (ast.Add, ast.Sub, ast.Mult, ast.Pow)) and not self.spec_mode:
            lo, hi = rty.rng()
            self.oblige("overflow", f"{src_of(node)} fits {rty.name}", z3.And(r >= lo, r <= hi), node)
        return Val("int", r, rty, ext)

    def arith_float(self, op, a, b, node):
        x, y = self.to_float(a), self.to_float(b)
        ty = PYFLOAT
        for v in (a, b):
            if v.k == "float" and v.ty is not None and v.ty.bits == 32 and all(
                    (w.k != "float" or (w.ty is not None and w.ty.bits == 32) or w.extra is not None) and w.k != "int" or w.extra is not None
                    for w in (a, b)):
                ty = T("float", "float", 32)
        R = self.fm.mode == "R"
        if isinstance(op, ast.Add):
            r = x + y if R else self.fm.fn["add"](x, y)
        elif isinstance(op, ast.Sub):
            r = x - y if R else self.fm.fn["sub"](x, y)
        elif isinstance(op, ast.Mult):
            r = x * y if R else self.fm.fn["mul"](x, y)
        elif isinstance(op, ast.Div):
            self.oblige("divzero", f"{src_of(node)}: divisor != 0", y != self.fm.lit(0), node)
            r = x / y if R else self.fm.fn["div"](x, y)
        elif isinstance(op, ast.Pow):
            if b.extra == 2:
                r = x * x if R else self.fm.fn["mul"](x, x)
            elif b.extra == 0.5:
                r = self.sqrt(x)
            else:
                if R:
                    r = self.fresh("pow", Rl)
                else:
                    r = self.fm.fn["pow"](x, y)
        else:
            raise Undecidable(f"float operator {type(op).__name__}")
        nan = None
        if self.c.nan_aware and (a.nan is not None or b.nan is not None):
            nan = z3.Or(self.nanof(a), self.nanof(b))
        return Val("float", r, ty, nan=nan)

    def sqrt(self, x):
        if self.fm.mode == "UF":
            return self.fm.fn["sqrt"](x)
        f = z3.Function("uf_sqrt", Rl, Rl)
        r = f(x)
        if not self.spec_mode:
            self.facts.append(z3.Implies(x >= 0, z3.And(r >= 0, r * r == x)))
        return r

    def ev_BinOp(self, n):
        a, b = self.ev(n.left), self.ev(n.right)
        return self.binop(n.op, a, b, n)

    def binop(self, op, a, b, n):
        if self.c.py_mode and (a.k == "arr" or b.k == "arr") and a.k in ("arr", "int", "float", "bool") \
                and b.k in ("arr", "int", "float", "bool"):
            isb = lambda v: v.k != "arr" or getattr(v.t, "is_bool", False)      # noqa
            if isinstance(op, (ast.BitAnd, ast.BitOr)) and isb(a) and isb(b):
                comb = z3.And if isinstance(op, ast.BitAnd) else z3.Or
                return self.elementwise(lambda x, y: z3.If(comb(self.to_bool(x), self.to_bool(y)), z3.IntVal(1), z3.IntVal(0)), a, b)
            if isinstance(op, (ast.Add, ast.Sub, ast.Mult, ast.Div)):
                fl = any((v.k == "arr" and v.t.elem.kind == "float") or v.k == "float" for v in (a, b)) or isinstance(op, ast.Div)
                if fl:
                    return self.elementwise(lambda x, y: self.arith_float(op, x, y, n).t, a, b, elem="FLOAT64TYPE_t")
                saved = self.spec_mode
                self.spec_mode = True       # NumPy integer arithmetic: no C overflow obligations here
                try:
                    return self.elementwise(lambda x, y: self.arith_int(op, x, y, n).t, a, b, elem="INT64TYPE_t")
                finally:
                    self.spec_mode = saved
        if a.k == "ptr" or b.k == "ptr":
            p, o = (a, b) if a.k == "ptr" else (b, a)
            off = self.to_int(o)
            if isinstance(op, ast.Sub):
                if a.k != "ptr":
                    raise Undecidable("int - pointer")
                off = -off
            elif not isinstance(op, ast.Add):
                raise Undecidable("pointer arithmetic")
            return Val("ptr", (p.t[0], p.t[1] + off), p.ty)
        if isinstance(op, ast.Div):
            if self.spec_mode and a.k != "float" and b.k != "float":
                return self.arith_float(op, a, b, n)
            return self.arith_float(op, a, b, n)
        if a.k == "float" or b.k == "float":
            return self.arith_float(op, a, b, n)
        if a.k in ("int", "bool") and b.k in ("int", "bool"):
            return self.arith_int(op, a, b, n)
        if a.k in ("arr", "obj") or b.k in ("arr", "obj"):
            return Val("obj", None, OBJ)        # whole-array arithmetic: value not tracked
        raise Undecidable(f"binary op on {a.k},{b.k}: {src_of(n)}")

    # ---- subscripts
    def index_list(self, sl):
        if isinstance(sl, ast.Tuple):
            return list(sl.elts)
        return [sl]

    def ev_Subscript(self, n):
        if self.c.py_mode and isinstance(n.value, ast.Name) and isinstance(n.slice, ast.Constant) and \
                isinstance(n.slice.value, (str, int)) and f"{n.value.id}.{n.slice.value}" in self.c.inputs:
            key = f"{n.value.id}.{n.slice.value}"
            if key not in self.vars:
                self.vars[key] = self.make_input(key, self.c.inputs[key])
                self.entry_vars.setdefault(key, self.vars[key])
            return self.vars[key]
        base = self.ev(n.value)
        items = self.index_list(n.slice)
        if base.k == "lol":
            if len(items) != 1:
                raise Undecidable("list-of-lists index")
            j = self.to_int(self.ev(items[0]))
            if not self.spec_mode:
                self.oblige("bounds", f"{src_of(n)}: list index within [0, len)",
                            z3.And(j >= 0, j < self.heap[(base.t.id, "len")]), n)
            return Val("ilist", (base.t, j))
        if base.k == "lol3":
            i_ = self.to_int(self.ev(items[0]))
            if not self.spec_mode:
                self.oblige("bounds", f"{src_of(n)}: list index within [0, len)",
                            z3.And(i_ >= 0, i_ < self.heap[(base.t.id, "len")]), n)
            return Val("lol3b", (base.t, i_))
        if base.k == "lol3b":
            lo, i_ = base.t
            a_ = self.to_int(self.ev(items[0]))
            if not self.spec_mode:
                self.oblige("bounds", f"{src_of(n)}: list index within [0, len)",
                            z3.And(a_ >= 0, a_ < z3.Select(self.heap[(lo.id, "len2")], i_)), n)
            return Val("lol3c", (lo, i_, a_))
        if base.k == "lol3c":
            lo, i_, a_ = base.t
            p_ = self.to_int(self.ev(items[0]))
            ln_ = z3.Select(z3.Select(self.heap[(lo.id, "ilen3")], i_), a_)
            if isinstance(items[0], ast.UnaryOp) and isinstance(items[0].op, ast.USub) and isinstance(items[0].operand, ast.Constant):
                p_ = ln_ + p_           # literal negative index: counted from the end
            if not self.spec_mode:
                self.oblige("bounds", f"{src_of(n)}: inner-list index within [0, len)",
                            z3.And(p_ >= 0, p_ < z3.Select(z3.Select(self.heap[(lo.id, "ilen3")], i_), a_)), n)
            return Val("int", z3.Select(z3.Select(z3.Select(self.heap[(lo.id, "elems3")], i_), a_), p_), PYINT)
        if base.k == "ilist":
            if len(items) != 1:
                raise Undecidable("inner-list index")
            lo, j = base.t
            p_ = self.to_int(self.ev(items[0]))
            if not self.spec_mode:
                self.oblige("bounds", f"{src_of(n)}: inner-list index within [0, len)",
                            z3.And(p_ >= 0, p_ < z3.Select(self.heap[(lo.id, "ilen")], j)), n)
            return Val("int", z3.Select(z3.Select(self.heap[(lo.id, "elems")], j), p_), PYINT)
        if base.k == "arr":
            a = base.t
            # edges[e, [0, 1]] -> tuple of two elements
            if len(items) == 2 and isinstance(items[1], ast.List):
                i0 = self.to_int(self.ev(items[0]))
                out = []
                for e in items[1].elts:
                    j = self.to_int(self.ev(e))
                    self.check_index(a, [i0, j], n, src_of(n))
                    out.append(self.elem_val(a, self.select(a, [i0, j]), [i0, j]))
                return Val("tuple", out)
            if any(isinstance(i, ast.Slice) for i in items):
                lead = [i for i in items if not isinstance(i, ast.Slice)]
                if any(isinstance(i, ast.Slice) and (i.lower or i.upper or i.step) for i in items) or \
                        any(isinstance(i, ast.Slice) for i in items[:len(lead)]):
                    raise Undecidable(f"slice {src_of(n)}")
                idx = [self.to_int(self.ev(i)) for i in lead]
                self.check_index(a, idx, n, src_of(n))
                return Val("row", (a, idx, self.select(a, idx)))
            if len(items) < a.ndim:
                idx = [self.to_int(self.ev(i)) for i in items]
                self.check_index(a, idx, n, src_of(n))
                if a.ndim - len(items) == 1 and a.shape[-1] is not None:
                    return Val("row", (a, idx, self.select(a, idx)))
                raise Undecidable(f"partial index {src_of(n)}")
            if len(items) != a.ndim:
                raise Undecidable(f"index arity {src_of(n)}")
            idx = [self.to_int(self.ev(i)) for i in items]
            self.check_index(a, idx, n, src_of(n))
            return self.elem_val(a, self.select(a, idx), idx)
        if base.k == "ptr":
            a, off = base.t
            if len(items) != 1:
                raise Undecidable("pointer index arity")
            i = off + self.to_int(self.ev(items[0]))
            self.oblige("bounds", f"{src_of(n)}: offset within [0, extent({a.name}))",
                        z3.And(i >= 0, i < a.shape[0]), n)
            return self.elem_val(a, self.select(a, [i]), [i])
        if base.k == "row":
            a, idx, _ = base.t
            j = self.to_int(self.ev(items[0]))
            self.check_index_dim(a, len(idx), j, n)
            return self.elem_val(a, self.select(a, idx + [j]), idx + [j])
        if base.k == "tuple" and len(items) == 1:
            iv = self.ev(items[0])
            if iv.extra is not None:
                return base.t[iv.extra]
        if base.k == "obj":
            for i in items:
                self.ev(i)
            return self.opaque_item(base, n)
        raise Undecidable(f"subscript on {base.k}: {src_of(n)}")

    def check_index_dim(self, a, d, i, node):
        self.oblige("bounds", f"{src_of(node)}: 0 <= index{d} < extent{d}", z3.And(i >= 0, i < a.shape[d]), node)

    def opaque_item(self, base, n):
        return Val("obj", None, OBJ)

    def ev_Attribute(self, n):
        if self.c.py_mode and isinstance(n.value, ast.Name) and n.value.id != "self":
            key = f"{n.value.id}.{n.attr}"
            if key in self.vars:
                return self.vars[key]
            if key in self.c.inputs:
                self.vars[key] = self.make_input(key, self.c.inputs[key])
                self.entry_vars.setdefault(key, self.vars[key])
                return self.vars[key]
        if self.c.py_mode and isinstance(n.value, ast.Name) and n.value.id == "self" and "self" not in self.c.inputs:
            key = "self." + n.attr
            if key not in self.vars:
                kind = self.c.inputs.get(key)
                if kind is None:
                    return Val("method", (Val("obj", None, OBJ), n.attr))
                self.vars[key] = self.make_input(key, kind)
                self.entry_vars.setdefault(key, self.vars[key])
            return self.vars[key]
        v = self.ev(n.value)
        if v.k == "mod":
            return Val("func", f"{v.t}.{n.attr}")
        if v.k == "func":
            return Val("func", f"{v.t}.{n.attr}")
        if v.k == "arr" and n.attr == "shape":
            return Val("tuple", [self.mk_int(s) for s in v.t.shape])
        if v.k in ("arr", "obj", "row", "lol", "ilist", "lol3", "lol3b", "lol3c"):
            return Val("method", (v, n.attr))
        raise Undecidable(f"attribute {src_of(n)}")

    # ================================================================ calls
    def fname(self, node):
        if isinstance(node, ast.Name):
            v = self.vars.get(node.id)
            if v is not None and v.k == "func":
                return v.t
            if node.id in self.c.bind and isinstance(self.c.bind[node.id], str):
                return self.c.bind[node.id]
            mv = self.mod.get("module_vars", {})
            if node.id in mv and node.id not in self.mod.get("funcs", {}):
                return mv[node.id]
            return node.id
        if isinstance(node, ast.Attribute):
            if isinstance(node.value, ast.Name) and (node.value.id in self.vars or node.value.id in self.types) \
                    and node.value.id not in ("np", "rd", "random", "cnp"):
                return None     # method call on a program variable
            b = self.fname(node.value)
            return None if b is None else f"{b}.{node.attr}"
        return None

    def rand_index(self, bound):
        """floor(U[0,1) * bound) / randint(bound): havoc constrained to its range."""
        d = self.fresh("draw")
        self.assume(z3.Implies(bound > 0, z3.And(d >= 0, d < bound)))
        self.assume(z3.Implies(bound <= 0, z3.And(d >= bound, d <= 0)))
        return Val("int", d, scalar_type("long"))

    def is_random_call(self, node):
        return isinstance(node, ast.Call) and self.fname(node.func) in ("rd.random", "random.random", "np.random.random")

    def match_rand_floor(self, node):
        """patterns  floor(random()*X), np.floor(..), int(floor(..))"""
        if isinstance(node, ast.Call):
            fn = self.fname(node.func)
            if fn in ("int", "floor", "np.floor", "math.floor") and len(node.args) == 1:
                inner = node.args[0]
                r = self.match_rand_floor(inner)
                if r is not None:
                    return r
                if isinstance(inner, ast.BinOp) and isinstance(inner.op, ast.Mult):
                    for rnd, other in ((inner.left, inner.right), (inner.right, inner.left)):
                        if self.is_random_call(rnd):
                            return other
        return None

    def ev_Call(self, n):
        other = self.match_rand_floor(n)
        if other is not None:
            return self.rand_index(self.to_int(self.ev(other)))
        fn = self.fname(n.func)
        if fn is None:
            if self.c.py_mode and isinstance(n.func, ast.Attribute):
                try:
                    recv = self.ev(n.func.value)
                except Undecidable:
                    recv = None
                if recv is not None and recv.k == "arr" and n.func.attr in ("copy", "fill", "min", "max"):
                    return self.method_call(recv, n.func.attr, n)
            if self.c.py_mode:
                d = None
                try:
                    d = ast.unparse(n.func)
                except Exception:
                    pass
                return self.opaque_call(d or "<call>", n)
            m = self.ev(n.func)
            if m.k == "method":
                return self.method_call(m.t[0], m.t[1], n)
            raise Undecidable(f"call {src_of(n)}")
        kw = {k.arg: k.value for k in n.keywords}
        if fn == "__cast__":
            return self.cast(n.args[0].value, self.ev(n.args[1]), n)
        if fn in ("abs", "fabs", "np.abs"):
            v = self.ev(n.args[0])
            if v.k == "float":
                t = z3.If(v.t >= 0, v.t, -v.t) if self.fm.mode == "R" else self.fm.fn["abs"](v.t)
                return Val("float", t, v.ty, nan=v.nan)
            t = self.to_int(v)
            return Val("int", z3.If(t >= 0, t, -t), v.ty)
        if fn in ("sqrt", "np.sqrt", "math.sqrt"):
            return Val("float", self.sqrt(self.to_float(self.ev(n.args[0]))), PYFLOAT)
        if fn in ("log", "exp", "np.log", "tanh", "cos", "sin", "arccos"):
            x = self.to_float(self.ev(n.args[0]))
            f = z3.Function("uf_" + fn.replace(".", "_"), self.fm.F, self.fm.F)
            return Val("float", f(x), PYFLOAT)
        if fn in ("np.ceil", "math.ceil", "ceil"):
            v = self.ev(n.args[0])
            if v.k != "float":
                return v
            if self.fm.mode == "R":
                return Val("float", z3.ToReal(-z3.ToInt(-v.t)), PYFLOAT)
            return Val("float", self.fresh("ceil", self.fm.F), PYFLOAT)
        if fn in ("floor", "np.floor", "math.floor"):
            v = self.ev(n.args[0])
            if v.k != "float":
                return v
            if self.fm.mode == "R":
                return Val("float", z3.ToReal(z3.ToInt(v.t)), PYFLOAT)
            return Val("float", self.fm.fn["floor"](v.t), PYFLOAT)
        if fn in ("min", "max") and self.c.py_mode:
            vs0 = [self.ev(a) for a in n.args]
            if any(v.k not in ("int", "float", "bool") for v in vs0):
                # some operand is opaque: the result is only known to dominate / be dominated by the others
                known = [v for v in vs0 if v.k in ("int", "bool")]
                r = self.fresh(fn)
                for v in known:
                    self.assume(r >= self.to_int(v) if fn == "max" else r <= self.to_int(v))
                return Val("int", r, PYINT) if known and len(known) == len([v for v in vs0 if v.k != "obj"]) else Val("obj", None, OBJ)
        if fn in ("min", "max"):
            vs = [self.ev(a) for a in n.args]
            acc = vs[0]
            for v in vs[1:]:
                if acc.k == "float" or v.k == "float":
                    x, y = self.to_float(acc), self.to_float(v)
                    # width of the result: the wider float operand (integers do not widen)
                    fts = [w.ty for w in (acc, v) if w.k == "float" and w.ty is not None and w.ty.bits]
                    rty = max(fts, key=lambda t_: t_.bits) if len(fts) == sum(1 for w in (acc, v) if w.k == "float") and fts else PYFLOAT
                    if self.fm.mode == "R":
                        c = (x <= y) if fn == "min" else (x >= y)
                        acc = Val("float", z3.If(c, x, y), rty)
                    else:
                        acc = Val("float", self.fm.fn[fn](x, y), rty)
                else:
                    x, y = self.to_int(acc), self.to_int(v)
                    c = (x <= y) if fn == "min" else (x >= y)
                    acc = Val("int", z3.If(c, x, y), promote(acc.ty, v.ty))
            return acc
        if fn == "int":
            v = self.ev(n.args[0])
            if v.k == "obj" and self.c.py_mode:
                return Val("int", self.fresh("int"), PYINT)
            if v.k == "float":
                return self.f2i(v, n)
            return Val("int", self.to_int(v), v.ty if v.k == "int" else PYINT, v.extra)
        if fn == "float":
            v = self.ev(n.args[0])
            return Val("float", self.to_float(v), PYFLOAT, v.extra)
        if fn == "bool":
            return self.mk_bool(self.to_bool(self.ev(n.args[0])))
        if fn == "tuple" and len(n.args) == 1:
            v = self.ev(n.args[0])
            if v.k == "tuple":
                return v
            raise Undecidable("tuple() of non-tuple")
        if fn == "to_cy" and self.c.py_mode and len(n.args) == 2:
            # core/_ext/types.py: arr.astype(dtype, copy=True, order='c'): same shape, C-contiguous, fresh
            v = self.ev(n.args[0])
            if v.k != "arr":
                raise Undecidable("to_cy of non-array")
            et = self.dtype_of(n.args[1])
            r = ArrObj(f"tocy_{next(self.n)}", et, v.t.ndim, self.fm, shape=list(v.t.shape), fresh=True)
            r.contig = True
            r.is_bool = getattr(v.t, "is_bool", False)
            self.objs[r.id] = r
            same = (et.kind == v.t.elem.kind) or (et.kind == "int" and v.t.elem.kind in ("int", "bool"))
            self.heap[r.id] = self.heap[v.t.id] if same and r.sort == v.t.sort else z3.Const(f"{r.name}__c", r.sort)
            return Val("arr", r, T("arr", elem=et, ndim=r.ndim, mode="c"))
        if fn == "len":
            v = self.ev(n.args[0])
            if v.k == "arr":
                return Val("int", v.t.shape[0], scalar_type("Py_ssize_t"))
            if v.k == "tuple":
                return self.const_int(len(v.t))
            if v.k == "lol":
                return Val("int", self.heap[(v.t.id, "len")], scalar_type("Py_ssize_t"))
            if v.k == "ilist":
                return Val("int", z3.Select(self.heap[(v.t[0].id, "ilen")], v.t[1]), scalar_type("Py_ssize_t"))
            if v.k == "lol3":
                return Val("int", self.heap[(v.t.id, "len")], scalar_type("Py_ssize_t"))
            if v.k == "lol3b":
                return Val("int", z3.Select(self.heap[(v.t[0].id, "len2")], v.t[1]), scalar_type("Py_ssize_t"))
            if v.k == "lol3c":
                return Val("int", z3.Select(z3.Select(self.heap[(v.t[0].id, "ilen3")], v.t[1]), v.t[2]), scalar_type("Py_ssize_t"))
            if v.k == "obj":
                r = self.fresh("len")
                self.facts.append(r >= 0)
                return Val("int", r, scalar_type("Py_ssize_t"))
            raise Undecidable("len")
        if fn == "range":
            return Val("range", [self.ev(a) for a in n.args])
        if fn == "print":
            return Val("none")
        if fn in ("np.zeros", "np.ones", "np.empty"):
            return self.np_alloc(fn, n, kw)
        if fn == "np.repeat" and self.c.py_mode and len(n.args) == 2 and isinstance(n.args[0], ast.Constant) \
                and isinstance(n.args[0].value, bool):
            cnt = self.ev(n.args[1])
            ln = self.to_int(cnt) if cnt.k in ("int", "bool") else self.fresh("replen")
            self.assume(ln >= 0)
            a = self.new_array("repeat", scalar_type("BOOLTYPE_t"), 1, shape=[ln], init=z3.IntVal(int(n.args[0].value)))
            a.is_bool = True
            a.contig = True
            return Val("arr", a, T("arr", elem=a.elem, ndim=1))
        if fn == "np.array":
            return self.np_array(n, kw)
        if fn in ("randint", "rd.randint", "np.random.randint"):
            if kw.get("size") is not None:
                return self.randint_array(n, kw)
            b = self.to_int(self.ev(n.args[0]))
            return self.rand_index(b)
        if fn in ("rd.random", "random.random"):
            r = self.fresh("u01", self.fm.F)
            if self.fm.mode == "R":
                self.facts.append(z3.And(r >= 0, r < 1))
            return Val("float", r, PYFLOAT)
        if fn == "cnp.PyArray_DATA":
            v = self.ev(n.args[0])
            if v.k != "arr":
                raise Undecidable("PyArray_DATA of non-array")
            return Val("rawdata", v.t)
        if fn in ("random.seed",):
            for a in n.args:
                self.ev(a)
            return Val("none")
        if fn in ("np.min", "np.max"):
            if len(n.args) == 1 and isinstance(n.args[0], (ast.Tuple, ast.List)) and self.fm.mode == "R":
                vals = [self.to_float(self.ev(e)) for e in n.args[0].elts]
                acc = vals[0]
                for v in vals[1:]:
                    acc = z3.If(acc <= v, acc, v) if fn == "np.min" else z3.If(acc >= v, acc, v)
                return Val("float", acc, PYFLOAT)
            return Val("float", self.fresh(fn.replace(".", "_"), self.fm.F), PYFLOAT)
        if fn == "__alloca__":
            nbytes = self.to_int(self.ev(n.args[0]))
            return Val("alloca", nbytes)
        # user function: inline helper or contract
        if fn in self.mod.get("funcs", {}) or fn in self.mod.get("externs", {}) or fn in self.mod.get("cfuncs", {}):
            return self.user_call(fn, n)
        if self.c.py_mode:
            return self.opaque_call(fn, n)
        raise Undecidable(f"call to {fn}")

    def opaque_call(self, fn, n):
        """py_mode: a call into code outside the region.  Arguments are evaluated; assertions keyed
        `call:<name>` are checked with arg0.. / kw_<name> bound; `call_facts` give what is assumed
        about the result (an assumed contract of a dependency, listed in the evidence)."""
        args = [self.ev(a) for a in n.args]
        kws = {k.arg: self.ev(k.value) for k in n.keywords if k.arg}
        outv = kws.get("out")
        if outv is not None and outv.k == "arr" and outv.t.id in self.heap:
            # NumPy `out=`: the callee writes its result into that array - contents unknown from here on
            self.heap[outv.t.id] = z3.Const(f"{outv.t.name}__out{next(self.n)}", outv.t.sort)
        if fn in self.c.count_calls:
            gv = "#" + fn
            cur = self.vars.get(gv) or Val("int", z3.IntVal(0), PYINT)
            self.vars[gv] = Val("int", cur.t + 1, PYINT)
        key = "call:" + fn
        if any(k.split("#")[0] == key for k in self.c.asserts):
            cnt = self.labels.get(("stmtcnt", key), 0) + 1
            self.labels[("stmtcnt", key)] = cnt
            kk = key if cnt == 1 and key in self.c.asserts else f"{key}#{cnt}"
            saved_b = dict(self.bound_vars)
            for i, a in enumerate(args):
                self.bound_vars[f"arg{i}"] = a
                if a.k == "tuple":
                    for q, e in enumerate(a.t):
                        self.bound_vars[f"arg{i}_{q}"] = e
            for k, v in kws.items():
                self.bound_vars["kw_" + k] = v
            for a in self.c.asserts.get(kk, []):
                try:
                    f = self.spec(a)
                except Undecidable as e:
                    # an assertion that cannot be evaluated (an argument became opaque ...) must not vanish: it stays an
                    # open obligation (unconstrained truth value -> never proved; reported as undecided, see runner)
                    self.labels.setdefault(("abstracted",), []).append(f"assertion `{a[:60]}` at {kk} not evaluable ({e})")
                    f = self.fresh("unevaluable", B)
                self.oblige("assert", f"at {kk} `{src_of(n)[:80]}`: {a}", f, n)
            self.bound_vars = saved_b
        occ = self.labels.get(("callocc", fn), 0) + 1
        self.labels[("callocc", fn)] = occ
        facts = self.c.call_facts.get(f"{fn}#{occ}") or self.c.call_facts.get(fn)
        if facts:
            arity = facts.get("returns", 1)
            if isinstance(arity, str):
                res = self.make_input(f"ret_{fn.replace('.', '_')}_{next(self.n)}", arity)
            elif arity == 1:
                res = self.havoc_scalar("ret", scalar_type("long")) if facts.get("type") == "int" else Val("obj", None, OBJ)
            else:
                res = Val("tuple", [self.havoc_scalar(f"ret{q}", scalar_type("long")) if t == "int" else
                                    (self.make_input(f"ret{q}_{fn.replace('.', '_')}_{next(self.n)}", "float") if t == "float"
                                     else Val("obj", None, OBJ))
                                    for q, t in enumerate(facts["types"])])
            saved_b = dict(self.bound_vars)
            self.bound_vars["result"] = res
            if res.k == "tuple":
                for q, e in enumerate(res.t):
                    self.bound_vars[f"result_{q}"] = e
            for i, a in enumerate(args):
                self.bound_vars[f"arg{i}"] = a
            for k, v in kws.items():
                self.bound_vars["kw_" + k] = v
            for ftxt in facts.get("ensures", []):
                self.assume(self.spec(ftxt))
            self.bound_vars = saved_b
            return res
        return Val("obj", None, OBJ)

    def f2i(self, v, node):
        """C cast double -> integer (truncation); out-of-range is undefined behaviour."""
        if self.fm.mode == "R":
            fl = z3.ToInt(v.t)
            t = z3.If(v.t >= 0, fl, z3.If(z3.ToReal(fl) == v.t, fl, fl + 1))
            return Val("int", t, PYINT)
        return Val("int", self.fm.fn["f2i"](v.t), PYINT)

    def cast(self, tname, v, node):
        if tname.endswith("*"):
            et = scalar_type(tname[:-1])
            if v.k == "rawdata":
                a = v.t
                # reinterpretation: element width must agree (obligation of kind `width`)
                ok = et is not None and a.elem is not None and et.kind == a.elem.kind and et.bits == a.elem.bits
                self.oblige("width", f"pointer cast <{tname}> of array {a.name.split('_')[0]} with element type "
                            f"{a.elem!r}: element widths agree", z3.BoolVal(bool(ok)), node)
                flat = self.flat_view(a, node)
                return Val("ptr", (flat, z3.IntVal(0)), T("ptr", elem=et))
            if v.k == "ptr":
                return v
            if v.k == "alloca":
                et = et or scalar_type("char")
                nb = et.bits // 8
                a = self.new_array("alloca", et, 1)
                self.facts.append(a.shape[0] * nb == v.t)
                return Val("ptr", (a, z3.IntVal(0)), T("ptr", elem=et))
            raise Undecidable(f"pointer cast of {v.k}")
        ty = scalar_type(tname)
        if ty is None:
            raise Undecidable(f"cast to {tname}")
        if ty.kind == "float":
            return Val("float", self.to_float(v), ty, v.extra)
        if v.k == "float":
            iv = self.f2i(v, node)
            lo, hi = ty.rng()
            if self.fm.mode == "R":
                self.oblige("narrow", f"{src_of(node)}: float value fits {ty.name}",
                            z3.And(v.t > lo - 1, v.t < hi + 1), node)
            return Val("int", iv.t, ty)
        t = self.to_int(v)
        if ty.bits is not None:
            lo, hi = ty.rng()
            src_rng = v.ty.rng() if (v.k == "int" and v.ty is not None) else None
            if not (src_rng and src_rng[0] >= lo and src_rng[1] <= hi):
                self.oblige("narrow", f"{src_of(node)}: value fits {ty.name}", z3.And(t >= lo, t <= hi), node)
        return Val("int", t, ty, v.extra)

    def flat_view(self, a, node):
        """Row-major flat view of an n-d array handed to C as a raw pointer.  The view shares the
        contents through an uninterpreted bijection only as far as the kernels need it: extents."""
        key = ("flat", a.id)
        if key in self.labels:
            return self.labels[key]
        f = ArrObj(f"{a.name}__flat", a.elem, 1, self.fm)
        self.objs[f.id] = f
        ext = z3.IntVal(1)
        for s in a.shape:
            ext = ext * s
        self.facts.append(f.shape[0] == ext)
        self.heap[f.id] = z3.Const(f"{f.name}__c", f.sort)
        f.origin = a
        self.labels[key] = f
        if a.ndim > 1 and getattr(a, "contig", None) is not True and not a.fresh:
            self.oblige("contig", f"array {a.name.split('_')[0]} handed to C as raw pointer is C-contiguous",
                        self.contig_term(a), node)
        # contents: every flat element is some element of the n-d array (row-major decomposition exists)
        q = z3.Int(f"fq!{next(self.n)}")
        comps = [z3.Function(f"{f.name}__ix{d}", I, I)(q) for d in range(a.ndim)]
        self.facts.append(z3.ForAll([q], z3.Implies(
            z3.And(q >= 0, q < ext),
            z3.And(*[z3.And(c >= 0, c < s) for c, s in zip(comps, a.shape)],
                   z3.Select(self.heap[f.id], q) == self.select(a, comps)))))
        return f

    def dtype_of(self, node):
        if node is None:
            return scalar_type("double")
        v = self.ev(node)
        if v.k == "dtype":
            return scalar_type(v.t)
        if v.k == "str":
            m = {"int8": "INT8TYPE_t", "int16": "INT16TYPE_t", "int32": "INT32TYPE_t", "int64": "INT64TYPE_t",
                 "float32": "FLOAT32TYPE_t", "float64": "FLOAT64TYPE_t", "float": "FLOAT64TYPE_t", "int": "INT64TYPE_t"}
            if v.t in m:
                return scalar_type(m[v.t])
        raise Undecidable(f"dtype {src_of(node)}")

    def np_alloc(self, fn, n, kw):
        shp = self.ev(n.args[0])
        dims = [self.to_int(x) for x in shp.t] if shp.k == "tuple" else [self.to_int(shp)]
        et = self.dtype_of(kw.get("dtype") or (n.args[1] if len(n.args) > 1 else None))
        for d in dims:
            # negative dimensions raise ValueError in NumPy (allowed rejection): continue with d >= 0
            self.assume(d >= 0)
        init = None
        if fn != "np.empty":
            c = 0 if fn == "np.zeros" else 1
            init = z3.IntVal(c) if et.kind == "int" else self.fm.lit(c)
        a = self.new_array(fn.split(".")[1], et, len(dims), shape=dims, init=init)
        a.contig = True
        return Val("arr", a, T("arr", elem=et, ndim=len(dims), mode="c"))

    def np_array(self, n, kw):
        et = self.dtype_of(kw.get("dtype"))
        lit = n.args[0]
        # np.array([[]]) -> shape (1,0); np.array([]) -> shape (0,)
        def shape_of(x):
            if isinstance(x, (ast.List, ast.Tuple)):
                if not x.elts:
                    return [0]
                return [len(x.elts)] + shape_of(x.elts[0])
            return []
        shp = shape_of(lit)
        if 0 not in shp:
            raise Undecidable("np.array of non-empty literal")
        a = self.new_array("nparray", et, len(shp), shape=[z3.IntVal(s) for s in shp])
        a.contig = True
        return Val("arr", a, T("arr", elem=et, ndim=len(shp)))

    def randint_array(self, n, kw):
        hi = self.to_int(self.ev(n.args[0]))
        shp = self.ev(kw["size"])
        dims = [self.to_int(x) for x in shp.t] if shp.k == "tuple" else [self.to_int(shp)]
        et = self.dtype_of(kw.get("dtype")) if kw.get("dtype") is not None else scalar_type("INT64TYPE_t")
        a = self.new_array("randint", et, len(dims), shape=dims)
        a.contig = True
        qs = [z3.Int(f"q{i}!{next(self.n)}") for i in range(len(dims))]
        sel = self.select(a, qs)
        self.facts.append(z3.ForAll(qs, z3.And(sel >= 0, sel < z3.If(hi > 0, hi, 1))))
        return Val("arr", a, T("arr", elem=et, ndim=len(dims)))

    def method_call(self, recv, name, n):
        if recv.k == "lol" and name == "append" and len(n.args) == 1 and isinstance(n.args[0], ast.List) and not n.args[0].elts:
            lo = recv.t
            ln = self.heap[(lo.id, "len")]
            self.heap[(lo.id, "mult")] = z3.Store(self.heap[(lo.id, "mult")], ln, z3.K(I, z3.IntVal(0)))
            self.heap[(lo.id, "ilen")] = z3.Store(self.heap[(lo.id, "ilen")], ln, z3.IntVal(0))
            self.heap[(lo.id, "len")] = ln + 1
            return Val("none")
        if recv.k == "ilist" and name == "append" and len(n.args) == 1:
            lo, j = recv.t
            k = self.to_int(self.ev(n.args[0]))
            mt = self.heap[(lo.id, "mult")]
            row = z3.Select(mt, j)
            self.heap[(lo.id, "mult")] = z3.Store(mt, j, z3.Store(row, k, z3.Select(row, k) + 1))
            il = self.heap[(lo.id, "ilen")]
            el = self.heap[(lo.id, "elems")]
            pos = z3.Select(il, j)
            self.heap[(lo.id, "elems")] = z3.Store(el, j, z3.Store(z3.Select(el, j), pos, k))
            self.heap[(lo.id, "ilen")] = z3.Store(il, j, pos + 1)
            return Val("none")
        if recv.k in ("lol3", "lol3b", "lol3c") and name in ("append", "extend", "insert", "pop", "remove", "sort", "reverse", "clear"):
            # a read-only list input (nested list handed in by the caller) is edited: a frame obligation that fails on every
            # feasible path reaching the statement; the path is cut afterwards (the model has no written state for it)
            for a_ in n.args:
                try:
                    self.ev(a_)
                except Undecidable:
                    pass
            self.oblige("frame", f"list input is not written: {src_of(n)[:70]} (not in modifies)", z3.BoolVal(False), n)
            return Val("none")
        if recv.k in ("lol", "ilist"):
            raise Undecidable(f"list method {name}")
        args = [self.ev(a) for a in n.args]
        if recv.k == "arr":
            a = recv.t
            if name == "fill":
                v = args[0]
                t = self.to_float(v) if a.elem.kind == "float" else self.to_int(v)
                if a.elem.kind == "int" and a.elem.bits is not None:
                    lo, hi = a.elem.rng()
                    self.oblige("narrow", f"{src_of(n)}: fill value fits {a.elem.name}", z3.And(t >= lo, t <= hi), n)
                c = t
                for _ in range(a.ndim):
                    c = z3.K(I, c)
                self.heap[a.id] = c
                return Val("none")
            if name == "copy" and not n.args:
                r = ArrObj(f"copy_{next(self.n)}", a.elem, a.ndim, self.fm, shape=list(a.shape), fresh=True)
                r.contig = True
                r.is_bool = getattr(a, "is_bool", False)
                self.objs[r.id] = r
                self.heap[r.id] = self.heap[a.id]
                return Val("arr", r, recv.ty)
            if name in ("min", "max") and self.fm.mode == "R" and not n.args and not n.keywords:
                # NumPy semantics (assumed): a.min() <= every element <= a.max(); empty arrays raise ValueError
                key = ("minmax", a.id, id(self.heap[a.id]))
                if key not in self.labels:
                    lo_, hi_ = self.fresh(a.name + "_min", Rl), self.fresh(a.name + "_max", Rl)
                    qs = [z3.Int(f"mq{d}!{next(self.n)}") for d in range(a.ndim)]
                    el = self.select(a, qs)
                    if a.elem.kind != "float":
                        el = z3.ToReal(el)
                    self.facts.append(z3.ForAll(qs, z3.Implies(z3.And(*[z3.And(q >= 0, q < s_) for q, s_ in zip(qs, a.shape)]),
                                                             z3.And(lo_ <= el, el <= hi_))))
                    self.facts.append(lo_ <= hi_)
                    self.labels[key] = (lo_, hi_)
                lo_, hi_ = self.labels[key]
                return Val("float", lo_ if name == "min" else hi_, PYFLOAT)
            if name in ("min", "max", "sum", "mean"):
                return Val("float", self.fresh(name, self.fm.F), PYFLOAT)
        if recv.k == "obj":
            return Val("obj", None, OBJ)
        raise Undecidable(f"method {name} on {recv.k}")

    # ================================================================ user calls
    def user_call(self, fn, n):
        funcs = self.mod.get("funcs", {})
        cf = self.mod.get("cfuncs", {})
        args = [self.ev(a) for a in n.args]
        target = funcs.get(fn) or cf.get(fn)
        ck = self.contracts.get(fn)
        if ck is not None and target is not None:
            return self.call_by_contract(target, ck, args, n)
        if target is not None and target.kind in ("cdef", "c") and self.inline_depth < 3:
            return self.inline(target, args, n)
        if fn in self.mod.get("externs", {}) and fn in cf:
            return self.inline(cf[fn], args, n)
        raise Undecidable(f"call to {fn} without contract")

    def inline(self, target, args, n):
        if target.unsupported:
            raise Undecidable(f"inlined {target.name}: {target.unsupported}")
        saved_vars, saved_types, saved_f = self.vars, self.types, self.f
        saved_ret, saved_exits, saved_ls = self.returns, self.exits, self.loop_stack
        self.vars = {}
        self.types = dict(target.types)
        for (pn, pt), a in zip(target.params, args):
            self.vars[pn] = self.coerce(a, pt, n, pn)
        self.returns, self.exits, self.loop_stack = [], None, self.loop_stack + [("inline:" + target.name, None)]
        self.inline_depth += 1
        g0 = self.guard
        try:
            self.block(target.body)
        finally:
            self.inline_depth -= 1
        rets = self.returns
        self.vars, self.types = saved_vars, saved_types
        self.returns, self.exits, self.loop_stack = saved_ret, saved_exits, saved_ls
        self.guard = g0
        # heap effects of the inlined body stay (self.heap is shared); merge return values
        res = None
        for g, v, heap in reversed(rets):
            res = v if res is None else self.merge_vals(g, v, res)
        return res if res is not None else Val("none")

    def coerce(self, v, ty, node, what=""):
        """value stored into a variable / parameter of static type ty"""
        if ty is None or ty.kind == "obj":
            return v
        if ty.kind == "int":
            if v.k == "float":
                iv = self.f2i(v, node)
                lo, hi = ty.rng() if ty.bits else (None, None)
                if lo is not None and self.fm.mode == "R":
                    self.oblige("narrow", f"{what} = {src_of(node)}: float value fits {ty.name}",
                                z3.And(v.t > lo - 1, v.t < hi + 1), node)
                return Val("int", iv.t, ty)
            if v.k in ("int", "bool"):
                t = self.to_int(v)
                if ty.bits is not None:
                    lo, hi = ty.rng()
                    sr = v.ty.rng() if (v.k == "int" and v.ty is not None) else ((0, 1) if v.k == "bool" else None)
                    if v.extra is not None and lo <= v.extra <= hi:
                        sr = (v.extra, v.extra)
                    if ty.name == "bint":
                        return Val("int", z3.If(t != 0, z3.IntVal(1), z3.IntVal(0)), ty)
                    if not (sr and sr[0] >= lo and sr[1] <= hi):
                        self.oblige("narrow", f"{what} = {src_of(node)}: value fits {ty.name}",
                                    z3.And(t >= lo, t <= hi), node)
                return Val("int", t, ty, v.extra)
            if v.k == "obj":
                return self.havoc_scalar(what or "objint", ty)
            raise Undecidable(f"store {v.k} into int variable {what}")
        if ty.kind == "float":
            if v.k == "obj":
                return self.havoc_scalar(what or "objfloat", ty)
            if v.k == "float" and "fwidth" in self.c.checks and v.ty is not None and v.ty.bits and ty.bits and v.ty.bits > ty.bits \
                    and v.extra is None:
                # a float LOCAL / parameter narrower than the value computed for it: intermediate results lose precision
                # (floats are otherwise treated as reals - this is the one place where their width is an obligation)
                self.oblige("fwidth", f"{what} = {src_of(node)}: {ty.name or 'float'}{ty.bits} variable holds a "
                            f"{v.ty.bits}-bit floating-point value without narrowing", z3.BoolVal(False), node)
            return Val("float", self.to_float(v), ty, v.extra, nan=v.nan if v.k == "float" else None)
        if ty.kind == "arr":
            if v.k == "arr":
                a = v.t
                want = ty.elem
                if want is not None and want.kind != "obj" and a.elem is not None and \
                        (want.kind != a.elem.kind or want.bits != a.elem.bits) and not ty.cast:
                    self.oblige("buffer", f"{what}: buffer dtype {a.elem!r} matches declared {want!r}",
                                z3.BoolVal(False), node)
                if ty.ndim and a.ndim != ty.ndim:
                    self.oblige("buffer", f"{what}: buffer ndim {a.ndim} matches declared ndim={ty.ndim}",
                                z3.BoolVal(False), node)
                return v
            return v
        return v

    def call_by_contract(self, target, ck, args, n):
        # bind formals, check requires, havoc modifies, assume ensures
        sub = Exec(target, ck, self.mod, self.contracts)
        sub.fm = self.fm
        sub.n = self.n
        sub.facts = self.facts
        sub.heap = self.heap
        sub.objs = self.objs
        sub.guard = self.guard
        sub.spec_mode = True
        for (pn, pt), a in zip(target.params, args):
            sub.vars[pn] = a
        sub.entry_vars = dict(sub.vars)
        sub.entry_heap = dict(self.heap)
        for r in ck.requires:
            f = sub.spec(r)
            self.oblige("pre", f"call {target.name}: requires {r}", f, n)
        mods = ck.modifies or []
        for pn in mods:
            v = sub.vars.get(pn)
            if v is not None and v.k == "arr":
                self.heap[v.t.id] = z3.Const(f"{v.t.name}__post{next(self.n)}", v.t.sort)
        sub.heap = self.heap
        res = None
        if target.ret is not None:
            res = self.havoc_scalar("ret_" + target.name, target.ret)
            sub.vars["result"] = res
        for e in ck.ensures:
            self.assume(sub.spec(e))
        return res if res is not None else Val("none")

    # ================================================================ statements
    def block(self, stmts):
        for s in stmts:
            if getattr(s, "orig_line", None):
                self.cur_line = s.orig_line
            m = getattr(self, "st_" + type(s).__name__, None)
            if m is None:
                if self.c.py_mode:
                    names, arrays = self.modified([s])
                    self.havoc(names, arrays, [s])
                    continue
                raise Undecidable(f"statement {type(s).__name__}")
            if self.c.asserts and isinstance(s, (ast.Assign, ast.AugAssign)):
                tg = s.targets[0] if isinstance(s, ast.Assign) else s.target
                if isinstance(tg, ast.Subscript) and isinstance(tg.value, ast.Name) and \
                        any(k.split("#")[0] == "store:" + tg.value.id for k in self.c.asserts):
                    key = "store:" + tg.value.id
                    cnt = self.labels.get(("stmtcnt", key), 0) + 1
                    self.labels[("stmtcnt", key)] = cnt
                    kk = key if cnt == 1 and key in self.c.asserts else f"{key}#{cnt}"
                    saved_b = dict(self.bound_vars)
                    sm = self.spec_mode
                    self.spec_mode = True
                    for qi, it in enumerate(self.index_list(tg.slice)):
                        if isinstance(it, ast.Slice):
                            if it.lower is not None:
                                self.bound_vars[f"lo{qi}"] = self.ev(it.lower)
                            if it.upper is not None:
                                self.bound_vars[f"hi{qi}"] = self.ev(it.upper)
                        else:
                            self.bound_vars[f"idx{qi}"] = self.ev(it)
                    self.spec_mode = sm
                    for a in self.c.asserts.get(kk, []):
                        f = self.spec(a)
                        self.oblige("assert", f"before store {kk} `{src_of(s)}`: {a}", f, s)
                    self.bound_vars = saved_b
            if self.c.asserts and not isinstance(s, (ast.For, ast.While, ast.If)):
                key = src_of(s)
                if any(k.split("#")[0] == key for k in self.c.asserts):
                    cnt = self.labels.get(("stmtcnt", key), 0) + 1
                    self.labels[("stmtcnt", key)] = cnt
                    kk = key if cnt == 1 and key in self.c.asserts else f"{key}#{cnt}"
                    for a in self.c.asserts.get(kk, []):
                        f = self.spec(a)
                        self.oblige("assert", f"before `{kk}`: {a}", f, s)
            m(s)

    def st_Pass(self, s):
        pass

    def st_Delete(self, s):
        pass

    def st_Raise(self, s):
        self.guard = z3.BoolVal(False)      # exceptions abort the method: nothing to establish afterwards

    def st_Assert(self, s):
        self.assume(self.to_bool(self.ev(s.test)))

    def st_Import(self, s):
        pass

    st_ImportFrom = st_Import
    st_Global = st_Import

    def st_With(self, s):
        self.block(s.body)

    def st_Expr(self, s):
        if isinstance(s.value, ast.Constant):
            return
        if isinstance(s.value, ast.Call):
            fn = self.fname(s.value.func)
            if fn == "print":
                return
            if fn is None and isinstance(s.value.func, ast.Attribute) and not self.c.py_mode:
                recv = self.ev(s.value.func.value)
                if recv.k == "obj":
                    for a in s.value.args:
                        if not isinstance(a, (ast.List,)):
                            self.ev(a)
                    return
        self.ev(s.value)

    def assign_target(self, tgt, val, node):
        if isinstance(tgt, ast.Name) and self.c.py_mode and val.k in ("obj", "method") and tgt.id in self.c.inputs:
            # a name typed by the contract that receives an opaque value: a typed symbolic value.  The FIRST binding
            # is the input the contract's requires talk about; every later rebinding is a new, unrelated value of that
            # type (nothing is assumed to carry over from the earlier one)
            k = self.labels.get(("rebind", tgt.id), 0)
            rhs = getattr(node, "value", None)
            self_ref = rhs is not None and any(isinstance(x, ast.Name) and x.id == tgt.id for x in ast.walk(rhs))
            # recognised value-preserving conversions of the same object keep the symbolic value
            conv = False
            if self_ref and isinstance(rhs, ast.Call):
                fnm = None
                try:
                    fnm = ast.unparse(rhs.func)
                except Exception:
                    pass
                first = rhs.args[0] if rhs.args else None
                if fnm in ("np.array", "np.asarray", "numpy.array", "numpy.asarray", "np.ascontiguousarray", "to_cy", "np.require") \
                        and isinstance(first, ast.Name) and first.id == tgt.id:
                    conv = True
                if isinstance(rhs.func, ast.Attribute) and isinstance(rhs.func.value, ast.Name) and rhs.func.value.id == tgt.id \
                        and rhs.func.attr in ("astype", "copy"):
                    conv = True
            already = (k > 0 or self_ref) and not conv
            self.labels[("rebind", tgt.id)] = k + 1
            if already:
                v = self.make_input(f"{tgt.id}__v{k + 1}_{next(self.n)}", self.c.inputs[tgt.id])
            else:
                v = self.make_input(tgt.id, self.c.inputs[tgt.id])
            self.vars[tgt.id] = v
            return
        if isinstance(tgt, ast.Name) and self.c.py_mode:
            self.labels[("rebind", tgt.id)] = self.labels.get(("rebind", tgt.id), 0) + 1
        if isinstance(tgt, ast.Name):
            ty = self.types.get(tgt.id)
            if ty is None and val.k in ("int", "float", "bool", "arr", "obj", "tuple", "func", "none", "ptr", "row", "alloca"):
                self.vars[tgt.id] = val
                return
            if ty is not None and ty.kind == "ptr":
                if val.k == "alloca":
                    val = self.cast(ty.elem.name + "*", val, node)
                if val.k == "ptr":
                    self.vars[tgt.id] = Val("ptr", val.t, ty)
                    return
                raise Undecidable("pointer assignment")
            self.vars[tgt.id] = self.coerce(val, ty, node, tgt.id)
            return
        if isinstance(tgt, ast.Attribute) and self.c.py_mode and isinstance(tgt.value, ast.Name) and tgt.value.id == "self":
            self.vars["self." + tgt.attr] = val
            return
        if isinstance(tgt, (ast.Tuple, ast.List)):
            if val.k == "row":
                a, idx, _ = val.t
                d = len(idx)
                # unpacking a row of length != len(targets) raises ValueError (allowed rejection)
                self.assume(a.shape[d] == len(tgt.elts))
                val = Val("tuple", [self.elem_val(a, self.select(a, idx + [z3.IntVal(q)]), idx + [z3.IntVal(q)]) for q in range(len(tgt.elts))])
            if self.c.py_mode and (val.k != "tuple" or len(val.t) != len(tgt.elts)):
                for t in tgt.elts:
                    self.assign_target(t, Val("obj", None, OBJ), node)
                return
            if val.k != "tuple" or len(val.t) != len(tgt.elts):
                raise Undecidable("tuple assignment arity")
            for t, v in zip(tgt.elts, val.t):
                self.assign_target(t, v, node)
            return
        if isinstance(tgt, ast.Subscript) and self.c.py_mode and self.numpy_store(tgt, val, node):
            return
        if isinstance(tgt, ast.Subscript):
            base = self.ev(tgt.value)
            items = self.index_list(tgt.slice)
            if base.k == "arr":
                a = base.t
                if len(items) == 2 and isinstance(items[1], ast.List) and val.k == "tuple":
                    i0 = self.to_int(self.ev(items[0]))
                    for e, v in zip(items[1].elts, val.t):
                        j = self.to_int(self.ev(e))
                        self.check_index(a, [i0, j], tgt, src_of(tgt))
                        self.store(a, [i0, j], self.elem_store(a, v, tgt))
                    return
                if any(isinstance(i, ast.Slice) for i in items):
                    lead = [i for i in items if not isinstance(i, ast.Slice)]
                    if any(isinstance(i, ast.Slice) and (i.lower or i.upper or i.step) for i in items):
                        raise Undecidable("slice store")
                    idx = [self.to_int(self.ev(i)) for i in lead]
                    self.check_index(a, idx, tgt, src_of(tgt))
                    if val.k == "row" and a.ndim - len(idx) == 1:
                        self.store(a, idx, val.t[2])
                        return
                    raise Undecidable("slice store of non-row")
                if len(items) != a.ndim:
                    raise Undecidable("store arity")
                idx = [self.to_int(self.ev(i)) for i in items]
                self.check_index(a, idx, tgt, src_of(tgt))
                self.store(a, idx, self.elem_store(a, val, tgt))
                if self.c.nan_aware and a.elem.kind == "float":
                    self.nan_store(a, idx, self.nanof(val))
                return
            if base.k == "ptr":
                a, off = base.t
                i = off + self.to_int(self.ev(items[0]))
                self.oblige("bounds", f"{src_of(tgt)} (store): offset within [0, extent({a.name}))",
                            z3.And(i >= 0, i < a.shape[0]), tgt)
                self.store(a, [i], self.elem_store(a, val, tgt))
                return
            if base.k == "obj" or self.c.py_mode:
                return
            raise Undecidable(f"store into {base.k}")
        raise Undecidable("assignment target")

    def numpy_store(self, tgt, val, node):
        """NumPy assignment forms of the Python glue (py_mode).  Returns True when handled.
             A[mask] = s           elements where the same-shape boolean mask is true
             A[mask1d, :] = s      rows selected by a 1-d boolean mask;  A[:, mask1d] = s  columns
             A.flat[::k] = s       every k-th element in row-major order
        s must be a scalar."""
        if val.k not in ("int", "float", "bool"):
            return False
        items = self.index_list(tgt.slice)
        # A.flat[::k] = s
        if isinstance(tgt.value, ast.Attribute) and tgt.value.attr == "flat" and len(items) == 1 and \
                isinstance(items[0], ast.Slice) and items[0].lower is None and items[0].upper is None and items[0].step is not None:
            base = self.ev(tgt.value.value)
            if base.k != "arr" or base.t.ndim != 2:
                return False
            a = base.t
            k = self.to_int(self.ev(items[0].step))
            self.oblige("divzero", f"{src_of(tgt)}: slice step > 0", k > 0, tgt)
            sv = self.elem_store(a, val, tgt)
            i, j = z3.Int(f"f0!{next(self.n)}"), z3.Int(f"f1!{next(self.n)}")
            old = self.heap[a.id]
            self.heap[a.id] = z3.Lambda([i], z3.Lambda([j], z3.If((i * a.shape[1] + j) % k == 0, sv, z3.Select(z3.Select(old, i), j))))
            return True
        base = self.ev(tgt.value)
        if base.k != "arr":
            return False
        a = base.t
        masks = []
        for it in items:
            if isinstance(it, ast.Slice):
                if it.lower is not None or it.upper is not None or it.step is not None:
                    return False
                masks.append(None)
            else:
                m = self.ev(it)
                if m.k != "arr" or not getattr(m.t, "is_bool", False):
                    return False
                masks.append(m.t)
        if not any(m is not None for m in masks):
            return False
        sv = self.elem_store(a, val, tgt)
        qs = [z3.Int(f"s{d}!{next(self.n)}") for d in range(a.ndim)]
        if len(masks) == 1 and masks[0].ndim == a.ndim:
            for d in range(a.ndim):
                self.oblige("shape", f"{src_of(tgt)}: boolean mask has the shape of the array (axis {d})",
                            masks[0].shape[d] == a.shape[d], tgt)
            cond = self.select(masks[0], qs) != 0
        elif len(masks) == a.ndim and all(m is None or m.ndim == 1 for m in masks):
            conds = []
            for d, m in enumerate(masks):
                if m is not None:
                    self.oblige("shape", f"{src_of(tgt)}: 1-d boolean mask has the length of axis {d}", m.shape[0] == a.shape[d], tgt)
                    conds.append(self.select(m, [qs[d]]) != 0)
            cond = z3.And(*conds)
        else:
            return False
        old = self.heap[a.id]
        term = z3.If(cond, sv, self.select(a, qs))
        for q in reversed(qs):
            term = z3.Lambda([q], term)
        self.heap[a.id] = term
        return True

    def elem_store(self, a, v, node):
        e = a.elem
        if e.kind == "float":
            return self.to_float(v)
        if v.k == "float":
            iv = self.f2i(v, node)
            if e.bits is not None and self.fm.mode == "R":
                lo, hi = e.rng()
                self.oblige("narrow", f"{src_of(node)}: float value fits {e.name}",
                            z3.And(v.t > lo - 1, v.t < hi + 1), node)
            return iv.t
        t = self.to_int(v)
        if e.bits is not None:
            lo, hi = e.rng()
            sr = v.ty.rng() if (v.k == "int" and v.ty is not None) else ((0, 1) if v.k == "bool" else None)
            if v.extra is not None and lo <= v.extra <= hi:
                sr = (v.extra, v.extra)
            if not (sr and sr[0] >= lo and sr[1] <= hi):
                self.oblige("narrow", f"{src_of(node)} = ...: stored value fits {e.name}",
                            z3.And(t >= lo, t <= hi), node)
        return t

    def st_Assign(self, s):
        val = self.ev(s.value)
        for tgt in s.targets:
            if self.c.py_mode:
                try:
                    self.assign_target(tgt, val, s)
                except Undecidable as e:
                    # unmodelled store of the Python glue: its targets get arbitrary values (over-approximation); a
                    # counter-model found after this point may be an artefact and is reported as undecided
                    self.labels.setdefault(("abstracted",), []).append(f"{src_of(s)[:80]} ({e})")
                    names, arrays = self.modified([s])
                    n0 = next(self.n)
                    self.havoc(names, arrays, [s])
                    n1 = next(self.n)
                    # symbols created by this havoc carry a counter in (n0, n1): remembered so that a refutation
                    # whose formula does not mention any of them is known to be independent of the abstraction
                    self.labels.setdefault(("abstracted_range",), []).append((n0, n1))
            else:
                self.assign_target(tgt, val, s)

    def st_AugAssign(self, s):
        if self.c.py_mode:
            try:
                return self._st_augassign(s)
            except Undecidable:
                names, arrays = self.modified([s])
                self.havoc(names, arrays, [s])
                return
        return self._st_augassign(s)

    def _st_augassign(self, s):
        if isinstance(s.target, ast.Name) and self.vars.get(s.target.id) is not None and \
                self.vars[s.target.id].k == "arr":
            # whole-array in-place arithmetic: contents become unknown
            a = self.vars[s.target.id].t
            self.heap[a.id] = z3.Const(f"{a.name}__aug{next(self.n)}", a.sort)
            return
        cur = self.ev(s.target)
        rhs = self.ev(s.value)
        self.assign_target(s.target, self.binop(s.op, cur, rhs, s), s)

    def st_Return(self, s):
        v = self.ev(s.value) if s.value is not None else Val("none")
        self.returns.append((self.guard, v, dict(self.heap)))
        self.guard = z3.BoolVal(False)

    def dead(self, c):
        """py_mode: the condition cannot hold under the facts of the current path (requires, call facts, guard) - a
        cheap solver query; `unknown` counts as reachable.  Keeps a branch the contract excludes (for example
        `if self.missing_values and ...` under requires self.missing_values==0) from turning the variables it rebinds
        into opaque merges."""
        if not self.c.py_mode or z3.is_true(z3.simplify(c)):
            return False
        sv = z3.Solver()
        sv.set("timeout", 300)
        sv.add(*self.facts)
        sv.add(self.guard, c)
        return sv.check() == z3.unsat

    def st_If(self, s):
        c = self.to_bool(self.ev(s.test))
        g0 = self.guard
        snap = self.snapshot()
        self.guard = z3.And(g0, c)
        self.block(s.body)
        g1, s1 = self.guard, self.snapshot()
        self.restore(snap)
        self.guard = z3.And(g0, z3.Not(c))
        self.block(s.orelse)
        g2, s2 = self.guard, self.snapshot()
        self.merge(g1 if not z3.is_false(g1) else z3.BoolVal(False), s1, s2) if not z3.is_false(g1) else self.restore(s2)
        if z3.is_false(g2) and not z3.is_false(g1):
            self.restore(s1)
        self.guard = z3.simplify(z3.Or(g1, g2))

    def st_Break(self, s):
        if self.exits is None:
            raise Undecidable("break outside loop")
        self.exits["break"].append((self.guard, self.snapshot()))
        self.guard = z3.BoolVal(False)

    def st_Continue(self, s):
        if self.exits is None:
            raise Undecidable("continue outside loop")
        self.exits["continue"].append((self.guard, self.snapshot()))
        self.guard = z3.BoolVal(False)

    # ================================================================ loops
    def loop_key(self, token):
        parent = ".".join(t for t, _ in self.loop_stack)
        base = (parent + "." if parent else "") + token
        cnt = self.labels.setdefault(("loopcnt", base), 0) + 1
        self.labels[("loopcnt", base)] = cnt
        key = base if cnt == 1 else f"{base}#{cnt}"
        self.labels.setdefault(("loopseq",), []).append(key)
        return key

    def modified(self, body):
        names, arrays = set(), set()

        def tgt(t):
            if isinstance(t, ast.Name):
                names.add(t.id)
            elif isinstance(t, (ast.Tuple, ast.List)):
                for e in t.elts:
                    tgt(e)
            elif isinstance(t, ast.Subscript):
                b = t.value
                while isinstance(b, ast.Subscript):
                    b = b.value
                if isinstance(b, ast.Name):
                    arrays.add(b.id)
        for st in body:
            for n in ast.walk(st):
                if isinstance(n, ast.Assign):
                    for t in n.targets:
                        tgt(t)
                elif isinstance(n, ast.AugAssign):
                    tgt(n.target)
                elif isinstance(n, ast.For):
                    tgt(n.target)
                elif isinstance(n, ast.Call) and isinstance(n.func, ast.Attribute) and \
                        isinstance(n.func.value, ast.Name) and n.func.attr in ("fill", "sort", "append"):
                    arrays.add(n.func.value.id)
                elif isinstance(n, ast.Call) and self.c.count_calls and (ast.unparse(n.func) in self.c.count_calls):
                    names.add("#" + ast.unparse(n.func))
                elif isinstance(n, ast.Call):
                    fn = self.fname(n.func)
                    ck = self.contracts.get(fn) if fn else None
                    if ck is not None and ck.modifies:
                        tf = (self.mod.get("funcs", {}).get(fn) or self.mod.get("cfuncs", {}).get(fn))
                        for (pn, _), a in zip(tf.params, n.args):
                            if pn in ck.modifies and isinstance(a, ast.Name):
                                arrays.add(a.id)
        return names, arrays

    def havoc(self, names, arrays, body):
        for nm in sorted(names):
            ty = self.types.get(nm)
            cur = self.vars.get(nm)
            if ty is not None and ty.kind == "ptr" or (cur is not None and cur.k == "ptr"):
                if cur is None:
                    continue
                a = cur.t[0]
                self.vars[nm] = Val("ptr", (a, self.fresh(nm + "_off")), cur.ty)
                continue
            if nm.startswith("#"):
                t = self.fresh("cnt")
                self.facts.append(t >= 0)
                self.vars[nm] = Val("int", t, PYINT)
                continue
            if ty is None and cur is not None:
                if cur.k in ("int", "bool"):
                    ty = cur.ty if cur.k == "int" else BOOL
                elif cur.k == "float":
                    ty = cur.ty
                elif cur.k == "tuple":
                    self.vars[nm] = Val("obj", None, OBJ)
                    continue
                else:
                    self.vars[nm] = Val("obj", None, OBJ)
                    continue
            if ty is None:
                self.vars.pop(nm, None)
                continue
            self.vars[nm] = self.havoc_scalar(nm, ty)
        for nm in sorted(arrays):
            cur = self.vars.get(nm)
            if cur is None:
                continue
            if cur.k in ("lol", "ilist"):
                lo = cur.t if cur.k == "lol" else cur.t[0]
                self.heap[(lo.id, "mult")] = z3.Const(f"{lo.name}__multh{next(self.n)}", MULT_SORT)
                self.heap[(lo.id, "ilen")] = z3.Const(f"{lo.name}__ilenh{next(self.n)}", z3.ArraySort(I, I))
                self.heap[(lo.id, "elems")] = z3.Const(f"{lo.name}__elemsh{next(self.n)}", MULT_SORT)
                if cur.k == "lol":
                    ln = self.fresh(lo.name + "_len")
                    self.facts.append(ln >= 0)
                    self.heap[(lo.id, "len")] = ln
                continue
            if cur.k == "arr":
                a = cur.t
                self.heap[a.id] = z3.Const(f"{a.name}__h{next(self.n)}", a.sort)
                if (a.id, "nan") in self.heap:
                    self.heap[(a.id, "nan")] = z3.Const(f"{a.name}__nanh{next(self.n)}", self.heap[(a.id, "nan")].sort())
            elif cur.k == "ptr":
                a = cur.t[0]
                self.heap[a.id] = z3.Const(f"{a.name}__h{next(self.n)}", a.sort)
        # stores through pointers assigned inside the loop: havoc what they may point to
        ptr_targets = set()
        for st in body:
            for n in ast.walk(st):
                if isinstance(n, ast.Assign) and isinstance(n.targets[0], ast.Name):
                    ty = self.types.get(n.targets[0].id)
                    if ty is not None and ty.kind == "ptr" and n.targets[0].id in arrays:
                        stack = [n.value]
                        while stack:
                            m = stack.pop()
                            if isinstance(m, ast.Subscript):
                                continue        # values read through a pointer are not pointer bases
                            if isinstance(m, ast.Name) and m.id in self.vars and self.vars[m.id].k == "ptr":
                                ptr_targets.add(self.vars[m.id].t[0].id)
                            stack.extend(ast.iter_child_nodes(m))
        for aid in ptr_targets:
            a = self.objs[aid]
            self.heap[aid] = z3.Const(f"{a.name}__h{next(self.n)}", a.sort)

    def check_invs(self, invs, kind, key):
        for inv in invs:
            f = self.spec(inv)
            saved = self.spec_mode
            self.spec_mode = False
            self.oblige(kind, f"loop {key}: invariant `{inv}` {'holds on entry' if kind == 'inv-init' else 'is preserved'}", f)
            self.spec_mode = saved

    def run_loop(self, key, invs, body, head, advance, setup_iter=None, exit_fact=None, loopvars=()):
        """head(): returns z3 cond (may emit obligations); advance(): state update at the end of an
        iteration (loop variable increment)."""
        names, arrays = self.modified(body)
        names |= set(loopvars)
        self.loop_entry = getattr(self, "loop_entry", {})
        self.loop_entry[key] = (dict(self.vars), dict(self.heap))
        cur_key_saved = getattr(self, "cur_loop", None)
        self.cur_loop = key
        # 1. invariants hold on entry
        self.check_invs(invs, "inv-init", key)
        # 2. arbitrary iteration
        g0 = self.guard
        keep = {v: self.vars.get(v) for v in loopvars}
        self.havoc(names - set(loopvars), arrays, body)
        if setup_iter:
            setup_iter()
        for inv in invs:
            self.assume(self.spec(inv))
        head_snap = self.snapshot()
        cond = head()
        head_facts_len = len(self.facts)
        saved_exits = self.exits
        self.exits = {"break": [], "continue": []}
        self.loop_stack.append((key.split(".")[-1], key))
        self.guard = z3.And(g0, cond)
        self.block(body)
        self.loop_stack.pop()
        # merge fallthrough + continue states
        ends = [(self.guard, self.snapshot())] + self.exits["continue"]
        ends = [(g, s) for g, s in ends if not z3.is_false(z3.simplify(g))]
        breaks = self.exits["break"]
        self.exits = saved_exits
        if ends:
            g_all = z3.Or(*[g for g, _ in ends])
            self.restore(ends[-1][1])
            for g, s in reversed(ends[:-1]):
                self.merge(g, s, self.snapshot())
            self.guard = g_all
            advance()
            self.check_invs(invs, "inv-pres", key)
        # 3. exit: arbitrary state satisfying the invariant and the negated condition
        #    The head symbols now denote the state at the LAST evaluation of the loop head: either the
        #    condition is false there, or it is true and the body reaches a `break`.
        self.restore(head_snap)
        self.guard = g0
        if exit_fact is not None:
            self.assume(z3.Implies(z3.Not(cond), exit_fact()))
        self.assume(z3.Or(z3.Not(cond), *[g for g, _ in breaks]))
        for g, s in breaks:
            self.merge(g, s, self.snapshot())
        self.cur_loop = cur_key_saved

    def st_While(self, s):
        key = self.loop_key("while")
        invs = self.c.loops.get(key, [])
        always = isinstance(s.test, ast.Constant) and s.test.value is True

        def head():
            return z3.BoolVal(True) if always else self.to_bool(self.ev(s.test))
        self.run_loop(key, invs, s.body, head, lambda: None)

    def st_For(self, s):
        it = self.ev(s.iter)
        tname = s.target.id if isinstance(s.target, ast.Name) else "_"
        key = self.loop_key(tname)
        invs = self.c.loops.get(key, [])
        if it.k == "arr":
            a = it.t
            q = f"__q_{tname}"
            lo, hi, step = z3.IntVal(0), a.shape[0], 1
            self.types[q] = scalar_type("Py_ssize_t")
            vname = q

            def setup():
                qi = self.vars[q].t
                self.assume(z3.And(qi >= 0))
                self.vars[tname] = self.coerce(self.elem_val(a, self.select(a, [qi]), [qi]), self.types.get(tname), s, tname)
            extra_loopvars = (q, tname)
        elif it.k == "range":
            args = [self.to_int(v) for v in it.t]
            if len(args) == 1:
                lo, hi, step = z3.IntVal(0), args[0], 1
            elif len(args) == 2:
                lo, hi, step = args[0], args[1], 1
            else:
                lo, hi = args[0], args[1]
                st = it.t[2].extra
                if st is None or st == 0:
                    raise Undecidable("range with symbolic step")
                step = st
            vname = tname
            if tname not in self.types:
                self.types[tname] = scalar_type("long")
            setup = None
            extra_loopvars = (tname,)
        else:
            raise Undecidable(f"for over {it.k}")
        vty = self.types.get(vname)
        # initial value
        self.vars[vname] = Val("int", lo, vty)
        if it.k == "arr":
            # entry state for invariants: q = 0 and the element (if any)
            pass

        def setup_iter():
            v = self.fresh(vname)
            self.vars[vname] = Val("int", v, vty)
            if step > 0:
                self.assume(z3.And(v >= lo, z3.Or(v <= hi, v == lo)))
                if step != 1:
                    self.assume((v - lo) % step == 0)
            else:
                self.assume(z3.And(v <= lo, z3.Or(v >= hi, v == lo)))
                if step != -1:
                    self.assume((lo - v) % (-step) == 0)
            if vty is not None and vty.bits is not None and hi is not None:
                pass
            if setup:
                setup()

        def head():
            v = self.vars[vname].t
            return v < hi if step > 0 else v > hi

        def advance():
            v = self.vars[vname].t
            self.vars[vname] = Val("int", v + step, vty)
            if setup:
                # the element for the next iteration is only defined if in range; invariants that
                # mention it are evaluated under that guard
                pass

        def exit_fact():
            v = self.vars[vname].t
            if step == 1:
                return v == z3.If(lo <= hi, hi, lo)
            if step == -1:
                return v == z3.If(lo >= hi, hi, lo)
            return z3.BoolVal(True)
        # narrowing of the range bound into the loop variable's C type
        if vty is not None and vty.bits is not None and it.k == "range":
            r = vty.rng()
            self.oblige("overflow", f"for {vname} in {src_of(s.iter)}: loop bound fits {vty.name}",
                        z3.Implies(lo < hi if step > 0 else lo > hi, z3.And(hi >= r[0] - 1, hi <= r[1] + 1, lo >= r[0], lo <= r[1])), s)
        self.run_loop(key, invs, s.body, head, advance, setup_iter, exit_fact, extra_loopvars)
        for nm in extra_loopvars:
            if nm in self.types:
                self.vars[nm] = self.havoc_scalar(nm, self.types[nm])

    # ================================================================ specs
    def spec(self, text):
        """Evaluate a spec string (Python expression) to a z3 Bool in the current state."""
        tree = ast.parse(text.strip(), mode="eval").body
        saved = self.spec_mode
        self.spec_mode = True
        try:
            v = self.ev_spec(tree)
        finally:
            self.spec_mode = saved
        return self.to_bool(v)

    def ev_spec(self, n):
        return self.ev(n)

    def ev_GeneratorExp(self, n):
        raise Undecidable("generator expression outside all()/any()")

    def quant(self, n, universal):
        gen = n.args[0]
        if not isinstance(gen, ast.GeneratorExp):
            raise Undecidable("all()/any() need a generator expression")
        saved = dict(self.bound_vars)
        qs, conds = [], []
        for comp in gen.generators:
            if not (isinstance(comp.target, ast.Name) and isinstance(comp.iter, ast.Call)
                    and self.fname(comp.iter.func) == "range"):
                raise Undecidable("quantifier domain must be range(...)")
            args = [self.to_int(self.ev(a)) for a in comp.iter.args]
            lo, hi = (z3.IntVal(0), args[0]) if len(args) == 1 else (args[0], args[1])
            q = z3.Int(f"{comp.target.id}!q{next(self.n)}")
            self.bound_vars[comp.target.id] = Val("int", q, PYINT)
            qs.append(q)
            conds.append(z3.And(q >= lo, q < hi))
            for c in comp.ifs:
                conds.append(self.to_bool(self.ev(c)))
        body = self.to_bool(self.ev(gen.elt))
        self.bound_vars = saved
        if universal:
            return self.mk_bool(z3.ForAll(qs, z3.Implies(z3.And(*conds), body)))
        return self.mk_bool(z3.Exists(qs, z3.And(*conds, body)))

    def spec_call(self, fn, n):
        if fn == "all":
            return self.quant(n, True)
        if fn == "any":
            return self.quant(n, False)
        if fn == "implies":
            a = self.to_bool(self.ev(n.args[0]))
            b = self.to_bool(self.ev(n.args[1]))
            return self.mk_bool(z3.Implies(a, b))
        if fn == "iff":
            return self.mk_bool(self.to_bool(self.ev(n.args[0])) == self.to_bool(self.ev(n.args[1])))
        if fn == "ite":
            c = self.to_bool(self.ev(n.args[0]))
            return self.merge_vals(c, self.ev(n.args[1]), self.ev(n.args[2]))
        if fn in ("old", "at_loop"):
            sv, sh = self.vars, self.heap
            if fn == "old":
                # parameters and arrays take their entry values; locals (loop counters ...) have no entry value and keep
                # their current one, so that old(a[v]) is the entry content of a at the CURRENT v
                ov = dict(self.vars)
                ov.update(self.entry_vars)
                self.vars, self.heap = ov, dict(self.entry_heap)
            else:
                key = n.args[1].value if len(n.args) > 1 else getattr(self, "cur_loop", None)
                ev_, eh_ = self.loop_entry[key]
                self.vars, self.heap = dict(ev_), dict(eh_)
            try:
                return self.ev(n.args[0])
            finally:
                self.vars, self.heap = sv, sh
        if fn == "shape":
            v = self.ev(n.args[0])
            d = n.args[1].value
            if v.k == "arr":
                return self.mk_int(v.t.shape[d])
            if v.k == "ptr":
                return self.mk_int(v.t[0].shape[0])
            if v.k == "vec" and d == 0 and v.t.present is None:
                return self.mk_int(v.t.n)
            raise Undecidable("shape() of non-array")
        if fn == "extent":
            v = self.ev(n.args[0])
            if v.k == "ptr":
                return self.mk_int(v.t[0].shape[0])
            if v.k == "arr":
                e = z3.IntVal(1)
                for s in v.t.shape:
                    e = e * s
                return self.mk_int(e)
            raise Undecidable("extent()")
        if fn == "offset":
            v = self.ev(n.args[0])
            return self.mk_int(v.t[1])
        if fn == "contiguous":
            v = self.ev(n.args[0])
            return self.mk_bool(self.contig_term(v.t))
        if fn == "count":
            gv = "#" + n.args[0].value
            if gv not in self.vars:
                self.vars[gv] = Val("int", z3.IntVal(0), PYINT)
            return self.vars[gv]
        if fn == "unchanged":
            # contents of the array equal its contents on entry to the innermost enclosing loop
            v = self.ev(n.args[0])
            key = getattr(self, "cur_loop", None)
            eh = self.loop_entry[key][1]
            a = v.t if v.k == "arr" else v.t[0]
            return self.mk_bool(self.heap[a.id] == eh[a.id])
        if fn == "same_array":
            a, b = self.ev(n.args[0]), self.ev(n.args[1])
            ta = self.heap[a.t.id] if a.k == "arr" else None
            tb = self.heap[b.t.id] if b.k == "arr" else None
            if ta is None or tb is None or ta.sort() != tb.sort():
                raise Undecidable("same_array() of values that are not arrays of one element sort and rank")
            return self.mk_bool(ta == tb)
        if fn == "rowsum":
            # rowsum(A, a): sum of row a of the 2-d integer array A over its full width.  The only
            # property used is the point-update lemma (M2, trusted / Lean): for 0 <= j < n
            #   rsum(Store(r, j, v), n) = rsum(r, n) - r[j] + v
            v = self.ev(n.args[0])
            a = self.to_int(self.ev(n.args[1]))
            arr = v.t
            rs = z3.Function("rsum", z3.ArraySort(I, I), I, I)
            if ("lemma", "rsum") not in self.labels:
                self.labels[("lemma", "rsum")] = True
                r = z3.Const("rs_r", z3.ArraySort(I, I))
                j, vv, nn = z3.Ints("rs_j rs_v rs_n")
                self.facts.append(z3.ForAll([r, j, vv, nn], z3.Implies(
                    z3.And(j >= 0, j < nn), rs(z3.Store(r, j, vv), nn) == rs(r, nn) - z3.Select(r, j) + vv),
                    patterns=[rs(z3.Store(r, j, vv), nn)]))
            return self.mk_int(rs(z3.Select(self.heap[arr.id], a), arr.shape[1]))
        if fn in ("len2", "ilen3", "item3"):
            v = self.ev(n.args[0])
            if v.k != "lol3":
                raise Undecidable(f"{fn}() of a non-list")
            ix = [self.to_int(self.ev(a)) for a in n.args[1:]]
            if fn == "len2":
                return self.mk_int(z3.Select(self.heap[(v.t.id, "len2")], ix[0]))
            if fn == "ilen3":
                return self.mk_int(z3.Select(z3.Select(self.heap[(v.t.id, "ilen3")], ix[0]), ix[1]))
            return self.mk_int(z3.Select(z3.Select(z3.Select(self.heap[(v.t.id, "elems3")], ix[0]), ix[1]), ix[2]))
        if fn in ("ilen", "item"):
            v = self.ev(n.args[0])
            if v.k != "lol":
                raise Undecidable(f"{fn}() of a non-list")
            j = self.to_int(self.ev(n.args[1]))
            if fn == "ilen":
                return self.mk_int(z3.Select(self.heap[(v.t.id, "ilen")], j))
            p_ = self.to_int(self.ev(n.args[2]))
            return self.mk_int(z3.Select(z3.Select(self.heap[(v.t.id, "elems")], j), p_))
        if fn == "mult":
            # mult(L, j, k): number of occurrences of k in inner list j of the list of lists L
            v = self.ev(n.args[0])
            if v.k != "lol":
                raise Undecidable("mult() of a non-list")
            j = self.to_int(self.ev(n.args[1]))
            k = self.to_int(self.ev(n.args[2]))
            return self.mk_int(z3.Select(z3.Select(self.heap[(v.t.id, "mult")], j), k))
        if fn == "isnan":
            v = self.ev(n.args[0])
            return self.mk_bool(self.nanof(v))
        if fn == "real":
            return Val("float", self.to_float(self.ev(n.args[0])), PYFLOAT)
        if fn in self.c.ghost:
            sig = self.c.ghost[fn]
            key = ("ghost", fn)
            if key not in self.labels:
                sorts = [{"int": I, "bool": B, "float": self.fm.F}[s] for s in sig]
                self.labels[key] = z3.Function("g_" + fn, *sorts)
            f = self.labels[key]
            args = []
            for a, s in zip(n.args, sig[:-1]):
                v = self.ev(a)
                args.append(self.to_int(v) if s == "int" else self.to_bool(v) if s == "bool" else self.to_float(v))
            r = f(*args)
            rs = sig[-1]
            return Val("int", r, PYINT) if rs == "int" else self.mk_bool(r) if rs == "bool" else Val("float", r, PYFLOAT)
        return None

    def contig_term(self, a):
        if getattr(a, "contig", None) is True:
            return z3.BoolVal(True)
        return z3.Bool(f"{a.name}__contig")

    # ================================================================ top level
    def setup_params(self):
        for pn, pt in self.f.params:
            if pn in self.c.bind:
                b = self.c.bind[pn]
                if isinstance(b, bool):
                    self.vars[pn] = Val("int", z3.IntVal(int(b)), pt, extra=int(b))
                elif isinstance(b, int):
                    self.vars[pn] = Val("int", z3.IntVal(b), pt, extra=b)
                elif isinstance(b, float):
                    self.vars[pn] = Val("float", self.fm.lit(b), pt, extra=b)
                elif b is None:
                    self.vars[pn] = Val("none")
                else:
                    self.vars[pn] = Val("func", b)
                continue
            if pn in getattr(self.c, "lists3", ()):
                lo = LolObj(pn)
                A1, A2, A3 = z3.ArraySort(I, I), MULT_SORT, z3.ArraySort(I, MULT_SORT)
                self.heap[(lo.id, "len")] = z3.Int(f"{pn}__len0")
                self.heap[(lo.id, "len2")] = z3.Const(f"{pn}__len2", A1)
                self.heap[(lo.id, "ilen3")] = z3.Const(f"{pn}__ilen3", A2)
                self.heap[(lo.id, "elems3")] = z3.Const(f"{pn}__elems3", A3)
                _a, _b = z3.Int(f"l3a!{next(self.n)}"), z3.Int(f"l3b!{next(self.n)}")
                self.facts.append(self.heap[(lo.id, "len")] >= 0)
                self.facts.append(z3.ForAll([_a], z3.Select(self.heap[(lo.id, "len2")], _a) >= 0))
                self.facts.append(z3.ForAll([_a, _b], z3.Select(z3.Select(self.heap[(lo.id, "ilen3")], _a), _b) >= 0))
                self.vars[pn] = Val("lol3", lo, pt)
                continue
            if pn in self.c.lists:
                lo = LolObj(pn)
                self.heap[(lo.id, "len")] = z3.Int(f"{pn}__len0")
                self.heap[(lo.id, "mult")] = z3.Const(f"{pn}__mult0", MULT_SORT)
                self.heap[(lo.id, "ilen")] = z3.Const(f"{pn}__ilen0", z3.ArraySort(I, I))
                self.heap[(lo.id, "elems")] = z3.Const(f"{pn}__elems0", MULT_SORT)
                _q = z3.Int(f"il!{next(self.n)}")
                self.facts.append(z3.ForAll([_q], z3.Select(self.heap[(lo.id, "ilen")], _q) >= 0))
                self.facts.append(self.heap[(lo.id, "len")] >= 0)
                self.vars[pn] = Val("lol", lo, pt)
                continue
            if pt.kind == "arr":
                a = ArrObj(pn, pt.elem, pt.ndim or 1, self.fm)
                a.contig = True if pt.mode == "c" else None
                self.objs[a.id] = a
                self.heap[a.id] = z3.Const(f"{pn}__c0", a.sort)
                for s in a.shape:
                    self.facts.append(s >= 0)
                self.vars[pn] = Val("arr", a, pt)
                if self.c.nan_aware and pt.elem is not None and pt.elem.kind == "float":
                    self.nan_heap(a)
            elif pt.kind == "ptr":
                a = ArrObj(pn, pt.elem, 1, self.fm)
                a.contig = True
                self.objs[a.id] = a
                self.heap[a.id] = z3.Const(f"{pn}__c0", a.sort)
                self.facts.append(a.shape[0] >= 0)
                self.vars[pn] = Val("ptr", (a, z3.IntVal(0)), pt)
            elif pt.kind in ("int", "float", "bool"):
                if pt.kind == "int":
                    t = z3.Int(pn)
                    r = self.type_range_fact(t, pt)
                    if r is not None:
                        self.facts.append(r)
                    if pt.name == "bint":
                        self.facts.append(z3.Or(t == 0, t == 1))
                    self.vars[pn] = Val("int", t, pt)
                elif pt.kind == "float":
                    self.vars[pn] = Val("float", z3.Const(pn, self.fm.F), pt)
                else:
                    self.vars[pn] = Val("bool", z3.Bool(pn), pt)
            else:
                self.vars[pn] = Val("obj", None, pt)

    def run(self):
        if self.f.unsupported:
            raise Undecidable(self.f.unsupported)
        self.setup_params()
        self.entry_vars = dict(self.vars)
        self.entry_heap = dict(self.heap)
        for r in self.c.requires:
            self.facts.append(self.spec(r))
        for d in self.c.defs:
            self.facts.append(self.spec(d))
        self.n_pre_facts = len(self.facts)
        self.block(self.f.body)
        ends = list(self.returns)
        if not z3.is_false(z3.simplify(self.guard)):
            ends.append((self.guard, Val("none"), dict(self.heap)))
        for g, v, heap in ends:
            sv, sh, sg = self.vars, self.heap, self.guard
            self.heap, self.guard = heap, g
            self.vars = dict(self.vars)
            self.vars["result"] = v
            for e in self.c.ensures:
                f = self.spec(e)
                self.oblige("post", f"ensures {e}", f)
            # frame: an array parameter outside the contract's `modifies` list has its entry contents on return
            if not self.c.py_mode and "frame" in self.c.checks:
                for pn, pt in self.f.params:
                    pv = self.entry_vars.get(pn)
                    if pv is None or pv.k not in ("arr", "ptr") or pn in (self.c.modifies or ()):
                        continue
                    a = pv.t if pv.k == "arr" else pv.t[0]
                    if a.id not in self.entry_heap:
                        continue
                    same = self.heap[a.id] == self.entry_heap[a.id]
                    if (a.id, "nan") in self.entry_heap and (a.id, "nan") in self.heap:
                        same = z3.And(same, self.heap[(a.id, "nan")] == self.entry_heap[(a.id, "nan")])
                    self.oblige("frame", f"array parameter {pn} is not written (not in modifies)", same)
            # Python regions: the same for every array the contract declares as an input (parameters and self.<field>)
            if self.c.py_mode and "frame" in self.c.checks:
                for pn in sorted(self.c.inputs):
                    pv = self.entry_vars.get(pn)
                    if pv is None or pv.k != "arr" or pn in (self.c.modifies or ()):
                        continue
                    a = pv.t
                    if a.id not in self.entry_heap or a.id not in self.heap:
                        continue
                    same = self.heap[a.id] == self.entry_heap[a.id]
                    if z3.is_true(z3.simplify(same)):
                        continue        # never stored to on this path: no obligation (keeps the counts of untouched contracts)
                    # pointwise over the extents (array equality between a lambda and a constant is hard for the solver and
                    # is not expanded by the finite-scope search)
                    qs = [z3.Int(f"fr{d}!{next(self.n)}") for d in range(a.ndim)]
                    new_t, old_t = self.heap[a.id], self.entry_heap[a.id]
                    for q in qs:
                        new_t, old_t = z3.Select(new_t, q), z3.Select(old_t, q)
                    rng = z3.And(*[z3.And(q >= 0, q < sh) for q, sh in zip(qs, a.shape)])
                    same = z3.ForAll(qs, z3.Implies(rng, new_t == old_t))
                    self.oblige("frame", f"input array {pn} is not written (not in modifies)", same)
            self.vars, self.heap, self.guard = sv, sh, sg
        for k in self.c.asserts:
            if k.startswith("store:"):
                base, _, num = k.partition("#")
                want = int(num) if num else 1
                if self.labels.get(("stmtcnt", base), 0) < want:
                    pass    # fewer stores than asserted: the invariants / postcondition decide
        ax = self.fm.axioms()
        if ax:
            for o in self.obls:
                o.formula = z3.Implies(z3.And(*ax), o.formula)
        # stable ids
        seen = {}
        for o in self.obls:
            base = f"{self.c.name}/{o.kind}/{o.text}"
            k = seen.get(base, 0) + 1
            seen[base] = k
            o.id = base if k == 1 else f"{base} #{k}"
        return self.obls


_orig_ev_call = Exec.ev_Call


def _ev_call_with_spec(self, n):
    fn = self.fname(n.func)
    if fn is not None and (self.spec_mode or fn in ("shape", "extent", "old", "implies", "iff", "ite", "contiguous", "real", "isnan", "rowsum", "unchanged", "count")):
        r = self.spec_call(fn, n)
        if r is not None:
            return r
    return _orig_ev_call(self, n)


Exec.ev_Call = _ev_call_with_spec


def _st_if(self, s):
    c = self.to_bool(self.ev(s.test))
    sc = z3.simplify(c)
    if not z3.is_true(sc) and not z3.is_false(sc) and not z3.is_false(self.guard):
        if self.dead(c):
            sc = z3.BoolVal(False)
        elif self.dead(z3.Not(c)):
            sc = z3.BoolVal(True)
    if z3.is_true(sc):
        return self.block(s.body)
    if z3.is_false(sc):
        return self.block(s.orelse)
    g0 = self.guard
    snap = self.snapshot()
    self.guard = z3.And(g0, c)
    self.block(s.body)
    g1, s1 = self.guard, self.snapshot()
    self.restore(snap)
    self.guard = z3.And(g0, z3.Not(c))
    self.block(s.orelse)
    g2, s2 = self.guard, self.snapshot()
    d1, d2 = z3.is_false(z3.simplify(g1)), z3.is_false(z3.simplify(g2))
    if d1 and not d2:
        self.restore(s2)
    elif d2 and not d1:
        self.restore(s1)
    else:
        self.merge(c, s1, s2)
    self.guard = z3.simplify(z3.Or(g1, g2))


Exec.st_If = _st_if


# ---------------------------------------------------------------- discharge

def discharge(o, timeout_ms=10000):
    import time as _t
    s = z3.Solver()
    s.set("timeout", timeout_ms)
    s.add(z3.Not(o.formula))
    t0 = _t.time()
    r = s.check()
    o.time = _t.time() - t0
    o.backend = "z3-" + z3.get_version_string()
    if r == z3.unsat:
        o.status = "proved"
    elif r == z3.sat:
        o.status = "refuted"
        try:
            m = s.model()
            o.model = {str(d): str(m[d]) for d in m.decls() if m[d] is not None and not z3.is_as_array(m[d]) and len(str(m[d])) < 80}
        except Exception:
            o.model = {}
    else:
        o.status = "undecided"
        o.detail = s.reason_unknown()
        o.smt2 = s.to_smt2()
    return o


# ---------------------------------------------------------------- finite-scope counter-models

def _expand(e, dom, cache):
    """Replace every quantifier by its finite expansion over `dom` (list of ints)."""
    key = e.get_id()
    if key in cache:
        return cache[key]
    # AST ids are recycled once a term is freed: keep every key term alive for the lifetime of the cache
    cache.setdefault("__keep__", []).append(e)
    if z3.is_quantifier(e) and e.is_lambda():
        cache[key] = e          # lambdas are values; the sums over them are expanded at the FSUM application
        return e
    if z3.is_quantifier(e):
        nv = e.num_vars()
        body = e.body()
        sorts = [e.var_sort(i) for i in range(nv)]
        if not all(s == I for s in sorts):
            if "rsum" in e.sexpr():
                # the point-update lemma of rowsum: within a finite scope rowsum is replaced by its
                # definition (finite sum), of which the lemma is a consequence
                cache[key] = z3.BoolVal(True)
                return cache[key]
            # quantifier over the uninterpreted float sort (order axioms): dropped here and re-imposed on the
            # finite universe of each candidate model by `small_scope` (instantiate-and-retry)
            dropped = cache.setdefault("__dropped__", [])
            if all(e.get_id() != d.get_id() for d in dropped):
                dropped.append(e)
            cache[key] = z3.BoolVal(True)
            return cache[key]
        body = _expand(body, dom, cache)
        parts = []
        for tup in itertools.product(dom, repeat=nv):
            # de Bruijn: var index 0 is the LAST bound variable
            # removing this binder shifts the de Bruijn indices of enclosing binders down by nv
            subs = [z3.IntVal(v) for v in reversed(tup)] + [z3.Var(k, I) for k in range(8)]
            parts.append(z3.substitute_vars(body, *subs))
        r = z3.And(*parts) if e.is_forall() else z3.Or(*parts)
        cache[key] = r
        return r
    if z3.is_app(e) and e.num_args() > 0:
        if e.decl().name() in ("FSUM_I", "FSUM_R"):
            # definition of the indexed sum within the scope: sum over q < n of f[q] (beta-reduced, then expanded further)
            zero = z3.IntVal(0) if e.decl().name() == "FSUM_I" else z3.RealVal(0)
            nn = _expand(e.arg(1), dom, cache)
            terms = [z3.If(q < nn, _expand(z3.simplify(z3.Select(e.arg(0), z3.IntVal(q))), dom, cache), zero)
                     for q in range(0, max(dom) + 1)]
            r = z3.Sum(*terms)
            cache[key] = r
            return r
        args = [_expand(a, dom, cache) for a in e.children()]
        if e.decl().name() == "rsum":
            r = z3.Sum(*[z3.If(z3.And(q >= 0, q < args[1]), z3.Select(args[0], q), 0) for q in range(0, max(dom) + 1)])
            cache[key] = r
            return r
        r = e.decl()(*args)
        cache[key] = r
        return r
    cache[key] = e
    return e


def _int_consts(e, acc, seen):
    if e.get_id() in seen:
        return
    seen.add(e.get_id())
    if z3.is_quantifier(e):
        _int_consts(e.body(), acc, seen)
        return
    if z3.is_const(e) and e.decl().kind() == z3.Z3_OP_UNINTERPRETED and e.sort() == I:
        acc[str(e)] = e
    for c in e.children():
        _int_consts(c, acc, seen)


def small_scope(o, scopes=(2, 3), timeout_ms=8000):
    """Try to find a concrete counter-model of obligation `o` within a small finite scope."""
    import time as _t
    t0 = _t.time()
    neg = z3.Not(o.formula)
    consts = {}
    _int_consts(neg, consts, set())
    for S in scopes:
        dom = list(range(-1, S + 2))
        cache = {}
        try:
            ex = _expand(neg, dom, cache)
        except Exception:
            return None
        dropped = cache.get("__dropped__", [])
        s = z3.Solver()
        s.set("timeout", timeout_ms)
        s.add(ex)
        for nm, c in consts.items():
            if "__d" in nm:
                # extents of flat (pointer) arrays are products of the size parameters
                s.add(c >= -1, c <= (S + 1) * (S + 1))
            else:
                s.add(c >= -1, c <= S + 1)
        r = s.check()
        rounds = 0
        while r == z3.sat and dropped and rounds < 6:
            # validate the dropped float-sorted axioms on the model's finite universe; add violated instances
            m = s.model()
            added = 0
            for ax in dropped:
                nv = ax.num_vars()
                sorts = [ax.var_sort(i) for i in range(nv)]
                unis = []
                for so in sorts:
                    u = m.get_universe(so) if so.kind() == z3.Z3_UNINTERPRETED_SORT else None
                    unis.append(list(u) if u else [])
                if any(not u for u in unis):
                    continue
                size = 1
                for u in unis:
                    size *= len(u)
                if size > 700 or _t.time() - t0 > 25:
                    added = -1      # universe too large to validate: give up (undecided, never a refutation)
                    break
                for tup in itertools.product(*unis):
                    if _t.time() - t0 > 25:
                        added = -1
                        break
                    inst = z3.substitute_vars(ax.body(), *reversed(tup))
                    if not z3.is_true(m.eval(inst, model_completion=True)):
                        s.add(inst)
                        added += 1
                        if added > 400:
                            break
                if added > 400 or added < 0:
                    break
            if added == 0:
                break
            if added < 0:
                r = z3.unknown
                break
            rounds += 1
            r = s.check()
        if r == z3.sat and rounds >= 6:
            r = z3.unknown
        enum_note = ""
        if r == z3.unknown and not dropped and _t.time() - t0 < 40:
            # nonlinear arithmetic in the size parameters: enumerate the named integer parameters (no '!' in the name:
            # not a loop / havoc symbol) over the scope and solve each instance (sizes become constants)
            named = [c for nm, c in sorted(consts.items()) if "!" not in nm and "__" not in nm][:3]
            if named:
                for tup in itertools.product(range(0, S + 2), repeat=len(named)):
                    if _t.time() - t0 > 40:
                        break
                    s2 = z3.Solver()
                    s2.set("timeout", 1500)
                    s2.add(z3.simplify(z3.substitute(ex, *[(c, z3.IntVal(v)) for c, v in zip(named, tup)])))
                    for nm, c in consts.items():
                        s2.add(c >= -1, c <= ((S + 1) * (S + 1) if "__d" in nm else S + 1))
                    for c, v in zip(named, tup):
                        s2.add(c == v)
                    if s2.check() == z3.sat:
                        s, r = s2, z3.sat
                        enum_note = "; size parameters " + ", ".join(f"{c}={v}" for c, v in zip(named, tup)) + " by enumeration"
                        break
        if r == z3.sat:
            m = s.model()
            o.status = "refuted"
            o.backend = f"z3-{z3.get_version_string()} finite scope {S}" + enum_note
            o.model = {str(d): str(m[d]) for d in m.decls()
                       if m[d] is not None and not z3.is_as_array(m[d]) and len(str(m[d])) < 120}
            o.time += _t.time() - t0
            o.detail = f"counter-model within scope: every integer in [-1,{S + 1}], quantifiers expanded over that range"
            return o
    o.time += _t.time() - t0
    return None
