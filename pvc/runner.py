"""Obligation runner: generates the VCs of each (function, contract) job from the current
source, discharges them (z3, then finite-scope counter-model search, then cvc5) in a process
pool and returns plain-dict results."""
import os
import subprocess
import tempfile
import time
import traceback
from concurrent.futures import ProcessPoolExecutor

from . import build

_mod_cache = {}


class Job:
    def __init__(self, module, func, contract, lang="cy", expect=None, tag=None):
        self.module = module      # 'core' | 'timeseries' | 'funcnet' | 'climate'   (or path)
        self.func = func
        self.contract = contract
        self.lang = lang          # 'cy' (pyx function) | 'c' (function in src_numerics.c) | 'py'
        self.expect = expect      # None, or 'refuted' for must-fail canaries
        self.tag = tag or contract.name
        self.only_kinds = None    # restrict the job to these obligation kinds (other kinds belong to other properties)


def load_module(module, lang):
    key = (module, lang, build.REPO)
    if key in _mod_cache:
        return _mod_cache[key]
    from .front_cy import parse_pyx
    path = build.src(module, "_ext", "numerics.pyx")
    m = parse_pyx(path, f"{module}._ext.numerics")
    cpath = build.src(module, "_ext", "src_numerics.c")
    if os.path.exists(cpath):
        try:
            from .front_c import parse_c
            m["cfuncs"] = parse_c(cpath)
        except Exception as e:      # C front end problem: functions become inapplicable
            m["cfuncs"] = {}
            m["c_error"] = f"{type(e).__name__}: {e}"
    else:
        m["cfuncs"] = {}
    _mod_cache[key] = m
    return m


def cvc5_check(smt2, timeout_s=10):
    with tempfile.NamedTemporaryFile("w", suffix=".smt2", delete=False) as f:
        f.write("(set-logic ALL)\n" + smt2 + "\n")
        p = f.name
    try:
        r = subprocess.run(["/usr/bin/cvc5", f"--tlimit={timeout_s * 1000}", p],
                           capture_output=True, text=True, timeout=timeout_s + 5)
        out = r.stdout.strip().split("\n")[0] if r.stdout.strip() else "unknown"
    except Exception:
        out = "unknown"
    finally:
        os.unlink(p)
    return out


def run_job(job, timeout_ms=10000, second_opinion=False):
    from . import symex
    from . import npvec  # noqa: F401  (patches the vector semantics into Exec)
    import z3
    t0 = time.time()
    out = {"tag": job.tag, "func": job.func, "module": job.module, "results": [], "error": None,
           "expect": job.expect, "inapplicable": None, "only_kinds": sorted(getattr(job, "only_kinds", None) or [])}
    try:
        if job.lang == "py":
            from .front_py import parse_region
            m = {"funcs": {}, "cfuncs": {}, "externs": {}, "module_vars": {}}
            f = parse_region(build.src(*job.module.split("/")), job.func, job.contract.region)
        else:
            m = load_module(job.module, job.lang)
            table = m["cfuncs"] if job.lang == "c" else m["funcs"]
            f = table.get(job.func)
        if f is None:
            out["inapplicable"] = f"function {job.func} not found in {job.module} ({job.lang})" + \
                (f"; C front end: {m['c_error']}" if job.lang == "c" and m.get("c_error") else "")
            return out
        contracts = getattr(job.contract, "callee_contracts", None) or {}
        ex = symex.Exec(f, job.contract, m, contracts)
        try:
            obls = ex.run()
        except symex.Undecidable as e:
            out["inapplicable"] = f"{job.func}: outside the encodable subset: {e}"
            return out
        # vacuity: the assumptions must be satisfiable
        s = z3.Solver()
        s.set("timeout", 5000)
        s.add(*ex.facts[:ex.n_pre_facts])
        vac = s.check()
        out["vacuous"] = (vac == z3.unsat)
        ra = getattr(job.contract, "required_asserts", [])
        miss_a = [a for a in ra if ex.labels.get(("stmtcnt", a), 0) == 0]
        if miss_a:
            out["inapplicable"] = f"{job.func}: statements the contract asserts on no longer exist: {miss_a}"
            return out
        out["loop_keys"] = list(ex.labels.get(("loopseq",), []))
        out["missing_loops"] = [k for k in job.contract.loops if ("loopcnt", k) not in ex.labels
                                and not any(isinstance(x, tuple) and x[0] == "loopcnt" and
                                            (x[1] == k or (x[1] + "#" in k)) for x in ex.labels)]
        if getattr(job, "only_kinds", None):
            obls = [o for o in obls if o.kind in job.only_kinds]
        if job.expect == "refuted":
            want = "post" if job.tag.endswith("#vacuity-canary") else "bounds"
            obls = [o for o in obls if o.kind == want]
        rmode = None
        for o in obls:
            if job.expect == "refuted" and any(r["status"] == "refuted" for r in out["results"]):
                break
            symex.discharge(o, getattr(job.contract, "timeout_ms", None) or timeout_ms)
            if o.status == "undecided":
                if symex.small_scope(o) is None:
                    r = cvc5_check(o.smt2, timeout_ms // 1000)
                    if r == "unsat":
                        o.status, o.backend = "proved", "cvc5-1.0.3"
            if o.status == "undecided" and job.contract.float_mode == "UF":
                # counter-model search under the real-number interpretation of the float operations
                # (every UF proof covers it; a model there is a genuine counterexample in real arithmetic)
                if rmode is None:
                    import copy as _copy
                    c2 = _copy.copy(job.contract)
                    c2.float_mode = "R"
                    try:
                        ex2 = symex.Exec(f, c2, m, contracts)
                        rmode = {x.id: x for x in ex2.run()}
                    except Exception:
                        rmode = {}
                o2 = rmode.get(o.id)
                if o2 is not None:
                    symex.discharge(o2, timeout_ms)
                    if o2.status == "undecided":
                        symex.small_scope(o2)
                    if o2.status == "refuted":
                        o.status, o.model = "refuted", o2.model
                        o.backend = (o2.backend or "z3") + " (real-number interpretation of the UF float operations)"
                        o.detail = o2.detail
            elif second_opinion and o.status == "proved":
                s2 = z3.Solver()
                s2.add(z3.Not(o.formula))
                r = cvc5_check(s2.to_smt2(), timeout_ms // 1000)
                o.detail = f"cvc5: {r}"
            tru = ex.labels.get(("truthy",)) or []
            if o.status == "refuted" and job.lang == "py" and tru and job.expect != "refuted":
                # conditions the engine does not know (truthiness of opaque values) were chosen by the solver: the
                # refutation only counts when a counter-model exists for EVERY valuation of these conditions
                import itertools as _it
                syms = [t for t in tru if str(t) in o.formula.sexpr()][:5]
                definite = True
                for vals in _it.product([True, False], repeat=len(syms)):
                    s3 = z3.Solver()
                    s3.set("timeout", 3000)
                    s3.add(z3.Not(o.formula), *[t == z3.BoolVal(v) for t, v in zip(syms, vals)])
                    if s3.check() != z3.sat:
                        # no counter-model under this valuation: harmless if the valuation itself contradicts the
                        # path assumptions (e.g. an `assert` of the code made the condition true)
                        hyp = o.formula.arg(0) if z3.is_implies(o.formula) else None
                        s4 = z3.Solver()
                        s4.set("timeout", 3000)
                        if hyp is not None:
                            s4.add(hyp, *[t == z3.BoolVal(v) for t, v in zip(syms, vals)])
                        if hyp is None or s4.check() != z3.unsat:
                            definite = False
                            break
                if not definite:
                    o.status = "undecided"
                    o.detail = "counter-model depends on the value of a condition the encoding does not know (opaque call result)"
            def _touches_abstraction(formula):
                import re as _re
                rngs = ex.labels.get(("abstracted_range",)) or []
                if len(rngs) != len([a for a in ex.labels.get(("abstracted",)) or [] if not a.startswith("assertion")]):
                    return True          # an abstraction without a recorded range (unevaluable assertion ...)
                txt = formula.sexpr()
                for mm in _re.finditer(r"(?:__h|__nanh|!|__multh|__ilenh|__elemsh|_)(\d+)\b", txt):
                    k = int(mm.group(1))
                    if any(lo < k < hi for lo, hi in rngs):
                        return True
                return False
            if o.status == "refuted" and ex.labels.get(("abstracted",)) and job.expect != "refuted" \
                    and _touches_abstraction(o.formula):
                o.status = "undecided"
                o.detail = ("counter-model exists only under an over-approximation of statements outside the encodable "
                            "subset: " + "; ".join(ex.labels[("abstracted",)][:3]))
            out["results"].append({"id": o.id, "kind": o.kind, "func": o.func, "text": o.text,
                                   "status": o.status, "backend": o.backend, "time": round(o.time, 4),
                                   "model": o.model, "detail": o.detail, "line": o.line})
    except Exception:
        out["error"] = traceback.format_exc()[-2000:]
    out["wall"] = round(time.time() - t0, 3)
    return out


def run_jobs(jobs, workers=12, timeout_ms=10000, second_opinion=False):
    if not jobs:
        return []
    if workers <= 1 or len(jobs) == 1:
        return [run_job(j, timeout_ms, second_opinion) for j in jobs]
    with ProcessPoolExecutor(max_workers=min(workers, len(jobs))) as ex:
        futs = [ex.submit(run_job, j, timeout_ms, second_opinion) for j in jobs]
        return [f.result() for f in futs]
