"""Cython front end: parse a .pyx with Cython's own parser and lower every function to
(Python `ast` body, static type environment).  Nothing is dropped silently: constructs the
lowering does not know make the *function* `unsupported` (its obligations become
`inapplicable`, never a violation).

Dropped on purpose (stated in evidence): docstrings, cimport/import statements, `print` calls
(kept as no-op expression statements).  Typecasts `<T> e` become `__cast__("T", e)`; C variable
declarations become entries of the type environment plus an assignment when they carry an
initialiser; `NULL` becomes `None`.
"""
import ast
import os

from Cython.Compiler.TreeFragment import parse_from_strings
from Cython.Compiler import Nodes as N, ExprNodes as E

# ---------------------------------------------------------------- types

INT_TYPES = {
    # name: (bits, signed)
    "bint": (32, True), "int": (32, True), "long": (64, True), "long int": (64, True),
    "unsigned int": (32, False), "short": (16, True), "char": (8, True),
    "signed char": (8, True), "Py_ssize_t": (64, True), "size_t": (64, False),
    "BOOLTYPE_t": (8, True), "INT8TYPE_t": (8, True), "INT16TYPE_t": (16, True),
    "INT32TYPE_t": (32, True), "INT64TYPE_t": (64, True),
    "ADJ_t": (8, True), "MASK_t": (8, True), "LAG_t": (8, True), "DEGREE_t": (16, True),
    "NODE_t": (32, True),
}
FLOAT_TYPES = {
    "float": 32, "double": 64, "FLOAT32TYPE_t": 32, "FLOAT64TYPE_t": 64,
    "WEIGHT_t": 32, "DWEIGHT_t": 64, "FIELD_t": 32, "DFIELD_t": 64,
}
# numpy dtype objects exported by core/_ext/types.py -> C element type
DTYPE_NAMES = {
    "BOOLTYPE": "BOOLTYPE_t", "INT8TYPE": "INT8TYPE_t", "INT16TYPE": "INT16TYPE_t",
    "INT32TYPE": "INT32TYPE_t", "INT64TYPE": "INT64TYPE_t", "FLOAT32TYPE": "FLOAT32TYPE_t",
    "FLOAT64TYPE": "FLOAT64TYPE_t", "ADJ": "ADJ_t", "MASK": "MASK_t", "LAG": "LAG_t",
    "DEGREE": "DEGREE_t", "NODE": "NODE_t", "WEIGHT": "WEIGHT_t", "DWEIGHT": "DWEIGHT_t",
    "FIELD": "FIELD_t", "DFIELD": "DFIELD_t",
}


class T:
    """Static type.  kind in int|float|bool|arr|ptr|obj|func"""

    def __init__(self, kind, name="", bits=None, signed=True, elem=None, ndim=0,
                 mode=None, cast=False, not_none=False):
        self.kind, self.name, self.bits, self.signed = kind, name, bits, signed
        self.elem, self.ndim, self.mode, self.cast, self.not_none = elem, ndim, mode, cast, not_none

    def __repr__(self):
        if self.kind == "arr":
            return f"arr[{self.elem!r},{self.ndim}{',' + self.mode if self.mode else ''}]"
        if self.kind == "ptr":
            return f"ptr[{self.elem!r}]"
        if self.kind in ("int", "float"):
            return f"{self.name or self.kind}{self.bits or ''}"
        return self.kind

    def rng(self):
        if self.kind != "int" or self.bits is None:
            return None
        if self.signed:
            return (-(1 << (self.bits - 1)), (1 << (self.bits - 1)) - 1)
        return (0, (1 << self.bits) - 1)


OBJ = T("obj")
PYINT = T("int", "pyint")
PYFLOAT = T("float", "pyfloat", 64)
BOOL = T("bool")


def scalar_type(name):
    name = name.strip()
    if name in INT_TYPES:
        b, s = INT_TYPES[name]
        return T("int", name, b, s)
    if name in FLOAT_TYPES:
        return T("float", name, FLOAT_TYPES[name])
    if name in ("object", "list", "tuple", "dict", "str"):
        return OBJ
    return None


class Func:
    def __init__(self, name, qual, lang, params, types, body, lineno, file, kind, unsupported=None,
                 src=""):
        self.name, self.qual, self.lang = name, qual, lang
        self.params = params        # [(name, T)]
        self.types = types          # name -> T  (params and locals)
        self.body = body            # list[ast.stmt]
        self.lineno, self.file, self.kind = lineno, file, kind
        self.unsupported = unsupported
        self.src = src              # python-ised source text of the function body
        self.ret = None


class Unsupported(Exception):
    pass


# ---------------------------------------------------------------- unparser (Cython tree -> Python text)

BINOPS = {"AddNode": "+", "SubNode": "-", "MulNode": "*", "DivNode": "/", "ModNode": "%",
          "PowNode": "**", "IntBinopNode": None, "BitwiseOrNode": "|"}


class Lower:
    def __init__(self, modname, extern_protos):
        self.modname = modname
        self.types = {}
        self.extern = extern_protos

    # ---- types
    def base_type(self, bt, declarator=None):
        ptr = 0
        d = declarator
        while d is not None and isinstance(d, N.CPtrDeclaratorNode):
            ptr += 1
            d = d.base
        t = self._bt(bt)
        for _ in range(ptr):
            t = T("ptr", elem=t)
        return t

    def _bt(self, bt):
        if isinstance(bt, N.CSimpleBaseTypeNode):
            name = bt.name
            if name is None:
                return OBJ
            if bt.is_basic_c_type:
                if bt.signed == 0:
                    name = "unsigned " + name
                if bt.longness == 1 and name == "int":
                    name = "long"
            t = scalar_type(name)
            if t is not None:
                return t
            if name == "ndarray":
                return T("arr", elem=OBJ, ndim=0)
            return T("obj", name)
        if isinstance(bt, N.TemplatedTypeNode):
            elem = self._bt(bt.positional_args[0]) if bt.positional_args else OBJ
            if bt.positional_args and isinstance(bt.positional_args[0], E.NameNode):
                elem = scalar_type(bt.positional_args[0].name) or OBJ
            kw = {}
            if bt.keyword_args is not None:
                for kv in bt.keyword_args.key_value_pairs:
                    kw[kv.key.value] = kv.value
            ndim = int(kw["ndim"].value) if "ndim" in kw else 1
            mode = kw["mode"].value if "mode" in kw else None
            cast = bool(kw["cast"].value) if "cast" in kw else False
            return T("arr", elem=elem, ndim=ndim, mode=str(mode) if mode else None, cast=cast)
        if isinstance(bt, N.MemoryViewSliceTypeNode):
            elem = self._bt(bt.base_type_node)
            return T("arr", elem=elem, ndim=len(bt.axes), mode="memview")
        if isinstance(bt, E.NameNode):
            return scalar_type(bt.name) or T("obj", bt.name)
        raise Unsupported(f"type node {type(bt).__name__}")

    # ---- expressions
    def ex(self, n):
        k = type(n).__name__
        if k == "NameNode":
            return n.name
        if k == "IntNode":
            return str(n.value).rstrip("lLuU") or "0"
        if k == "FloatNode":
            v = str(n.value)
            return v if not v.endswith(".") else v + "0"
        if k == "BoolNode":
            return "True" if n.value else "False"
        if k in ("NoneNode", "NullNode"):
            return "None"
        if k in ("UnicodeNode", "StringNode", "BytesNode", "IdentifierStringNode"):
            return repr(str(n.value))
        if k in BINOPS or (hasattr(n, "operator") and hasattr(n, "operand1") and hasattr(n, "operand2")
                           and k not in ("PrimaryCmpNode", "BoolBinopNode")):
            return f"({self.ex(n.operand1)} {n.operator} {self.ex(n.operand2)})"
        if k == "BoolBinopNode":
            return f"({self.ex(n.operand1)} {n.operator} {self.ex(n.operand2)})"
        if k == "PrimaryCmpNode":
            s = f"{self.ex(n.operand1)} {self.cmpop(n)} {self.ex(n.operand2)}"
            c = n.cascade
            while c is not None:
                s += f" {self.cmpop(c)} {self.ex(c.operand2)}"
                c = c.cascade
            return f"({s})"
        if k == "NotNode":
            return f"(not {self.ex(n.operand)})"
        if k == "UnaryMinusNode":
            return f"(-{self.ex(n.operand)})"
        if k == "UnaryPlusNode":
            return f"(+{self.ex(n.operand)})"
        if k == "TypecastNode":
            t = self.base_type(n.base_type, n.declarator)
            return f"__cast__({self.tname(t)!r}, {self.ex(n.operand)})"
        if k == "IndexNode":
            idx = n.index
            if isinstance(idx, E.TupleNode):
                inner = ", ".join(self.ex(a) for a in idx.args)
            else:
                inner = self.ex(idx)
            return f"{self.ex(n.base)}[{inner}]"
        if k == "SliceIndexNode":
            a = self.ex(n.start) if n.start is not None else ""
            b = self.ex(n.stop) if n.stop is not None else ""
            return f"{self.ex(n.base)}[{a}:{b}]"
        if k == "SliceNode":
            def part(x):
                return "" if x is None or type(x).__name__ == "NoneNode" else self.ex(x)
            s = f"{part(n.start)}:{part(n.stop)}"
            if part(n.step):
                s += ":" + part(n.step)
            return s
        if k == "AttributeNode":
            return f"{self.ex(n.obj)}.{n.attribute}"
        if k == "SimpleCallNode":
            return f"{self.ex(n.function)}({', '.join(self.ex(a) for a in n.args)})"
        if k == "GeneralCallNode":
            parts = [self.ex(a) for a in n.positional_args.args]
            if n.keyword_args is not None:
                for kv in n.keyword_args.key_value_pairs:
                    parts.append(f"{kv.key.value}={self.ex(kv.value)}")
            return f"{self.ex(n.function)}({', '.join(parts)})"
        if k == "TupleNode":
            inner = ", ".join(self.ex(a) for a in n.args)
            return f"({inner},)" if len(n.args) == 1 else f"({inner})"
        if k == "ListNode":
            return "[" + ", ".join(self.ex(a) for a in n.args) + "]"
        if k == "CondExprNode":
            return f"({self.ex(n.true_val)} if {self.ex(n.test)} else {self.ex(n.false_val)})"
        if k == "DictNode":
            return "{" + ", ".join(f"{self.ex(kv.key)}: {self.ex(kv.value)}" for kv in n.key_value_pairs) + "}"
        if k == "ModNode":
            return f"({self.ex(n.operand1)} % {self.ex(n.operand2)})"
        raise Unsupported(f"expression {k}")

    def cmpop(self, n):
        return {"not_in": "not in", "is_not": "is not"}.get(n.operator, n.operator)

    def tname(self, t):
        if t.kind == "ptr":
            return self.tname(t.elem) + "*"
        return t.name or t.kind

    # ---- statements
    def stmts(self, n, ind, out, types):
        k = type(n).__name__
        pad = "    " * ind
        if k == "StatListNode":
            for s in n.stats:
                self.stmts(s, ind, out, types)
            return
        ln = n.pos[1] if getattr(n, "pos", None) else 0
        mark = f"  #@{ln}"
        if k == "CVarDefNode":
            for d in n.declarators:
                t = self.base_type(n.base_type, d)
                base = d
                while isinstance(base, N.CPtrDeclaratorNode):
                    base = base.base
                if isinstance(base, N.CFuncDeclaratorNode):
                    continue
                types[base.name] = t
                if base.default is not None:
                    out.append(f"{pad}{base.name} = {self.ex(base.default)}{mark}")
            return
        if k == "SingleAssignmentNode":
            out.append(f"{pad}{self.ex(n.lhs)} = {self.ex(n.rhs)}{mark}")
            return
        if k == "CascadedAssignmentNode":
            out.append(f"{pad}{' = '.join(self.ex(x) for x in n.lhs_list)} = {self.ex(n.rhs)}{mark}")
            return
        if k == "InPlaceAssignmentNode":
            out.append(f"{pad}{self.ex(n.lhs)} {n.operator}= {self.ex(n.rhs)}{mark}")
            return
        if k == "ExprStatNode":
            if type(n.expr).__name__ in ("UnicodeNode", "StringNode", "BytesNode"):
                return  # docstring
            out.append(f"{pad}{self.ex(n.expr)}{mark}")
            return
        if k == "ReturnStatNode":
            out.append(f"{pad}return {self.ex(n.value) if n.value is not None else ''}{mark}")
            return
        if k == "BreakStatNode":
            out.append(f"{pad}break{mark}")
            return
        if k == "ContinueStatNode":
            out.append(f"{pad}continue{mark}")
            return
        if k == "PassStatNode":
            out.append(f"{pad}pass")
            return
        if k == "ForInStatNode":
            if n.else_clause is not None:
                raise Unsupported("for-else")
            out.append(f"{pad}for {self.ex(n.target)} in {self.ex(n.iterator.sequence)}:{mark}")
            self.block(n.body, ind + 1, out, types)
            return
        if k == "WhileStatNode":
            if n.else_clause is not None:
                raise Unsupported("while-else")
            out.append(f"{pad}while {self.ex(n.condition)}:{mark}")
            self.block(n.body, ind + 1, out, types)
            return
        if k == "IfStatNode":
            for i, c in enumerate(n.if_clauses):
                cl = c.pos[1] if getattr(c, "pos", None) else ln
                out.append(f"{pad}{'if' if i == 0 else 'elif'} {self.ex(c.condition)}:  #@{cl}")
                self.block(c.body, ind + 1, out, types)
            if n.else_clause is not None:
                out.append(f"{pad}else:")
                self.block(n.else_clause, ind + 1, out, types)
            return
        if k in ("CImportStatNode", "FromCImportStatNode", "FromImportStatNode"):
            return
        if k == "RaiseStatNode":
            # the exception object is not modelled: control leaves the function (nothing to establish afterwards)
            out.append(f"{pad}raise Exception(){mark}")
            return
        raise Unsupported(f"statement {k}")

    def block(self, n, ind, out, types):
        before = len(out)
        self.stmts(n, ind, out, types)
        if len(out) == before:
            out.append("    " * ind + "pass")


def _strip_marks(src):
    """Turn '#@<line>' marks into a map python-line -> original line."""
    lines, lmap = [], {}
    for i, l in enumerate(src.split("\n"), 1):
        if "#@" in l:
            body, _, m = l.rpartition("#@")
            try:
                lmap[i] = int(m.strip())
            except ValueError:
                pass
            l = body.rstrip()
        lines.append(l)
    return "\n".join(lines), lmap


class LineFix(ast.NodeTransformer):
    def __init__(self, lmap):
        self.lmap = lmap

    def generic_visit(self, node):
        super().generic_visit(node)
        if hasattr(node, "lineno"):
            node.orig_line = self.lmap.get(node.lineno, None)
        return node


def parse_pyx(path, modname=None):
    """Return {name: Func} for every def / cdef function in the file, plus module info."""
    code = open(path).read()
    modname = modname or os.path.basename(os.path.dirname(os.path.dirname(path))) + "._ext.numerics"
    tree = parse_from_strings(modname, code)
    funcs, externs, module_vars = {}, {}, {}
    lw = Lower(modname, externs)

    def handle_func(node, kind):
        if kind == "def":
            name = node.name
            args = node.args
        else:
            decl = node.declarator
            while not isinstance(decl, N.CFuncDeclaratorNode):
                decl = decl.base
            name = decl.base.name
            args = decl.args
        types, params = {}, []
        unsupported = None
        src = ""
        body = []
        try:
            for a in args:
                d = a.declarator
                base = d
                while isinstance(base, N.CPtrDeclaratorNode):
                    base = base.base
                if base.name == "":
                    pname, t = a.base_type.name, OBJ
                else:
                    pname, t = base.name, lw.base_type(a.base_type, d)
                if t.kind == "arr":
                    t.not_none = bool(getattr(a, "not_none", False))
                types[pname] = t
                params.append((pname, t))
            out = []
            lw.block(node.body, 1, out, types)
            text = f"def {name}({', '.join(p for p, _ in params)}):\n" + "\n".join(out)
            text, lmap = _strip_marks(text)
            mod = ast.parse(text)
            LineFix(lmap).visit(mod)
            body = mod.body[0].body
            src = text
        except Unsupported as e:
            unsupported = str(e)
        f = Func(name, f"{modname}.{name}", "cy", params, types, body, node.pos[1], path, kind,
                 unsupported, src)
        if kind == "cdef":
            f.ret = lw.base_type(node.base_type, None) if not (
                isinstance(node.base_type, N.CSimpleBaseTypeNode) and node.base_type.name == "void") else None
        funcs[name] = f

    def visit(n):
        k = type(n).__name__
        if k == "StatListNode":
            for s in n.stats:
                visit(s)
        elif k == "DefNode":
            handle_func(n, "def")
        elif k == "CFuncDefNode":
            handle_func(n, "cdef")
        elif k == "CDefExternNode":
            protos = []

            def ext(m):
                if type(m).__name__ == "StatListNode":
                    for s in m.stats:
                        ext(s)
                elif type(m).__name__ == "CVarDefNode":
                    for d in m.declarators:
                        base = d
                        while isinstance(base, N.CPtrDeclaratorNode):
                            base = base.base
                        if isinstance(base, N.CFuncDeclaratorNode):
                            ps = []
                            for a in base.args:
                                ad = a.declarator
                                ab = ad
                                while isinstance(ab, N.CPtrDeclaratorNode):
                                    ab = ab.base
                                ps.append((ab.name, lw.base_type(a.base_type, ad)))
                            externs[base.base.name] = ps
            ext(n.body)
        elif k == "CVarDefNode":
            for d in n.declarators:
                base = d
                while isinstance(base, N.CPtrDeclaratorNode):
                    base = base.base
                if isinstance(base, N.CNameDeclaratorNode) and base.default is not None:
                    try:
                        module_vars[base.name] = lw.ex(base.default)
                    except Unsupported:
                        pass
        elif k == "SingleAssignmentNode":
            try:
                module_vars[lw.ex(n.lhs)] = lw.ex(n.rhs)
            except Unsupported:
                pass
    visit(tree.body)
    return {"funcs": funcs, "externs": externs, "module_vars": module_vars, "path": path,
            "directive_comments": [l for l in code.split("\n")[:40] if l.strip().startswith("#") and "cython:" in l],
            "code": code}
