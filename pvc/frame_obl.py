"""Obligation families over the frame analysis (C01 and friends)."""
import time

import z3

from .frame import Program, LA

# field -> counter that must strictly increase whenever the field may be written  (DESIGN.md Appendix B)
GUARD_OF = {
    "Network": {"sp_A": "_mut_A", "N": "_mut_A", "n_links": "_mut_A", "link_density": "_mut_A", "graph": "_mut_A",
                "sp_dtype": "_mut_A", "_node_weights": "_mut_nw", "mean_node_weight": "_mut_nw",
                "total_node_weight": "_mut_nw", LA: "_mut_la"},
    "ClimateNetwork": {"_similarity_measure": "_mut_clim"},
    "RecurrencePlot": {"_embedding": "_mut_embedding", "N": "_mut_embedding", "missing_value_indices": "_mut_embedding",
                       "_R": "_mut_R"},
    "CrossRecurrencePlot": {"_x_embedded": "_mut_embedding", "_y_embedded": "_mut_embedding", "N": "_mut_embedding",
                            "M": "_mut_embedding"},
    "JointRecurrencePlot": {"JR": "_mut_embedding", "N": "_mut_embedding"},
    # `_normalized` is a flag, not a counter: it flips exactly when original_data is normalised in place
    "Surrogates": {"_embedding": "_mut_embedding", "N": "_mut_embedding", "n_time": "_mut_embedding",
                   "original_data": "_normalized"},
    "ClimateData": {"_observable": "_mut_window", "grid": "_mut_window", "_window": "_mut_window", "window": "_mut_window"},
    "Data": {},
}
# (class, field): mutators that re-assign a derived field from sources they do not write (same value):
# accepted only if the listed source fields are indeed not written by that mutator (checked)
IDEMPOTENT = {("CrossRecurrencePlot", "N"): {"_x_embedded", "_y_embedded"},
              ("CrossRecurrencePlot", "M"): {"_x_embedded", "_y_embedded"}}
# fields whose only use in cached methods is to decide what is printed (obligation SILENCE)
OUTPUT_ONLY = {"silence_level"}


def guard_table(prog, K):
    """field -> set of guard counters (a field maintained by several bases, e.g. N of a RecurrenceNetwork,
    has one guard per base: every one of them must be in the key, each write must bump at least one)"""
    out = {}
    for c in reversed(prog.mro(K)):
        for f, g in GUARD_OF.get(c, {}).items():
            out.setdefault(f, set()).add(g)
    return out


def res(ident, kind, status, backend, detail="", t=0.0, func=None, model=None):
    return {"id": ident, "kind": kind, "func": func or ident.split("/")[-1], "text": ident, "status": status,
            "backend": backend, "time": round(t, 4), "model": model, "detail": detail, "line": None}


def union(paths, attr):
    s = set()
    for p in paths:
        s |= getattr(p, attr)
    return s


def public_mutators(prog, K):
    """(MethodInfo, paths) of every method / setter of K that may write a field, constructors excluded."""
    out = []
    for mi in prog.all_methods(K) + prog.all_setters(K):
        if mi.name.startswith("_") or mi.kind in ("static", "classmethod"):
            continue        # private helpers are not part of the public history alphabet
        paths = prog.summary(K, mi)
        w = union(paths, "writes")
        if w:
            out.append((mi, paths))
    return out


def frame_obligations(root, classes=None):
    t0 = time.time()
    prog = Program(root)
    out = []
    Ks = [c for c in sorted(prog.classes) if prog.is_cached_class(c)]
    if classes:
        Ks = [k for k in Ks if k in classes]
    for K in Ks:
        gt = guard_table(prog, K)
        cs = prog.resolve(K, "__cache_state__")
        if cs is None:
            out.append(res(f"C01/MRO/{K}", "MRO", "refuted", "pvc.frame", "no __cache_state__ resolvable"))
            continue
        cs_paths = prog.summary(K, cs)
        keyfields = union(cs_paths, "reads")
        muts = public_mutators(prog, K)
        mutable = set()
        for mi, paths in muts:
            mutable |= union(paths, "writes")
        mutable = {f for f in mutable if not f.startswith("@result:")}
        # ---- MRO(K): the resolved cache state covers the cache state of every Cached base that has one
        t1 = time.time()
        missing = []
        for B in prog.mro(K)[1:]:
            ci = prog.classes.get(B)
            if ci and "__cache_state__" in ci.methods and B != "Cached":
                bpaths = prog.summary(K, ci.methods["__cache_state__"])
                # evaluate base's own state statically (as if called on K): its fields must be in K's key
                from .frame import Analyzer
                an = Analyzer(prog, K, ci.methods["__cache_state__"], ((K, "mro"),))
                bfields = union(an.run(), "reads")
                miss = {f for f in bfields if f not in keyfields and f in mutable}
                if miss:
                    missing.append((B, sorted(miss)))
        out.append(res(f"C01/MRO/{K}", "MRO", "refuted" if missing else "proved", "pvc.frame (MRO resolution + set inclusion)",
                       f"resolved to {cs.cls}.__cache_state__ with fields {sorted(keyfields)}; uncovered base state: {missing}",
                       time.time() - t1))
        # ---- IDENTITY(K): the memo keys contain `self`; Cached defines equality as identity plus equal cache state.  A class
        #      that overrides __eq__ / __hash__ can make two different objects share memoised values (kind MRO: a
        #      per-class fact about how the key is resolved)
        over = [f"{B}.{nm}" for B in prog.mro(K) if B != "Cached" and B in prog.classes
                for nm in ("__eq__", "__hash__") if nm in prog.classes[B].methods]
        out.append(res(f"C01/MRO/{K}:identity", "MRO", "refuted" if over else "proved", "pvc.frame (MRO resolution)",
                       f"__eq__/__hash__ resolved to Cached (identity + cache state); overridden by: {over}"))
        # ---- FRAME(m,K)
        for mi in prog.all_methods(K):
            if not mi.cached:
                continue
            t1 = time.time()
            paths = prog.summary(K, mi)
            reads = union(paths, "reads")
            key = set(keyfields) | set(mi.attrs)
            bad = []
            for f in sorted(reads & mutable):
                if f in OUTPUT_ONLY or f.startswith("_mut_"):
                    continue
                if f in key:
                    continue
                g = gt.get(f)
                if g is not None and g <= key:
                    continue
                bad.append(f if g is None else f"{f} (guard {sorted(g - key)} not in key)")
            out.append(res(f"C01/FRAME/{K}.{mi.name}", "FRAME", "refuted" if bad else "proved",
                           "pvc.frame (interprocedural reads* + set inclusion)",
                           f"defined in {mi.cls}; key={sorted(key)}; uncovered mutable reads: {bad}" if bad else
                           f"defined in {mi.cls}; {len(reads & mutable)} mutable fields read, all covered by key {sorted(key)}",
                           time.time() - t1, func=f"{mi.cls}.{mi.name}"))
        # ---- GUARD(M,K) and MONO
        for mi, paths in muts:
            t1 = time.time()
            bad, mono_bad = [], []
            for p in paths:
                # counter transformers along this path, in order
                pre = {}
                post = {}
                for (c, op, k) in p.ctr:
                    if c not in pre:
                        pre[c] = z3.Int("pre_" + c)
                        post[c] = pre[c]
                    if op == "inc":
                        post[c] = post[c] + k
                    elif op == "set":
                        post[c] = z3.IntVal(k)
                    else:
                        post[c] = z3.Int("havoc_" + c)
                for c in post:
                    s = z3.Solver()
                    s.add(pre[c] >= 0, z3.Not(post[c] >= pre[c]))
                    if s.check() != z3.unsat:
                        mono_bad.append((c, str(s.model())))
                for f in sorted(p.writes):
                    gs = gt.get(f)
                    if gs is None or f.startswith("_mut_"):
                        continue
                    idem = None
                    for c in prog.mro(K):
                        if (c, f) in IDEMPOTENT:
                            idem = IDEMPOTENT[(c, f)]
                    if idem is not None and not (idem & p.writes):
                        continue
                    flags = {g for g in gs if not g.startswith("_mut_")}
                    if flags and flags <= p.writes:
                        continue
                    if not (gs & set(post)):
                        bad.append((f, "/".join(sorted(gs)), "no bump on a path that writes it"))
                        continue
                    s = z3.Solver()
                    s.add(*[pre[g] >= 0 for g in gs if g in post])
                    s.add(z3.Not(z3.Or(*[post[g] > pre[g] for g in gs if g in post])))
                    if s.check() != z3.unsat:
                        bad.append((f, "/".join(sorted(gs)), f"model {s.model()}"))
            bad = sorted(set(bad))
            out.append(res(f"C01/GUARD/{K}.{mi.qual.split('.', 1)[1]}", "GUARD", "refuted" if bad else "proved", "z3 (LIA over counter transformers)",
                           f"defined in {mi.cls}; {len(paths)} path classes; " + (f"unguarded writes: {bad}" if bad else "every guarded field written is bumped"),
                           time.time() - t1, func=mi.qual))
            if mono_bad:
                out.append(res(f"C01/MONO/{K}.{mi.qual.split('.', 1)[1]}", "MONO", "refuted", "z3 (LIA)",
                               f"counter may decrease: {sorted(set(mono_bad))}", 0.0, func=mi.qual))
        # MONO for constructors that are re-run on live objects is covered through the mutators that call them
    return out, prog, time.time() - t0


# source field -> fields derived from it by the class's own code (DESIGN.md Appendix B): every public
# mutator path that writes the source must rewrite (recompute or reset) every derived field.
DERIVED = {
    "Network": {"sp_A": ["N", "n_links", "link_density", "graph", "sp_dtype"],
                "_node_weights": ["mean_node_weight", "total_node_weight"]},
    "ResNetwork": {"resistances": ["flagComplex", "sparse_Adm", "adm_graph", "sparse_R", "_effective_resistances"]},
    "RecurrencePlot": {"_embedding": ["N"]},
    "Data": {"_window": ["_observable"]},
    "ClimateNetwork": {"_threshold": ["sp_A"], "_non_local": ["sp_A"], "_similarity_measure": ["sp_A"]},
    "JointRecurrencePlot": {"JR": ["N"]},
}


def repinv_obligations(prog):
    out = []
    for K in sorted(prog.classes):
        if not prog.is_cached_class(K):
            continue
        table = {}
        for c in reversed(prog.mro(K)):
            for src, ders in DERIVED.get(c, {}).items():
                table.setdefault(src, set()).update(ders)
        if not table:
            continue
        for mi, paths in public_mutators(prog, K):
            t1 = time.time()
            bad = []
            for p in paths:
                for src, ders in table.items():
                    if src in p.writes and src not in p.inplace:
                        miss = sorted(d for d in ders if d not in p.writes)
                        if miss:
                            bad.append((src, tuple(miss)))
            if not any(src in union(paths, "writes") for src in table):
                continue
            bad = sorted(set(bad))
            out.append(res(f"C01/REPINV/{K}.{mi.qual.split('.', 1)[1]}", "REPINV", "refuted" if bad else "proved",
                           "pvc.frame (path summaries + set inclusion)",
                           f"defined in {mi.cls}; " + (f"source written but derived fields not rewritten: {bad}" if bad else
                                                      "every derived field of each written source is rewritten on the same path"),
                           time.time() - t1, func=mi.qual))
    return out
