#!/bin/bash
# Offline setup: overlay venv (Python 3.12 of /venv + z3-solver, cvc5, jsonschema from the wheelhouse).
set -e
cd "$(dirname "$0")"
if [ ! -x .venv/bin/python ] || ! .venv/bin/python -c "import z3, cvc5, jsonschema, numpy, Cython" 2>/dev/null; then
  rm -rf .venv
  /venv/bin/python -m venv .venv
  PIP_NO_INDEX=1 .venv/bin/pip install -q --no-index --find-links /opt/veriftools/wheels z3-solver cvc5 jsonschema
  echo "import site; site.addsitedir('/venv/lib/python3.12/site-packages')" > .venv/lib/python3.12/site-packages/_overlay.pth
fi
.venv/bin/python -c "import z3, cvc5, jsonschema, numpy, scipy, igraph, Cython; print('pvc venv ok: z3', z3.get_version_string())"
mkdir -p evidence replays .cache
