"""Definition-level specifications for event synchronisation (ES), event coincidence analysis
(ECA) and threshold event extraction, used by bounded/c16.py.

Everything is evaluated on *sets of event times* in exact rational arithmetic by quantifier-style
loops over events; no index slicing, no broadcasting.  Times, lag and taumax may be passed as
fractions.Fraction or, equivalently, as Python integers in one fixed unit (numerators over a
common denominator) - only +, -, comparisons and one multiplication by 2 are applied to them.

Conventions (taken from the docstrings / comments of pyunicorn.eventseries.EventSeries and from
[Quiroga2002], [Odenweller2020]; stated here because the harness asserts exactly these):

ES  For event times t^x_1<...<t^x_lx and t^y_1<...<t^y_ly (the second series shifted by +lag)
    only the *inner* events (all but the first and last of each series) are paired.  For an inner
    pair (i, j) the dynamic delay is
        tau_ij = min(t^x_{i+1}-t^x_i, t^x_i-t^x_{i-1}, t^y_{j+1}-t^y_j, t^y_j-t^y_{j-1}) / 2,
    capped by taumax.  The pair is an "x after y" coincidence if 0 < t^x_i - t^y_j <= tau_ij, a
    "y after x" coincidence if 0 < t^y_j - t^x_i <= tau_ij and simultaneous if the times are equal.
    c(x|y) = sum over "x after y" pairs of w + (1/2) #simultaneous, with the half-count weights
    w = 1/2 if event i or event j also takes part in a coincidence of the opposite direction
    (the pair cannot be attributed to one direction) and w = 1 otherwise.
    Q(x|y) = c(x|y) / sqrt((lx-2)(ly-2)).  With fewer than three events in a series there is no
    inner event and Q is undefined (returned as None).

ECA A precursor coincidence of an x event at t with the y series exists if some y event s has
    0 <= (t - lag) - s <= taumax; the precursor rate r_p(x|y) is the fraction of *admissible* x
    events having one, where x events not later than (first x event + lag + taumax) are not
    admissible (they cannot be preceded inside the record).  The trigger rate r_t(x|y) is the
    fraction of admissible y events s for which some x event t has 0 <= (t - lag) - s <= taumax,
    y events not earlier than (last y event - lag - taumax) being inadmissible.  For lag = 0 and
    taumax = 0 (instantaneous coincidence) every event is admissible.  The symmetric-window rate
    uses |(t - lag) - s| <= taumax and excludes events at both ends.  A rate with no admissible
    event is undefined (None).
"""
from fractions import Fraction as F
import math


# ---------------------------------------------------------------------------------- ES

def es_counts(tx, ty, taumax=None, lag=0):
    """tx, ty: strictly increasing lists of exact numbers.  taumax None = unbounded.
    Returns None (undefined) or (c_xy, c_yx, norm2) with Q = c / sqrt(norm2)."""
    ty = [t + lag for t in ty]
    lx, ly = len(tx), len(ty)
    if lx < 3 or ly < 3:
        return None

    def within_delay(d, i, j):
        """0 < d <= tau_ij, written without division so that the times may be given either as
        Fractions or as integers in a fixed unit (numerators over a common denominator):
        d <= min(gaps)/2 and d <= taumax."""
        if not d > 0:
            return False
        gaps = min(tx[i + 1] - tx[i], tx[i] - tx[i - 1], ty[j + 1] - ty[j], ty[j] - ty[j - 1])
        return 2 * d <= gaps and (taumax is None or d <= taumax)

    inner = [(i, j) for i in range(1, lx - 1) for j in range(1, ly - 1)]
    x_after_y = [(i, j) for (i, j) in inner if within_delay(tx[i] - ty[j], i, j)]
    y_after_x = [(i, j) for (i, j) in inner if within_delay(ty[j] - tx[i], i, j)]
    simultaneous = [(i, j) for (i, j) in inner if tx[i] == ty[j]]

    def count(pairs, opposite):
        tot = F(0)
        for (i, j) in pairs:
            shared = any(a == i or b == j for (a, b) in opposite)
            tot += F(1, 2) if shared else F(1)
        return tot + F(len(simultaneous), 2)

    return count(x_after_y, y_after_x), count(y_after_x, x_after_y), (lx - 2) * (ly - 2)


def es_values(tx, ty, taumax=None, lag=0):
    r = es_counts(tx, ty, taumax, lag)
    if r is None:
        return None
    cxy, cyx, n2 = r
    return float(cxy) / math.sqrt(n2), float(cyx) / math.sqrt(n2)


# ---------------------------------------------------------------------------------- ECA

def _instant(taumax, lag):
    return taumax == 0 and lag == 0


def eca_precursor(ta, tb, taumax, lag=0):
    """Fraction of admissible a-events preceded (within taumax, after removing lag) by a b-event."""
    if not ta or not tb:
        return None
    adm = [t for t in ta if _instant(taumax, lag) or t > ta[0] + lag + taumax]
    if not adm:
        return None
    hit = [t for t in adm if any(0 <= (t - lag) - s <= taumax for s in tb)]
    return F(len(hit), len(adm))


def eca_trigger(ta, tb, taumax, lag=0):
    """Fraction of admissible b-events followed (within taumax, after removing lag) by an a-event."""
    if not ta or not tb:
        return None
    adm = [s for s in tb if _instant(taumax, lag) or s < tb[-1] - lag - taumax]
    if not adm:
        return None
    hit = [s for s in adm if any(0 <= (t - lag) - s <= taumax for t in ta)]
    return F(len(hit), len(adm))


def eca_symmetric(ta, tb, taumax, lag=0):
    """Fraction of admissible a-events with a b-event within [-taumax, taumax] of (t - lag)."""
    if not ta or not tb:
        return None
    adm = [t for t in ta if _instant(taumax, lag)
           or (t > ta[0] + lag + taumax and t < ta[-1] - lag - taumax)]
    if not adm:
        return None
    hit = [t for t in adm if any(abs((t - lag) - s) <= taumax for s in tb)]
    return F(len(hit), len(adm))


def eca_rates(tx, ty, taumax, lag=0):
    """(precursor XY, trigger XY, precursor YX, trigger YX), entries None where undefined."""
    return (eca_precursor(tx, ty, taumax, lag), eca_trigger(tx, ty, taumax, lag),
            eca_precursor(ty, tx, taumax, lag), eca_trigger(ty, tx, taumax, lag))


def eca_window(ti, tj, taumax, lag, window):
    """Entry [i, j] of the directed ECA matrix for the window type."""
    if window == "advanced":
        return eca_precursor(ti, tj, taumax, lag)
    if window == "retarded":
        return eca_trigger(ti, tj, taumax, lag)
    if window == "symmetric":
        return eca_symmetric(ti, tj, taumax, lag)
    raise ValueError(window)


# ---------------------------------------------------------------------------------- symmetrisation

def symmetrise(a, b, option):
    """Entry [i,j] of the symmetrised matrix from directed entries a=[i,j], b=[j,i]
    (numbers; works for Fraction and float)."""
    if option == "directed":
        return a
    if option == "symmetric":
        return a + b
    if option == "antisym":
        return a - b
    if option == "mean":
        return (a + b) / 2
    if option == "max":
        return a if a >= b else b
    if option == "min":
        return a if a <= b else b
    raise ValueError(option)


# ---------------------------------------------------------------------------------- thresholds

def quantile_linear(values, q):
    """q-quantile with linear interpolation between order statistics (position (n-1) q),
    exact in Fractions."""
    s = sorted(F(v) for v in values)
    h = (len(s) - 1) * F(q)
    lo = h.numerator // h.denominator
    if lo >= len(s) - 1:
        return s[-1]
    return s[lo] + (h - lo) * (s[lo + 1] - s[lo])


def median(values):
    return quantile_linear(values, F(1, 2))


def threshold_events(column, method, value, typ):
    """Returns (threshold, type used, list of 0/1) for one variable.
    value None -> median (quantile 1/2); typ None -> 'above' iff quantile >= 1/2 (method quantile)
    resp. threshold >= median (method value)."""
    col = [F(v) for v in column]
    if method == "quantile":
        q = F(1, 2) if value is None else F(value)
        thr = quantile_linear(col, q)
        if typ is None:
            typ = "above" if q >= F(1, 2) else "below"
    elif method == "value":
        thr = median(col) if value is None else F(value)
        if typ is None:
            typ = "above" if thr >= median(col) else "below"
    else:
        raise ValueError(method)
    if typ == "above":
        ev = [1 if v > thr else 0 for v in col]
    else:
        ev = [1 if v < thr else 0 for v in col]
    return thr, typ, ev
