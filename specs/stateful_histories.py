"""History families for the C01 bounded stand-in: Surrogates and RecurrencePlot.

The class specs of specs/stateful_registry.py draw the k-th argument of a mutator from a pool
(so a mutator is never repeated with an *equal* argument), treat value-returning methods that
also change state (Surrogates.twin_surrogates, Surrogates.original_distribution) as neither
query nor mutator, and compare with the fresh twin only after the last mutator.  The families
below close these gaps:

  * the alphabet consists of *concrete calls* (method + argument tuple), so histories repeat a
    call with equal arguments, with other arguments of the same kind, and with other kinds;
  * a step may return a value: it is compared with the value the same call returns on a fresh
    object built from the harness model of the primary inputs *before* the step;
  * after every step (mode "every") or only after the last one (mode "final", so that nothing
    but the steps themselves fills the caches) every derived quantity the object exposes is
    compared with a fresh object built from the model of the *current* primary inputs.

The model is advanced by definition-level NumPy code (row normalisation, delay embedding) or
holds what a fresh object reports; it never reads the object under test.  Data: offsets and
amplitudes far from (0, 1) so that normalisation matters; two-level and exactly periodic
series so that twins exist and differ between thresholds / embeddings.

check names:  "<Class>.<method of the last executed step>/history-twin",
              "<Class>.<method>/history-step-raises"
"""
import itertools
import random
import zlib

import numpy as np

from specs import stateful as S
from specs.stateful_registry import digest, SL


def _seed():
    np.random.seed(S.QSEED)
    random.seed(S.QSEED)


def _outcome(fn):
    _seed()
    try:
        return S.Outcome("ok", fn())
    except Exception as e:                                            # noqa
        return S.Outcome("exc", type(e).__name__)


class Step:
    """one public call; `call(obj)` performs it on any object (object under test or fresh
    twin) and returns the value or None; `effect(model, family)` advances the model"""

    def __init__(self, sym, method, call, effect, has_value=False, args=None):
        self.sym, self.method, self.call, self.effect = sym, method, call, effect
        self.has_value, self.args = has_value, args


class Family:
    name = ""
    clsname = ""

    def __init__(self, seed, tier):
        self.seed, self.tier = seed, tier
        self.steps = {}
        self.order = []
        self.obs_memo, self.step_memo = {}, {}
        self.setup()

    def add(self, step):
        self.steps[step.sym] = step
        self.order.append(step.sym)

    # ---- to be provided
    def setup(self):
        raise NotImplementedError

    def start(self):
        """-> (object, model)"""
        raise NotImplementedError

    def twin(self, model):
        raise NotImplementedError

    def observations(self):
        """list of (label, fn(obj))"""
        raise NotImplementedError

    # ---- histories
    def plan(self):
        """exhaustive to depth `full`, seeded samples above"""
        full, samples = self.depth()
        hist = [()]
        for L in range(1, full + 1):
            hist += list(itertools.product(self.order, repeat=L))
        rng = np.random.RandomState(self.seed * 7919 + zlib.crc32(self.name.encode()) % 100000)
        for L, n in samples.items():
            seen = set()
            while len(seen) < n:
                seen.add(tuple(self.order[i] for i in rng.randint(len(self.order), size=L)))
            hist += sorted(seen)
        return hist

    def depth(self):
        return (3, {4: 60}) if self.tier == "quick" else (4, {5: 300, 6: 100})

    # ---- references from fresh objects (memoised per model state)
    def key(self, model):
        return digest(model)

    def observe(self, obj, order=None):
        obs = self.observations()
        idx = range(len(obs)) if order is None else order
        got = [None] * len(obs)
        for j in idx:
            label, fn = obs[j]
            got[j] = _outcome(lambda: fn(obj))
        return got

    def observe_ref(self, model):
        k = self.key(model)
        if k not in self.obs_memo:
            if len(self.obs_memo) > 600:
                self.obs_memo.pop(next(iter(self.obs_memo)))
            self.obs_memo[k] = [S.freeze(o) for o in self.observe(self.twin(model))]
        return self.obs_memo[k]

    def step_ref(self, step, model_before):
        k = (self.key(model_before), step.sym)
        if k not in self.step_memo:
            if len(self.step_memo) > 2000:
                self.step_memo.pop(next(iter(self.step_memo)))
            t = self.twin(model_before)
            self.step_memo[k] = S.freeze(_outcome(lambda: step.call(t)))
        return self.step_memo[k]

    # ---- one history
    def run_history(self, hist, mode, out):
        obj, model = self.start()
        obs = self.observations()
        changed = not hist
        for i, sym in enumerate(hist):
            step = self.steps[sym]
            last = i == len(hist) - 1
            before = dict(model)
            kb = self.key(before)
            val = _outcome(lambda: step.call(obj))
            if val.kind == "exc":
                ref = self.step_ref(step, before)
                if ref.kind != "exc" or ref.value != val.value:
                    out["fail"].append((f"{self.clsname}.{step.method}/history-step-raises",
                                        self.witness(hist, mode, i, None),
                                        f"step {i} {sym} raised {val.value}; on a fresh object: {ref.brief()}"))
                    return
                #  raises on the fresh object as well: not a state change
            else:
                step.effect(model, self)
            if step.has_value and val.kind == "ok":
                out["eval"] += 1
                ref = self.step_ref(step, before)
                m = S.deep_diff(val, ref)
                if m:
                    out["fail"].append((f"{self.clsname}.{step.method}/history-twin",
                                        self.witness(hist, mode, i, f"return value of {sym}"),
                                        f"history {list(hist[:i + 1])}: {sym} returned {val.brief()} | the same call "
                                        f"on a fresh object with the same current inputs: {ref.brief()} | {m}"))
            if last:
                changed = (self.key(model) != kb) or step.has_value
            if mode == "every" or last:
                order = None
                if last:
                    order = np.random.RandomState(zlib.crc32(">".join(hist).encode())).permutation(len(obs))
                got = self.observe(obj, order)
                ref = self.observe_ref(model)
                nbad = 0
                for (label, _), a, b in zip(obs, got, ref):
                    out["eval"] += 1
                    m = S.deep_diff(a, b)
                    if m:
                        nbad += 1
                        out["fail"].append((f"{self.clsname}.{step.method}/history-twin",
                                            self.witness(hist, mode, i, label) if nbad <= 3 else None,
                                            f"after {list(hist[:i + 1])}: {label}: object {a.brief()} | fresh object "
                                            f"with the same current inputs {b.brief()} | {m}"))
                if nbad:
                    break           # later steps start from an incoherent object: one report per history
        if not hist:
            got = self.observe(obj)
            ref = self.observe_ref(model)
            for (label, _), a, b in zip(obs, got, ref):
                out["eval"] += 1
                m = S.deep_diff(a, b)
                if m:
                    out["fail"].append((f"{self.clsname}.__init__/history-twin", self.witness(hist, mode, 0, label),
                                        f"{label}: {a.brief()} vs {b.brief()} | {m}"))
        out["cases"].append((f"{self.name}:{mode}:{'>'.join(hist)}", bool(changed)))
        if len(out["samples"]) < 1 and len(hist) >= 3:
            out["samples"].append({"family": self.name, "history": list(hist), "mode": mode,
                                   "observations": len(obs)})

    def witness(self, hist, mode, step, label):
        return {"family": self.name, "seed": self.seed, "tier": self.tier, "history": list(hist), "mode": mode,
                "failed_after_step": step, "query": label,
                "calls": [self.describe(s) for s in hist]}

    def describe(self, sym):
        st = self.steps[sym]
        return f"{st.method}{_jsonable_args(st.args)}" if st.args is not None else st.method


def _jsonable_args(args):
    out = []
    for a in args:
        if isinstance(a, np.ndarray):
            out.append(f"array{a.shape}")
        elif callable(a):
            out.append(getattr(a, "__name__", "fn"))
        else:
            out.append(a)
    return tuple(out)



# =========================================================================== Surrogates

def delay_embedding(data, dim, delay):
    """definition: E[i, t, d] = x_i(t + d * delay)"""
    N, n = data.shape
    m = n - (dim - 1) * delay
    E = np.empty((N, m, dim))
    for d in range(dim):
        E[:, :, d] = data[:, d * delay:d * delay + m]
    return E


def normalise_rows(data):
    """definition: zero mean, unit standard deviation per row (rows of zero spread keep zero mean)"""
    d = np.array(data, dtype=float, copy=True)
    mean = d.mean(axis=1)
    std = d.std(axis=1)
    for i in range(d.shape[0]):
        d[i, :] -= mean[i]
        if std[i] != 0:
            d[i, :] /= std[i]
    return d


class SurrogatesFamily(Family):
    name = "Surrogates/histories"
    clsname = "Surrogates"
    n_time = 48
    #  (dimension, delay, threshold, min_dist); thresholds are float32-exact
    P = {"tws0": (2, 1, 0.5, 2), "tws1": (3, 2, 0.5, 2), "tws2": (2, 1, 1.75, 3)}
    Q = {"tw0": (0.5, 2), "tw1": (1.75, 3)}

    def setup(self):
        from pyunicorn.timeseries import Surrogates
        rng = np.random.RandomState(500 + self.seed)
        n = self.n_time
        t = np.arange(n)
        per = 8
        two = np.where(((t + self.seed) // (per // 2)) % 2 == 0, 12.0, 20.0)        # two-level, period 8
        sinp = 7.0 + 3.0 * np.sin(2 * np.pi * t / per + 0.3 + 0.2 * self.seed)       # periodic, period 8
        noisy = -5.0 + 2.5 * np.sin(2 * np.pi * t / 12.0) + 0.4 * rng.randn(n)       # noisy, few twins
        self.data = np.vstack([two, sinp, noisy])
        #  user-assigned embeddings (shapes of tws0 / tws1): embeddings of *other* periodic data
        other = np.vstack([3.0 + np.where((t // 3) % 2 == 0, 0.0, 1.0),
                           2.0 * np.cos(2 * np.pi * t / 6.0) - 1.0,
                           np.round(rng.randn(n), 2)])
        self.E_pool = [delay_embedding(other, 2, 1), delay_embedding(other[::-1].copy(), 3, 2)]

        def norm_call(o):
            o.normalize_original_data()

        def norm_eff(m, fam):
            m["data"] = normalise_rows(m["data"])
            m["normalized"] = True
        self.add(Step("norm", "normalize_original_data", norm_call, norm_eff, args=()))

        for k, E in enumerate(self.E_pool):
            def emb_call(o, E=E):
                o.embedding = E.copy()

            def emb_eff(m, fam, E=E):
                m["E"] = E.copy()
            self.add(Step(f"emb{k}", "embedding", emb_call, emb_eff, args=(E,)))

        for sym, p in self.P.items():
            def tws_call(o, p=p):
                return o.twin_surrogates(*p)

            def tws_eff(m, fam, p=p):
                m["E"] = delay_embedding(m["data"], p[0], p[1])
            self.add(Step(sym, "twin_surrogates", tws_call, tws_eff, has_value=True, args=p))

        for sym, q in self.Q.items():
            def tw_call(o, q=q):
                return o.twins(*q)
            self.add(Step(sym, "twins", tw_call, lambda m, fam: None, has_value=True, args=q))

        def odist_call(o):
            return o.original_distribution(Surrogates.test_pearson_correlation, n_bins=5)

        def implicit_norm(m, fam):
            #  documented: "Normalize original_data time series to zero mean and unit variance"
            if not m["normalized"]:
                norm_eff(m, fam)
        self.add(Step("odist", "original_distribution", odist_call, implicit_norm, has_value=True,
                      args=("test_pearson_correlation", 5)))
        if self.tier != "quick":
            def tts_call(o):
                return o.test_threshold_significance(Surrogates.correlated_noise_surrogates,
                                                     Surrogates.test_pearson_correlation, realizations=2, n_bins=5)
            self.add(Step("tts", "test_threshold_significance", tts_call, implicit_norm, has_value=True,
                          args=("correlated_noise_surrogates", "test_pearson_correlation", 2, 5)))

        from pyunicorn.timeseries import Surrogates as _S

        def rp0(o, thr):
            return _S.recurrence_plot(o.embedding[1], thr, silence_level=SL)
        self._obs = [
            ("original_data", lambda o: o.original_data),
            ("embedding", lambda o: o.embedding),
            ("N", lambda o: o.N), ("n_time", lambda o: o.n_time),
            ("twins(0.5, 2)", lambda o: o.twins(0.5, 2)),
            ("twins(1.75, 3)", lambda o: o.twins(1.75, 3)),
            ("twins(0.5, min_dist=5)", lambda o: o.twins(0.5, min_dist=5)),
            ("recurrence_plot(embedding[1], 0.5)", lambda o: rp0(o, 0.5)),
            ("recurrence_plot(embedding[1], 1.75)", lambda o: rp0(o, 1.75)),
            ("original_data_fft()", lambda o: o.original_data_fft()),
            ("white_noise_surrogates()", lambda o: o.white_noise_surrogates()),
            ("correlated_noise_surrogates()", lambda o: o.correlated_noise_surrogates()),
            ("AAFT_surrogates()", lambda o: o.AAFT_surrogates()),
            ("refined_AAFT_surrogates(2)", lambda o: o.refined_AAFT_surrogates(2)),
            ("refined_AAFT_surrogates(2, 'true_spectrum')", lambda o: o.refined_AAFT_surrogates(2, "true_spectrum")),
        ]

    def observations(self):
        return self._obs

    def start(self):
        from pyunicorn.timeseries import Surrogates
        d = self.data.copy()
        return Surrogates(d, silence_level=SL), {"data": self.data.copy(), "E": None, "normalized": False}

    def twin(self, model):
        from pyunicorn.timeseries import Surrogates
        t = Surrogates(model["data"].copy(), silence_level=SL)
        if model["E"] is not None:
            t.embedding = model["E"].copy()
        return t

    def key(self, model):
        #  `normalized` only records whether the data were normalised already; two models with
        #  equal data and embedding are the same current inputs
        return digest({"data": model["data"], "E": model["E"]})


# =========================================================================== RecurrencePlot

def _f32(x):
    return np.asarray(x, dtype="float32").astype("float64")


def rp_series(n, seed, kind):
    t = np.arange(n)
    rng = np.random.RandomState(700 + seed)
    if kind == "two-level":
        #  two levels, period 6, plus one outlier so that the plot is not purely periodic
        x = np.where(((t + seed) // 3) % 2 == 0, 4.0, 9.0)
        x[n // 2] = 6.5
    elif kind == "periodic":
        x = 5.0 + 2.0 * np.sin(2 * np.pi * t / 8.0 + 0.4 * seed) + np.where(t % 16 < 8, 0.0, 0.25)
    else:
        x = 3.0 + np.round(np.cumsum(rng.randn(n)) * 0.5, 3)
    return _f32(x)


class RPFamily(Family):
    """RecurrencePlot.  model: ts, E (embedding override or None), rspec = (kind, value) or
    ('explicit', R): the embedding setter does not recompute R, so the R a fresh object held
    before the assignment stays a primary input."""
    clsname = "RecurrencePlot"
    n = 24
    metric = "supremum"
    dim = tau = None
    kind = "two-level"
    SETTERS = {"thr": "set_fixed_threshold", "thr_std": "set_fixed_threshold_std",
               "rr": "set_fixed_recurrence_rate", "lrr": "set_fixed_local_recurrence_rate",
               "ans": "set_adaptive_neighborhood_size"}
    KW = {"thr": "threshold", "thr_std": "threshold_std", "rr": "recurrence_rate",
          "lrr": "local_recurrence_rate", "ans": "adaptive_neighborhood_size"}
    EXCLUDE = ("bootstrap_distance_matrix", "rejection_sampling", "embed_time_series", "legendre_coordinates",
               "threshold_from_recurrence_rate", "threshold_from_recurrence_rate_fast")
    VALUES = {"thr": (1.0, 3.0), "rr": (0.2, 0.45), "lrr": (0.3,), "thr_std": (0.5,), "ans": (3,)}

    def klass(self):
        from pyunicorn.timeseries import RecurrencePlot
        return RecurrencePlot

    def setup(self):
        self.ts = rp_series(self.n, self.seed, self.kind)
        m = self.n - ((self.dim - 1) * self.tau if self.dim else 0)
        d = self.dim or 1
        pool = []
        for k, kind in enumerate(("periodic", "two-level")):
            x = rp_series(m + 2 * (d - 1), self.seed + 3 + k, kind)
            pool.append(np.column_stack([x[j * 2:j * 2 + m] for j in range(d)]))
        self.E_pool = pool
        kinds = ["thr", "rr", "lrr"] + (["thr_std", "ans"] if self.tier != "quick" else [])
        for kind in kinds:
            for j, v in enumerate(self.VALUES[kind]):
                def call(o, kind=kind, v=v):
                    getattr(o, self.SETTERS[kind])(v)

                def eff(m_, fam, kind=kind, v=v):
                    m_["rspec"] = (kind, v)
                self.add(Step(f"{kind}{j}", self.SETTERS[kind], call, eff, args=(v,)))
        for k, E in enumerate(self.E_pool):
            def ecall(o, E=E):
                o.embedding = E.copy()

            def eeff(m_, fam, E=E):
                R = fam.twin(m_).R
                m_["rspec"] = ("explicit", np.asarray(R).copy())
                m_["E"] = E.copy()
            self.add(Step(f"emb{k}", "embedding", ecall, eeff, args=(E,)))
        obj, model = self.start()
        qs, _ = S.discover(obj, {"N": int(obj.N), "patterns": {"min_dist": [2], "n_surrogates": [2]}},
                           exclude=self.EXCLUDE)
        qs = [S.Query("embedding", kind="attr"), S.Query("twins", (4,))] + qs
        #  determinism probe: queries that differ between fresh objects are not functions of the state
        keep = []
        a, b = self.start()[0], self.twin(model)
        for q in qs:
            r1, r2 = S.call(a, q), S.call(b, q)
            S.call(a, q)
            if S.deep_diff(r1, r2) or S.deep_diff(S.call(a, q), r2):
                continue
            keep.append(q)
        self._obs = [(q.label, (lambda o, q=q: self._value(o, q))) for q in keep]

    @staticmethod
    def _value(o, q):
        r = S.call(o, q)
        if r.kind == "exc":
            raise RuntimeError(r.value)
        return r.value

    def observations(self):
        return self._obs

    def ctor_kw(self, rspec, E):
        kind, v = rspec
        kw = dict(metric=self.metric, silence_level=SL)
        if self.dim:
            kw.update(dim=self.dim, tau=self.tau)
        if kind == "explicit":
            kw["threshold"] = 1.0
        elif kind == "thr_std" and E is not None:
            #  "in units of the time series' STD": the series is unchanged by an embedding override
            kw["threshold"] = float(v) * float(np.asarray(self.ts, dtype="float32").std())
        else:
            kw[self.KW[kind]] = v
        return kw

    def start(self):
        m = {"E": None, "rspec": ("thr", 1.0)}
        return self.klass()(self.ts.copy(), **self.ctor_kw(m["rspec"], None)), m

    def twin(self, m):
        kind, v = m["rspec"]
        if m["E"] is not None and self.dim:
            #  an embedding override on a delay-embedded plot cannot be given to the constructor
            t = self.klass()(self.ts.copy(), **self.ctor_kw(("thr", 1.0), None))
            t.embedding = m["E"].copy()
            if kind != "explicit":
                getattr(t, self.SETTERS[kind])(v)
        else:
            base = self.ts.copy() if m["E"] is None else m["E"].copy()
            kw = self.ctor_kw(m["rspec"], m["E"])
            if m["E"] is not None:
                kw.pop("dim", None)
                kw.pop("tau", None)
            t = self.klass()(base, **kw)
        if kind == "explicit":
            t.R = v.copy()
        return t


class RPTwoLevel(RPFamily):
    name = "RecurrencePlot/histories-two-level"


class RPPeriodicEmbedded(RPFamily):
    name = "RecurrencePlot/histories-periodic-embedded"
    kind = "periodic"
    metric = "euclidean"
    dim, tau = 2, 2
    VALUES = dict(RPFamily.VALUES, thr=(0.75, 2.0))


class RPWalkManhattan(RPFamily):
    name = "RecurrencePlot/histories-walk-manhattan"
    kind = "walk"
    metric = "manhattan"
    dim, tau = 3, 1
    VALUES = dict(RPFamily.VALUES, thr=(1.5, 3.0))


FAMILIES = [SurrogatesFamily, RPTwoLevel, RPPeriodicEmbedded, RPWalkManhattan]


def family_by_name(name, seed, tier):
    for c in FAMILIES:
        if c.name == name:
            return c(seed, tier)
    raise KeyError(name)
