"""Definition-level reference statistics for property C10 (similarity and coupling estimates).

Everything here is computed in float64 with NumPy / scipy.stats directly from the time series.
Nothing is imported from pyunicorn.  Conventions (T = number of samples, natural logarithm):

* pearson(x, y)            textbook product-moment correlation; NaN when a series is constant
* lagged_cc(data, tau_max) R[i, j, tau] = pearson(X^i_{t-tau}, X^j_t), t = tau_max .. T-1
                           (all lags use the same T - tau_max reference times t)
* spearman(x, y)           Pearson correlation of *average* (fractional) ranks = scipy.stats.spearmanr
* partial_corr_matrix      correlation of the least-squares residuals of columns i and j after
                           regressing both on all other columns and an intercept
* quantile_symbols         aequi-quantile binning: the lower bin edges are every w-th order
                           statistic, w = ceil(M / bins); symbol = index of the last edge <= value
* equal_width_symbols      equal-width binning of [lo, hi] into n_bins cells, hi goes to the last
* plugin_mi(a, b)          sum_ab p_ab log(p_ab / (p_a p_b)) from the contingency table
* gauss_mi(r)              -1/2 log(1 - r^2)
* cond_pearson(x, y, Z)    partial correlation of x and y given the rows of Z (+ intercept)
"""
import math

import numpy as np
from scipy import special, stats


# ----------------------------------------------------------------------------- correlation

def pearson(x, y):
    x = np.asarray(x, dtype=np.float64)
    y = np.asarray(y, dtype=np.float64)
    if x.shape != y.shape or x.ndim != 1 or len(x) < 2:
        return float("nan")
    if np.all(x == x[0]) or np.all(y == y[0]):
        return float("nan")
    dx = x - x.mean()
    dy = y - y.mean()
    den = math.sqrt(float(np.dot(dx, dx)) * float(np.dot(dy, dy)))
    if den == 0.0:
        return float("nan")
    return max(-1.0, min(1.0, float(np.dot(dx, dy)) / den))


def pearson_matrix(data):
    """data[time, node] -> N x N matrix of zero-lag Pearson correlations (NaN where undefined)."""
    data = np.asarray(data, dtype=np.float64)
    N = data.shape[1]
    R = np.full((N, N), np.nan)
    for i in range(N):
        for j in range(i, N):
            R[i, j] = R[j, i] = pearson(data[:, i], data[:, j])
    return R


def lagged_cc(data, tau_max):
    """R[i, j, tau] = pearson(data[tau_max - tau : T - tau, i], data[tau_max : T, j])."""
    data = np.asarray(data, dtype=np.float64)
    T, N = data.shape
    R = np.full((N, N, tau_max + 1), np.nan)
    for tau in range(tau_max + 1):
        for i in range(N):
            xi = data[tau_max - tau:T - tau, i]
            for j in range(N):
                R[i, j, tau] = pearson(xi, data[tau_max:T, j])
    return R


def two_sided_cc(data, tau_max):
    """Windows of the pure-Python class: R[t, i, j] = pearson(X^i on [tau_max, T - tau_max),
    X^j on [t, t + T - 2 tau_max)), t = 0 .. 2 tau_max  (lag of j relative to i: t - tau_max)."""
    data = np.asarray(data, dtype=np.float64)
    T, N = data.shape
    cr = T - 2 * tau_max
    R = np.full((2 * tau_max + 1, N, N), np.nan)
    for t in range(2 * tau_max + 1):
        for i in range(N):
            xi = data[tau_max:tau_max + cr, i]
            for j in range(N):
                R[t, i, j] = pearson(xi, data[t:t + cr, j])
    return R


def spearman(x, y):
    x = np.asarray(x, dtype=np.float64)
    y = np.asarray(y, dtype=np.float64)
    if np.all(x == x[0]) or np.all(y == y[0]):
        return float("nan")
    return pearson(stats.rankdata(x, method="average"), stats.rankdata(y, method="average"))


def spearman_matrix(data):
    data = np.asarray(data, dtype=np.float64)
    N = data.shape[1]
    R = np.full((N, N), np.nan)
    for i in range(N):
        for j in range(i, N):
            R[i, j] = R[j, i] = spearman(data[:, i], data[:, j])
    return R


def has_ties(data):
    data = np.asarray(data)
    return any(len(np.unique(data[:, i])) < data.shape[0] for i in range(data.shape[1]))


def _residual(y, Z):
    """Least-squares residual of y on the columns of Z plus an intercept; also the fraction of
    the centred norm that is left."""
    y = np.asarray(y, dtype=np.float64)
    A = np.column_stack([np.ones(len(y))] + [np.asarray(z, dtype=np.float64) for z in Z])
    coef = np.linalg.lstsq(A, y, rcond=None)[0]
    res = y - A @ coef
    c = y - y.mean()
    nc = math.sqrt(float(np.dot(c, c)))
    frac = math.sqrt(float(np.dot(res, res))) / nc if nc > 0 else 0.0
    return res, frac


def cond_pearson(x, y, Z, min_frac=1e-5):
    """Partial correlation of x and y given the series in Z.  Returns NaN when it is undefined
    or numerically meaningless: a series constant, the conditioning series collinear (relative
    singular value < 1e-8), less than `min_frac` of the centred norm of x or y left after the
    regression, or not more samples than regressors + 2."""
    x = np.asarray(x, dtype=np.float64)
    if len(x) <= len(Z) + 2:
        return float("nan")
    if len(Z) == 0:
        return pearson(x, y)
    Zc = np.array(Z, dtype=np.float64)
    Zc = Zc - Zc.mean(axis=1, keepdims=True)
    nz = np.sqrt((Zc * Zc).sum(axis=1))
    if np.any(nz == 0):
        return float("nan")
    sv = np.linalg.svd(Zc / nz[:, None], compute_uv=False)
    if sv[-1] < 1e-8 * sv[0]:
        return float("nan")        # collinear conditions: regression on them is rank deficient
    rx, fx = _residual(x, Z)
    ry, fy = _residual(y, Z)
    if not (fx > min_frac and fy > min_frac):
        return float("nan")
    den = math.sqrt(float(np.dot(rx, rx)) * float(np.dot(ry, ry)))
    if den == 0.0:
        return float("nan")
    return max(-1.0, min(1.0, float(np.dot(rx, ry)) / den))


def partial_corr_matrix(data):
    """Partial correlation of each pair of columns given all the others (off-diagonal only;
    the diagonal is NaN)."""
    data = np.asarray(data, dtype=np.float64)
    N = data.shape[1]
    P = np.full((N, N), np.nan)
    for i in range(N):
        for j in range(i + 1, N):
            Z = [data[:, k] for k in range(N) if k not in (i, j)]
            P[i, j] = P[j, i] = cond_pearson(data[:, i], data[:, j], Z)
    return P


def corr_condition_number(data):
    """Condition number of the zero-lag correlation matrix (inf when a column is constant)."""
    R = pearson_matrix(data)
    if np.isnan(R).any():
        return float("inf")
    s = np.linalg.svd(R, compute_uv=False)
    return float("inf") if s[-1] <= 0 else float(s[0] / s[-1])


# ----------------------------------------------------------------------------- mutual information

def quantile_symbols(x, bins):
    x = np.asarray(x, dtype=np.float64)
    M = len(x)
    w = int(math.ceil(M / float(bins)))
    edges = sorted(x.tolist())[::w]
    out = np.empty(M, dtype=np.int64)
    for k, v in enumerate(x.tolist()):
        s = -1
        for b, e in enumerate(edges):
            if e <= v:
                s = b
        out[k] = s
    return out


def equal_width_symbols(x, lo, hi, n_bins, guard=1e-6):
    """Cell index of each value for n_bins equal cells on [lo, hi]; the value hi belongs to the
    last cell.  Second result: True when some value lies within `guard` cell widths of an inner
    cell boundary (then a single-precision implementation may legitimately bin it differently)."""
    x = np.asarray(x, dtype=np.float64)
    u = (x - lo) / (hi - lo) * n_bins
    s = np.floor(u).astype(np.int64)
    s[u >= n_bins] = n_bins - 1
    s[s < 0] = 0
    near = np.abs(u - np.round(u)) < guard
    inner = (np.round(u) > 0) & (np.round(u) < n_bins)
    return s, bool(np.any(near & inner))


def plugin_mi(a, b):
    a = np.asarray(a)
    b = np.asarray(b)
    M = len(a)
    ua, ia = np.unique(a, return_inverse=True)
    ub, ib = np.unique(b, return_inverse=True)
    H = np.zeros((len(ua), len(ub)))
    np.add.at(H, (ia, ib), 1.0)
    P = H / M
    pa = P.sum(axis=1)
    pb = P.sum(axis=0)
    tot = 0.0
    for k in range(len(ua)):
        for m in range(len(ub)):
            if P[k, m] > 0:
                tot += P[k, m] * math.log(P[k, m] / (pa[k] * pb[m]))
    return tot


def joint_entropy(a, b):
    a = np.asarray(a)
    b = np.asarray(b)
    M = len(a)
    _, cnt = np.unique(np.stack([a, b], axis=1), axis=0, return_counts=True)
    p = cnt / float(M)
    return float(-(p * np.log(p)).sum())


def gauss_mi(r):
    if r != r:
        return float("nan")
    if abs(r) >= 1.0:
        return float("inf")
    return -0.5 * math.log(1.0 - r * r)


def gauss_mi_to_abs_r(v):
    """Inverse of gauss_mi on the |r| scale (inf -> 1)."""
    v = np.asarray(v, dtype=np.float64)
    with np.errstate(all="ignore"):
        return np.sqrt(np.clip(1.0 - np.exp(-2.0 * v), 0.0, 1.0))


def lagged_windows(data, tau_max, past=0):
    """Index helper: with max_lag = tau_max + past the series (var, lag) is
    data[max_lag + lag : T + lag, var]  (lag <= 0)."""
    T = data.shape[0]
    max_lag = tau_max + past

    def w(var, lag):
        return np.asarray(data[max_lag + lag:T + lag, var], dtype=np.float64)
    return w


def lagged_binned_mi(data, tau_max, bins):
    data = np.asarray(data, dtype=np.float64)
    N = data.shape[1]
    w = lagged_windows(data, tau_max)
    R = np.zeros((N, N, tau_max + 1))
    sym = {}
    for v in range(N):
        for tau in range(tau_max + 1):
            sym[v, tau] = quantile_symbols(w(v, -tau), bins)
    for i in range(N):
        for j in range(N):
            for tau in range(tau_max + 1):
                R[i, j, tau] = plugin_mi(sym[i, tau], sym[j, 0])
    return R


def lagged_gauss_mi(data, tau_max):
    R = lagged_cc(data, tau_max)
    return np.vectorize(gauss_mi)(R), R


def info_transfer_partial_corr(data, tau_max, past, cond_mode):
    """rho[i, j, tau] = partial correlation of X^i_{t-tau} and X^j_t given
    ITY: X^j_{t-1..t-past};  MIT: additionally X^i_{t-tau-1..t-tau-past};
    t = tau_max + past .. T-1.  NaN where degenerate."""
    data = np.asarray(data, dtype=np.float64)
    N = data.shape[1]
    w = lagged_windows(data, tau_max, past)
    rho = np.full((N, N, tau_max + 1), np.nan)
    for i in range(N):
        for j in range(N):
            for tau in range(tau_max + 1):
                Z = [w(j, -p) for p in range(1, past + 1)]
                if cond_mode == "mit":
                    Z += [w(i, -tau - p) for p in range(1, past + 1)]
                rho[i, j, tau] = cond_pearson(w(i, -tau), w(j, 0), Z)
    return rho


def knn_bound(M, k):
    """|KSG-1 estimate| <= psi(M) - psi(k) when no conditions are present."""
    return float(special.digamma(M) - special.digamma(k))


# ----------------------------------------------------------------------------- abs-max summary

def absmax_candidates(S, L, i, j):
    """Admissible (value, lag) results at [i, j] of the symmetrised summary."""
    a, b = float(S[i, j]), float(S[j, i])
    cand = []
    if abs(a) >= abs(b):
        cand.append((a, int(L[i, j])))
    if abs(b) >= abs(a):
        cand.append((b, -int(L[j, i])))
    return cand


def selftest(rng):
    """Cross-check the explicit formulas against scipy.stats on random data."""
    for _ in range(20):
        n = rng.randint(3, 30)
        x = rng.randn(n)
        y = rng.randn(n) + 0.5 * x
        if abs(pearson(x, y) - stats.pearsonr(x, y)[0]) > 1e-12:
            return "pearson != scipy.stats.pearsonr"
        xi = rng.randint(0, 4, n).astype(float)
        yi = rng.randint(0, 4, n).astype(float)
        if len(set(xi)) > 1 and len(set(yi)) > 1:
            if abs(spearman(xi, yi) - stats.spearmanr(xi, yi)[0]) > 1e-12:
                return "spearman != scipy.stats.spearmanr"
        a = rng.randint(0, 3, n)
        b = rng.randint(0, 3, n)
        h = plugin_mi(a, b)
        ha = stats.entropy(np.bincount(a)) + stats.entropy(np.bincount(b)) - joint_entropy(a, b)
        if abs(h - ha) > 1e-12:
            return "plugin_mi != H(a)+H(b)-H(a,b)"
    return None
