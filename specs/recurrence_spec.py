"""Definition-level specification of recurrence matrices and RQA line statistics (C07, C08).

Everything here is written from the definitions ([Marwan2007] and the library's docstrings),
in pure Python / NumPy, without calling pyunicorn.  Conventions that the docstrings fix and
that this spec takes over:

* state vectors: the rows of the (multi-dimensional) series, or the delay embedding
  e_k = (s[k], s[k+tau], ..., s[k+(dim-1)tau]),  k = 0 .. n-(dim-1)tau-1;
* distance under "manhattan" / "euclidean" / "supremum" = sum|.| / sqrt(sum .^2) / max|.| of the
  component differences, evaluated in float64 left to right; a state with a NaN component is a
  *missing* state and has no distance to anything (NaN);
* recurrence: R[i,j] = 1  iff  d(i,j) < threshold  (strict), never when i or j is missing;
* histograms: entry [l-1] counts the maximal runs of length l;
  - vertical line  = run in R[i, j..j+v-1] for fixed first index i (Marwan's P(v)),
  - diagonal line  = run along R[i+k, j+k], main diagonal excluded ("The main diagonal is not
    counted"), both triangles counted,
  - white vertical = run of zeros for fixed first index;
  - with missing-value handling a cell (i,j) is missing iff state i or j is missing, and a run is
    counted only if it does not touch (is not directly preceded or followed by) a missing cell.
"""
import math
from fractions import Fraction

import numpy as np

METRICS = ("manhattan", "euclidean", "supremum")


# ------------------------------------------------------------------ states and distances

def as_states(series):
    """2-D list-of-rows view (time, dimension) of a scalar or multi-dimensional series."""
    a = np.asarray(series, dtype=np.float64)
    if a.ndim == 1:
        a = a.reshape(-1, 1)
    return a


def embed(series, dim, tau):
    """Delay embedding of a scalar series by its definition."""
    s = [float(v) for v in np.asarray(series, dtype=np.float64).ravel()]
    n = len(s) - (dim - 1) * tau
    return np.array([[s[k + j * tau] for j in range(dim)] for k in range(n)],
                    dtype=np.float64).reshape(max(n, 0), dim)


def is_missing(states):
    return [any(math.isnan(c) for c in row) for row in np.asarray(states, dtype=float).tolist()]


def dist(u, v, metric):
    """Distance of two state vectors (Python floats = IEEE double, left-to-right)."""
    if any(math.isnan(c) for c in u) or any(math.isnan(c) for c in v):
        return float("nan")
    if metric == "manhattan":
        s = 0.0
        for a, b in zip(u, v):
            s += abs(a - b)
        return s
    if metric == "euclidean":
        s = 0.0
        for a, b in zip(u, v):
            d = abs(a - b)
            s += d * d
        return math.sqrt(s)
    if metric == "supremum":
        s = 0.0
        for a, b in zip(u, v):
            d = abs(a - b)
            if d > s:
                s = d
        return s
    raise ValueError(metric)


def distance_matrix(X, Y, metric):
    X = np.asarray(X, dtype=float).tolist()
    Y = np.asarray(Y, dtype=float).tolist()
    D = np.empty((len(X), len(Y)), dtype=np.float64)
    for i, u in enumerate(X):
        for j, v in enumerate(Y):
            D[i, j] = dist(u, v, metric)
    return D


def threshold_matrix(D, thr):
    """R = [D < thr] strictly; NaN distances (missing states) are never recurrent."""
    D = np.asarray(D, dtype=float)
    R = np.zeros(D.shape, dtype=np.int8)
    for idx in np.ndindex(*D.shape):
        d = D[idx]
        if not math.isnan(d) and d < thr:
            R[idx] = 1
    return R


def quantile_indices(rate, n):
    """Admissible positions of 'the rate-quantile' in n ascending values: floor(rate*(n-1)),
    evaluated exactly on the double `rate` and in double arithmetic (they differ only when the
    exact product lies within one ulp below an integer)."""
    exact = int(math.floor(Fraction(rate) * (n - 1)))
    flt = int(rate * (n - 1))
    return sorted({exact, flt})


def joint_matrix(Rx, Ry, lag):
    """JR[i,j] = Rx[i,j] * Ry[i+lag, j+lag]  over all i,j for which both index pairs exist."""
    n = Rx.shape[0]
    m = n - abs(lag)
    J = np.zeros((m, m), dtype=np.int8)
    for i in range(m):
        for j in range(m):
            if lag >= 0:
                J[i, j] = Rx[i, j] * Ry[i + lag, j + lag]
            else:
                J[i, j] = Rx[i - lag, j - lag] * Ry[i, j]
    return J


def without_diagonal(R):
    A = np.array(R, dtype=np.int64, copy=True)
    for i in range(min(A.shape)):
        A[i, i] = 0
    return A


# ------------------------------------------------------------------ run-length counting

BLACK, WHITE, MISSING = 1, 0, -1


def run_hist(lines, colour, n):
    """Histogram (length n) of maximal runs of `colour` in each line; a run adjacent to a
    MISSING cell is dropped.  Direct scan, one line at a time."""
    hist = [0] * n
    for cells in lines:
        L = len(cells)
        a = 0
        while a < L:
            if cells[a] != colour:
                a += 1
                continue
            b = a
            while b < L and cells[b] == colour:
                b += 1
            touches = (a > 0 and cells[a - 1] == MISSING) or (b < L and cells[b] == MISSING)
            if not touches:
                hist[b - a - 1] += 1
            a = b
    return hist


def _cell(R, miss, i, j):
    if miss is not None and (miss[i] or miss[j]):
        return MISSING
    return BLACK if R[i][j] else WHITE


def vertical_lines(R, miss=None):
    n = len(R)
    return [[_cell(R, miss, i, j) for j in range(n)] for i in range(n)]


def diagonal_lines(R, miss=None, which="both"):
    n = len(R)
    out = []
    for k in range(1, n):
        if which in ("both", "lower"):
            out.append([_cell(R, miss, j + k, j) for j in range(n - k)])
        if which in ("both", "upper"):
            out.append([_cell(R, miss, j, j + k) for j in range(n - k)])
    return out


def histograms(R, miss=None):
    """diag / vert / white histograms of the square 0/1 matrix R by direct run-length counting.
    `white` ignores missing-value information (the library documents none for it)."""
    Rl = np.asarray(R).tolist()
    n = len(Rl)
    m = list(miss) if miss is not None else None
    return {
        "diag": run_hist(diagonal_lines(Rl, m), BLACK, n),
        "diag_lower": run_hist(diagonal_lines(Rl, m, "lower"), BLACK, n),
        "vert": run_hist(vertical_lines(Rl, m), BLACK, n),
        "white": run_hist(vertical_lines(Rl, None), WHITE, n),
    }


# ------------------------------------------------------------------ scalar RQA measures

def points(P, lo=1):
    return sum(l * P[l - 1] for l in range(lo, len(P) + 1))


def count(P, lo=1):
    return sum(P[l - 1] for l in range(lo, len(P) + 1))


def ratio_points(P, lo):
    """DET / LAM: share of the points on lines that lie on lines of length >= lo (0 if none)."""
    den = points(P, 1)
    return Fraction(points(P, lo), den) if den else Fraction(0)


def average_length(P, lo):
    """L / TT / mean recurrence time: mean length of the lines of length >= lo (0 if none)."""
    den = count(P, lo)
    return Fraction(points(P, lo), den) if den else Fraction(0)


def max_length(P):
    m = 0
    for l in range(1, len(P) + 1):
        if P[l - 1]:
            m = l
    return m


def entropy(P, lo):
    """Shannon entropy (nats) of the length distribution of the lines of length >= lo."""
    tot = count(P, lo)
    if not tot:
        return 0.0
    h = 0.0
    for l in range(lo, len(P) + 1):
        if P[l - 1]:
            p = P[l - 1] / tot
            h -= p * math.log(p)
    return h
