"""Shared machinery of the bounded stand-ins for C01 (cache coherence) and C06 (purity).

Contents
  * deep comparison / deep snapshot of results, object fields and caller inputs
  * discovery of the public queries of an object by introspection, with argument patterns
    chosen from the *parameter names* (link-attribute keys, typical weights, node lists ...)
  * a registry of class specs: how to build a small instance, which caller-owned inputs it
    got, how to build a fresh twin from the *current primary inputs* (`rebuild`), and the
    alphabet of public mutators together with their effect on the harness-side model of the
    primary inputs

The oracle of both properties is defined by the property text itself ("equals what a newly
constructed object given the same current inputs reports", "equals what the query reports on
its own"), so the reference values are produced by *fresh objects that have no history*; the
harness never looks into the cache and never re-implements a measure.
"""
import copy
import inspect
import io
import os
import random
import sys

os.environ.setdefault("TQDM_DISABLE", "1")

import numpy as np
import scipy.sparse as sp

QSEED = 20240607          # RNG seed set before *every* query call (np.random and random)
F32_RTOL, F64_RTOL = 1e-5, 1e-9


# --------------------------------------------------------------------------- silence

class Silence:
    """Redirect Python-level stdout (pyunicorn progress messages) for the whole run."""

    def __enter__(self):
        self._old = sys.stdout
        sys.stdout = io.StringIO()
        return self

    def __exit__(self, *exc):
        sys.stdout = self._old
        return False


# --------------------------------------------------------------------------- comparison

def _is_num(x):
    return isinstance(x, (int, float, complex, np.integer, np.floating, np.complexfloating,
                          bool, np.bool_))


def _arr_equal(a, b, exact):
    if a.shape != b.shape:
        return f"shape {a.shape} vs {b.shape}"
    if a.dtype == object or b.dtype == object:
        for i, (x, y) in enumerate(zip(a.ravel().tolist(), b.ravel().tolist())):
            m = deep_diff(x, y, exact)
            if m:
                return f"[{i}] {m}"
        return None
    if a.dtype.kind in "US" or b.dtype.kind in "US":
        return None if np.array_equal(a, b) else "string arrays differ"
    if exact:
        if a.dtype != b.dtype:
            return f"dtype {a.dtype} vs {b.dtype}"
        if a.dtype.kind in "fc":
            ok = np.array_equal(a, b, equal_nan=True)
        else:
            ok = np.array_equal(a, b)
        if not ok:
            idx = np.argwhere(~((a == b) | ((a != a) & (b != b))))
            return f"{len(idx)} entries differ, first at {idx[0].tolist() if len(idx) else '?'}" \
                   f": {a[tuple(idx[0])] if len(idx) else ''} vs {b[tuple(idx[0])] if len(idx) else ''}"
        return None
    if a.dtype.kind in "fc" or b.dtype.kind in "fc":
        f32 = (a.dtype in (np.float32, np.complex64)) or (b.dtype in (np.float32, np.complex64))
        rtol = F32_RTOL if f32 else F64_RTOL
        atol = 1e-6 if f32 else 1e-11
        with np.errstate(all="ignore"):
            ok = np.allclose(a, b, rtol=rtol, atol=atol, equal_nan=True)
        if not ok:
            with np.errstate(all="ignore"):
                bad = ~np.isclose(a, b, rtol=rtol, atol=atol, equal_nan=True)
            idx = np.argwhere(bad)
            i0 = tuple(idx[0])
            return f"{len(idx)} of {a.size} entries differ, first at {list(i0)}: {a[i0]!r} vs {b[i0]!r}"
        return None
    if not np.array_equal(a, b):
        idx = np.argwhere(a != b)
        i0 = tuple(idx[0])
        return f"{len(idx)} of {a.size} entries differ, first at {list(i0)}: {a[i0]!r} vs {b[i0]!r}"
    return None


def deep_diff(a, b, exact=False):
    """None when a and b are equal (within the dtype tolerance unless `exact`), else a text."""
    if a is b:
        return None
    if isinstance(a, Outcome) or isinstance(b, Outcome):
        if not (isinstance(a, Outcome) and isinstance(b, Outcome)):
            return "outcome vs value"
        if a.kind != b.kind:
            return f"{a.brief()} vs {b.brief()}"
        if a.kind == "exc":
            return None if a.value == b.value else f"raises {a.value} vs raises {b.value}"
        va, vb = a.value, b.value
        if hasattr(va, "__dict__") or hasattr(vb, "__dict__") or isinstance(va, dict) or isinstance(vb, dict):
            va, vb = view(va), view(vb)       # a frozen reference holds the structural view
            if isinstance(va, Opaque) or isinstance(vb, Opaque):
                return None
        return deep_diff(va, vb, exact)
    if sp.issparse(a) or sp.issparse(b):
        if not (sp.issparse(a) and sp.issparse(b)):
            return "sparse vs dense"
        return _arr_equal(np.asarray(a.toarray()), np.asarray(b.toarray()), exact)
    if isinstance(a, np.ndarray) or isinstance(b, np.ndarray):
        if not (isinstance(a, np.ndarray) and isinstance(b, np.ndarray)):
            if _is_num(a) or _is_num(b):
                return _arr_equal(np.asarray(a), np.asarray(b), False)
            try:
                return _arr_equal(np.asarray(a), np.asarray(b), exact)
            except Exception:
                return f"type {type(a).__name__} vs {type(b).__name__}"
        return _arr_equal(a, b, exact)
    if _is_num(a) and _is_num(b):
        return _arr_equal(np.asarray(a), np.asarray(b), exact and type(a) is type(b))
    if a is None or b is None or isinstance(a, str) or isinstance(b, str):
        return None if (type(a) is type(b) and a == b) else f"{a!r:.60} vs {b!r:.60}"
    if isinstance(a, dict) and isinstance(b, dict):
        if set(map(str, a)) != set(map(str, b)):
            return f"keys {sorted(map(str, a))[:6]} vs {sorted(map(str, b))[:6]}"
        for k in a:
            m = deep_diff(a[k], b[k], exact)
            if m:
                return f"[{k!r}] {m}"
        return None
    if isinstance(a, (list, tuple)) and isinstance(b, (list, tuple)):
        if len(a) != len(b):
            return f"length {len(a)} vs {len(b)}"
        for i, (x, y) in enumerate(zip(a, b)):
            m = deep_diff(x, y, exact)
            if m:
                return f"[{i}] {m}"
        return None
    if isinstance(a, (set, frozenset)) and isinstance(b, (set, frozenset)):
        return None if a == b else "sets differ"
    if type(a).__name__ != type(b).__name__:
        return f"type {type(a).__name__} vs {type(b).__name__}"
    # opaque objects: compare the structural view
    va, vb = view(a), view(b)
    if isinstance(va, Opaque) or isinstance(vb, Opaque):
        return None
    return deep_diff(va, vb, exact)


class Opaque:
    def __init__(self, t):
        self.t = t


class Outcome:
    """Result of one query call: a value or the type name of the exception raised."""
    __slots__ = ("kind", "value")

    def __init__(self, kind, value):
        self.kind, self.value = kind, value

    def brief(self):
        if self.kind == "exc":
            return f"raises {self.value}"
        v = self.value
        if isinstance(v, np.ndarray):
            return f"array{v.shape} {np.array2string(v.ravel()[:6], precision=5)}"
        return repr(v)[:80]


def view(x, depth=0, seen=None):
    """Structural, copy-able view of an arbitrary value: arrays, containers, numbers, and for
    library objects the dict of their fields (recursively); igraph graphs as edge list +
    attribute tables.  Used both for comparing opaque results and for snapshots."""
    if seen is None:
        seen = set()
    if x is None or isinstance(x, (str, bytes)) or _is_num(x):
        return x
    if isinstance(x, np.ndarray):
        return x
    if sp.issparse(x):
        return x
    if isinstance(x, Outcome):
        return x
    if isinstance(x, dict):
        return {k: view(v, depth + 1, seen) for k, v in x.items()}
    if isinstance(x, (list, tuple)):
        if len(x) > 2000:
            return np.asarray(x) if all(_is_num(v) for v in x) else Opaque("long list")
        return [view(v, depth + 1, seen) for v in x]
    if isinstance(x, (set, frozenset)):
        return x
    tn = type(x).__name__
    if tn == "Graph" and hasattr(x, "get_edgelist"):
        d = {"edges": np.asarray(x.get_edgelist(), dtype=int).reshape(-1, 2),
             "directed": x.is_directed(), "n": x.vcount()}
        for a in x.es.attributes():
            d["es:" + a] = list(x.es[a])
        for a in x.vs.attributes():
            d["vs:" + a] = list(x.vs[a])
        return d
    if id(x) in seen or depth > 6:
        return Opaque(tn)
    if hasattr(x, "__dict__") and type(x).__module__.startswith("pyunicorn"):
        seen = seen | {id(x)}
        return {k: view(v, depth + 1, seen) for k, v in vars(x).items()}
    return Opaque(tn)


def freeze(x):
    """Deep copy of a view (arrays copied), to be compared later against a new view."""
    v = view(x)
    return _copy_view(v)


def _copy_view(v):
    if isinstance(v, np.ndarray):
        return v.copy()
    if sp.issparse(v):
        return v.copy()
    if isinstance(v, dict):
        return {k: _copy_view(w) for k, w in v.items()}
    if isinstance(v, list):
        return [_copy_view(w) for w in v]
    if isinstance(v, Outcome):
        return Outcome(v.kind, _copy_view(view(v.value)))
    if isinstance(v, (set, frozenset)):
        return frozenset(v)
    return v


def changed_paths(before, after_view, path="", out=None, allow_new=True, ignore=()):
    """Compare a frozen snapshot with the present view.  Reports paths whose *content*
    changed.  A field that was None/absent before and is set now is lazy initialisation and
    is not reported; integer mutation counters named `_mut_*` are ignored."""
    if out is None:
        out = []
    if isinstance(before, Opaque) or isinstance(after_view, Opaque):
        return out
    if isinstance(before, dict) and isinstance(after_view, dict):
        for k, b in before.items():
            ks = str(k)
            if ks.startswith("_mut_") or ks in ignore:
                continue
            if k not in after_view:
                if b is not None:
                    out.append((f"{path}.{ks}", "field disappeared"))
                continue
            changed_paths(b, after_view[k], f"{path}.{ks}", out, allow_new, ignore)
        return out
    if before is None:
        return out
    if isinstance(before, list) and isinstance(after_view, list) and len(before) == len(after_view) \
            and not all(_is_num(x) for x in before):
        for i, (b, a) in enumerate(zip(before, after_view)):
            changed_paths(b, a, f"{path}[{i}]", out, allow_new, ignore)
        return out
    m = deep_diff(before, after_view, exact=True)
    if m:
        out.append((path, m))
    return out


# --------------------------------------------------------------------------- queries

class Query:
    __slots__ = ("name", "args", "kwargs", "kind", "cached", "owner")

    def __init__(self, name, args=(), kwargs=None, kind="method", cached=False, owner=""):
        self.name, self.args, self.kwargs = name, tuple(args), dict(kwargs or {})
        self.kind, self.cached, self.owner = kind, cached, owner

    @property
    def label(self):
        if self.kind == "attr":
            return self.name
        parts = [_short(a) for a in self.args] + [f"{k}={_short(v)}" for k, v in self.kwargs.items()]
        return f"{self.name}({', '.join(parts)})"


def _short(a):
    if isinstance(a, np.ndarray):
        return "arr" + str(a.tolist()) if a.size <= 8 else f"arr{a.shape}"
    return repr(a)


def call(obj, q, check_args=None):
    """Evaluate query q on obj under a fixed RNG seed; returns an Outcome.  If `check_args`
    is a list, argument arrays are compared before/after and changes appended to it."""
    np.random.seed(QSEED)
    random.seed(QSEED)
    name = q.name
    try:
        while "." in name:                       # dotted: query on an owned object
            head, name = name.split(".", 1)
            obj = getattr(obj, head)
    except Exception as e:                                            # noqa
        return Outcome("exc", type(e).__name__)
    if q.kind == "attr":
        try:
            return Outcome("ok", getattr(obj, name))
        except Exception as e:                                        # noqa
            return Outcome("exc", type(e).__name__)
    args = [copy.deepcopy(a) for a in q.args]
    kwargs = {k: copy.deepcopy(v) for k, v in q.kwargs.items()}
    try:
        out = Outcome("ok", getattr(obj, name)(*args, **kwargs))
    except Exception as e:                                            # noqa
        out = Outcome("exc", type(e).__name__)
    if check_args is not None:
        for i, (a0, a1) in enumerate(zip(q.args, args)):
            m = deep_diff(a0, a1, exact=True)
            if m:
                check_args.append((f"arg{i}", m))
        for k in q.kwargs:
            m = deep_diff(q.kwargs[k], kwargs[k], exact=True)
            if m:
                check_args.append((k, m))
    return out


SUMMARY_ATTRS = ("N", "n_links", "link_density", "total_node_weight", "mean_node_weight")

#: never treated as queries: constructors of copies, I/O, cache management, mutators (the
#: per-class mutator names are added by the spec), documented in-place normalisers
NEVER = {
    "save", "save_for_cgv", "save_txt", "Load", "copy", "undirected_copy", "permuted_copy",
    "splitted_copy", "subnetwork", "network_1", "network_2", "cache_clear", "clear_cache",
    "set_silence_level", "print_data_info", "print_grid_size", "method",
    "set_node_attribute", "del_node_attribute", "set_link_attribute", "del_link_attribute",
    "set_edge_list", "randomly_rewire", "randomly_rewire_geomodel_I", "randomly_rewire_geomodel_II",
    "randomly_rewire_geomodel_III", "set_random_links_by_distance", "set_node_weight_type",
    "update_resistances", "update_R", "update_admittance",
    "set_threshold", "set_link_density", "set_non_local", "set_winter_only", "set_max_delay",
    "set_directed", "set_window", "set_global_window",
    "set_fixed_threshold", "set_fixed_threshold_std", "set_fixed_recurrence_rate",
    "set_fixed_local_recurrence_rate", "set_adaptive_neighborhood_size",
    "normalize_original_data", "normalize_time_series", "normalize_time_series_array",
    "hamming_distance_from",          # needs a second network; covered by C05
    "calculate_similarity_measure",   # recomputation helper taking raw anomalies
    "test_threshold_significance", "original_distribution", "eval_fast_code",  # function-valued args
    "event_analysis_significance",    # 1000 surrogates by default, Monte-Carlo
    # ARPACK's start vector is hidden global state: for graphs with a (nearly) degenerate
    # leading eigenvalue the result depends on how many eigs calls happened before
    "eigenvector_centrality", "nsi_eigenvector_centrality",
}


def arg_patterns(pname, default, ctx):
    """Argument values tried for a parameter, chosen by its *name*.  `default` is
    inspect.Parameter.empty for required parameters.  Returns a list of values or None if the
    parameter is required and unknown."""
    N = ctx.get("N", 6)
    nl1 = ctx.get("nl1", [0, 2])
    nl2 = ctx.get("nl2", [1, 3, N - 1])
    table = {
        "key": [None, "w"], "link_attribute": [None, "w"], "attribute_name": ["w"],
        "typical_weight": [None, 2.0],
        "n_bins": [3], "order": [3],
        "node_list": [nl1 + nl2[:1]], "node_list1": [nl1], "node_list2": [nl2],
        "sources": [None, nl1], "targets": [None, nl2],
        "geometry_corrected": [False, True],
        "direction": ["out", "in"],
        "a": [0], "b": [N - 1], "i": [1],
        "metric": ["supremum", "euclidean", "manhattan"],
        "lag": [0, 1],
        "M": [5],
        "selected_months": [[0, 1]], "selected_phases": [[0]],
        "index": [1], "dimension": ["time" if ctx.get("geo") is None else "lat"],
        "node1": [0], "node2": [3], "node": [2],
        "sequence": [np.arange(N, dtype=float)],
        "n_iterations": [2],
        "threshold": [0.5], "min_dist": [2], "delay": [1],
        "n_surrogates": [2],
        "use_directed": [True, False],
        "reverse": [False, True],
        "add_local_ends": [False, True],
        "alpha": [None],
        "replace_inf_by": [None],
        "only_connected": [True], "directed": [True],
        "estimate": [False],
        "link_density": [0.4],
    }
    table.update(ctx.get("patterns", {}))
    if pname in table:
        return table[pname]
    if default is not inspect.Parameter.empty:
        return [default]
    return None


def discover(obj, ctx, exclude=(), max_patterns=4):
    """All public query methods of obj with their argument patterns + summary attributes.
    Returns (queries, skipped_names)."""
    cls = type(obj)
    queries, skipped = [], []
    for a in SUMMARY_ATTRS:
        if hasattr(obj, a):
            queries.append(Query(a, kind="attr"))
    for name, member in inspect.getmembers(cls):
        if name.startswith("_") or name in NEVER or name in exclude:
            continue
        static = inspect.getattr_static(cls, name)
        if isinstance(static, (staticmethod, classmethod, property)):
            continue
        if not callable(member):
            continue
        cached = hasattr(member, "cache_clear") and hasattr(member, "__wrapped__")
        try:
            sig = inspect.signature(member)
        except (TypeError, ValueError):
            skipped.append(name)
            continue
        params = [p for p in list(sig.parameters.values())[1:]
                  if p.kind in (p.POSITIONAL_OR_KEYWORD, p.KEYWORD_ONLY)]
        choices, ok = [], True
        for p in params:
            vals = arg_patterns(p.name, p.default, ctx)
            if vals is None:
                ok = False
                break
            choices.append((p, vals))
        if not ok:
            skipped.append(name)
            continue
        owner = [k.__name__ for k in cls.__mro__ if name in k.__dict__][0]
        # pattern set: all-defaults/first values, then vary one parameter at a time, then the
        # "all second values" corner (keeps the count linear in the number of parameters)
        combos = [tuple(v[0] for _, v in choices)]
        for i, (_, vals) in enumerate(choices):
            for v in vals[1:]:
                c = list(combos[0])
                c[i] = v
                combos.append(tuple(c))
        if sum(len(v) > 1 for _, v in choices) > 1:
            combos.append(tuple(v[min(1, len(v) - 1)] for _, v in choices))
        seen = []
        for c in combos[:max_patterns + 2]:
            if any(deep_diff(list(c), list(s), True) is None for s in seen):
                continue
            seen.append(c)
            args, kwargs, contiguous = [], {}, True
            for (p, _), v in zip(choices, c):
                required = p.default is inspect.Parameter.empty
                if required:
                    args.append(v)
                elif deep_diff(v, p.default, True) is not None:
                    # leading non-default optionals positionally (net.degree("w")), later
                    # ones by keyword (net.nsi_degree(typical_weight=2.0))
                    if contiguous and p.kind == p.POSITIONAL_OR_KEYWORD:
                        args.append(v)
                    else:
                        kwargs[p.name] = v
                else:
                    contiguous = False
            queries.append(Query(name, args, kwargs, cached=cached, owner=owner))
    return queries, skipped
