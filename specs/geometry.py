"""Definition-level geometry for property C12 (no pyunicorn import, float64 / exact rationals).

Great-circle distances use the atan2 (Vincenty, spherical case) closed form, which is well
conditioned for all separations including coincident and antipodal points -- deliberately not the
`arccos(sin sin + cos cos cos)` form the library uses.  Coordinates are in degrees.
"""
from fractions import Fraction
import itertools
import math

import numpy as np


def great_circle(lat1, lon1, lat2, lon2):
    """Angular great-circle distance (radians) between two points given in degrees."""
    p1, p2 = math.radians(lat1), math.radians(lat2)
    dl = math.radians(lon2) - math.radians(lon1)
    a = math.cos(p2) * math.sin(dl)
    b = math.cos(p1) * math.sin(p2) - math.sin(p1) * math.cos(p2) * math.cos(dl)
    c = math.sin(p1) * math.sin(p2) + math.cos(p1) * math.cos(p2) * math.cos(dl)
    return math.atan2(math.hypot(a, b), c)


def great_circle_matrix(lat, lon):
    """All-pairs great-circle distances, float64, same closed form (vectorised)."""
    p = np.radians(np.asarray(lat, dtype=np.float64))
    l = np.radians(np.asarray(lon, dtype=np.float64))
    p1, p2 = p[:, None], p[None, :]
    dl = l[None, :] - l[:, None]
    a = np.cos(p2) * np.sin(dl)
    b = np.cos(p1) * np.sin(p2) - np.sin(p1) * np.cos(p2) * np.cos(dl)
    c = np.sin(p1) * np.sin(p2) + np.cos(p1) * np.cos(p2) * np.cos(dl)
    return np.arctan2(np.hypot(a, b), c)


def great_circle_to(latq, lonq, lat, lon):
    return np.array([great_circle(latq, lonq, float(a), float(b)) for a, b in zip(lat, lon)])


def euclidean_matrix(X):
    """All-pairs Euclidean distances of the columns of X (dim, N), float64."""
    X = np.asarray(X, dtype=np.float64)
    d = X[:, :, None] - X[:, None, :]
    return np.sqrt((d * d).sum(axis=0))


def exact_sq_distances(x, X):
    """Exact squared Euclidean distances (Fractions) from point x to the columns of X."""
    xs = [Fraction(float(v)) for v in x]
    out = []
    for j in range(len(X[0])):
        out.append(sum((Fraction(float(X[k][j])) - xs[k]) ** 2 for k in range(len(xs))))
    return out


def cartesian_product(axes):
    """The Cartesian product of the axes as a sorted list of tuples."""
    return sorted(itertools.product(*[[float(v) for v in ax] for ax in axes]))


def in_rectangle(lon, lat, lon0, lon1, lat0, lat1):
    return (lon0 < lon) & (lon < lon1) & (lat0 < lat) & (lat < lat1)
