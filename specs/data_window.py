"""Definition-level specs for C13 (data windows and climatological anomalies).

Everything here is written from the documented meaning (closed spatio-temporal window,
"equal bounds = full axis" conventions, phase = sample index modulo the cycle length), with
explicit Python loops / math.fsum; nothing is taken from pyunicorn.
"""
import math

import numpy as np


def window_masks(times, lats, lons, window):
    """Boolean lists (time mask, node mask) of the samples inside the closed window.

    Conventions (Data.set_window docstring): equal temporal bounds select the full time range;
    if the two latitude bounds are equal OR the two longitude bounds are equal, all nodes are
    selected."""
    tmin, tmax = window["time_min"], window["time_max"]
    if tmin == tmax:
        tmask = [True for _ in times]
    else:
        tmask = [bool(tmin <= t <= tmax) for t in times]
    la0, la1 = window["lat_min"], window["lat_max"]
    lo0, lo1 = window["lon_min"], window["lon_max"]
    if la0 == la1 or lo0 == lo1:
        smask = [True for _ in lats]
    else:
        smask = [bool(la0 <= la <= la1 and lo0 <= lo <= lo1) for la, lo in zip(lats, lons)]
    return tmask, smask


def select(X, tmask, smask):
    """Sub-array of the rows/columns flagged in the masks (explicit loops, keeps dtype)."""
    X = np.asarray(X)
    rows = [i for i, m in enumerate(tmask) if m]
    cols = [j for j, m in enumerate(smask) if m]
    out = np.empty((len(rows), len(cols)), dtype=X.dtype)
    for a, i in enumerate(rows):
        for b, j in enumerate(cols):
            out[a, b] = X[i, j]
    return out


def phase_of(t, cycle):
    return t % cycle


def phase_mean(X, cycle):
    """phase_mean[p, n] = mean of X[t, n] over all t with t % cycle == p (NaN if there is none).
    Sums by math.fsum (correctly rounded) in float64."""
    X = np.asarray(X, dtype=np.float64)
    T, N = X.shape
    out = np.full((cycle, N), np.nan)
    for p in range(cycle):
        ts = [t for t in range(T) if t % cycle == p]
        if not ts:
            continue
        for n in range(N):
            out[p, n] = math.fsum(X[t, n] for t in ts) / len(ts)
    return out


def anomaly(X, cycle):
    """anomaly[t, n] = X[t, n] - phase_mean[t % cycle, n]."""
    X = np.asarray(X, dtype=np.float64)
    pm = phase_mean(X, cycle)
    T, N = X.shape
    out = np.empty((T, N))
    for t in range(T):
        for n in range(N):
            out[t, n] = X[t, n] - pm[t % cycle, n]
    return out


def phase_indices(T, cycle):
    """Rows p = 0..cycle-1; columns = complete cycles y = 0..T//cycle-1; entry p + y*cycle."""
    years = T // cycle
    return [[p + y * cycle for y in range(years)] for p in range(cycle)]


def indices_selected_phases(T, cycle, phases):
    """Sorted time indices (within the complete cycles) whose phase is in `phases`
    (with multiplicity if a phase is listed twice)."""
    years = T // cycle
    out = []
    for p in phases:
        p = p % cycle if p < 0 else p
        for y in range(years):
            out.append(p + y * cycle)
    return sorted(out)


def month_phases(cycle, months):
    """Phases belonging to the given months: the month itself for monthly data (cycle 12),
    the 30 days month*30 .. month*30+29 for the standardised 360-day year."""
    if cycle == 12:
        return list(months)
    if cycle == 360:
        return [m * 30 + d for m in months for d in range(30)]
    raise NotImplementedError
