"""Definition-level (dense NumPy) specs of the chunk kernels used by property C19.

Nothing here calls into pyunicorn.  Each function evaluates the defining sums of a kernel for the
whole node range; the bounded harness compares them with the single-chunk call of the compiled /
Python kernel (bonus clause `<kernel>/definition`), independently of the partition clauses.
"""
import numpy as np


def newman_kernel(A, V):
    """b[i] = sum_{j in N(i)} sum_{s != i} sum_{t < s, t != i} |V[i,s]-V[j,s]-V[i,t]+V[j,t]|"""
    A = np.asarray(A)
    V = np.asarray(V, dtype=float)
    N = A.shape[0]
    lower = np.tril(np.ones((N, N), dtype=bool), -1)     # [s, t] with t < s
    b = np.zeros(N)
    for i in range(N):
        keep = np.ones(N, dtype=bool)
        keep[i] = False
        m = lower & keep[:, None] & keep[None, :]
        for j in np.nonzero(A[i])[0]:
            d = V[i] - V[j]
            b[i] += np.abs(d[:, None] - d[None, :])[m].sum()
    return b


def nsi_newman_kernel(A, V, w, nae):
    """b[i] = sum_j A[i,j] w_j sum_{s: nae[i,s]} w_s sum_{t<s: nae[i,t]} w_t |V[i,s]-V[j,s]-V[i,t]+V[j,t]|"""
    A = np.asarray(A)
    V = np.asarray(V, dtype=float)
    w = np.asarray(w, dtype=float)
    N = A.shape[0]
    lower = np.tril(np.ones((N, N), dtype=bool), -1)
    b = np.zeros(N)
    for i in range(N):
        keep = np.asarray(nae[i]).astype(bool)
        m = lower & keep[:, None] & keep[None, :]
        W = w[:, None] * w[None, :]
        for j in np.nonzero(A[i])[0]:
            d = V[i] - V[j]
            b[i] += w[j] * (np.abs(d[:, None] - d[None, :]) * W)[m].sum()
    return b


def nsi_arenas_kernel(P, Aplus, w, exclude_neighbors, stopping_mode, twinness):
    """sum_i w_i * B_i with  B_i = w^T V_i  (restricted to non-neighbours of i on both sides when
    exclude_neighbors),  V_i = (1 - P_i)^{-1} P_i,  P_i = P with the rows of i and its neighbours
    set to zero ("neighbors") or damped by (1 - twinness[i, row]) ("twinness")."""
    P = np.asarray(P, dtype=float)
    Aplus = np.asarray(Aplus)
    w = np.asarray(w, dtype=float)
    N = P.shape[0]
    total = np.zeros(N)
    for i in range(N):
        Pi = P.copy()
        rows = Aplus[i] == 1
        if stopping_mode == "twinness":
            Pi[rows, :] *= (1.0 - np.asarray(twinness, dtype=float)[i, rows])[:, None]
        else:
            Pi[rows, :] = 0.0
        Vi = np.linalg.solve(np.eye(N) - Pi, Pi)
        if exclude_neighbors:
            m = 1 - Aplus[i]
            B = ((w * m) @ Vi) * m
        else:
            B = w @ Vi
        total += w[i] * B
    return total


def nsi_transition_matrix(A, w):
    """P = D_k^{-1} A+ D_w  with A+ = A + 1, k_i = sum_j A+_ij w_j (n.s.i. degree)."""
    A = np.asarray(A, dtype=float)
    w = np.asarray(w, dtype=float)
    Ap = A + np.eye(A.shape[0])
    k = Ap @ w
    return (Ap * w[None, :]) / k[:, None]


def compositions(n):
    """All ways to cut range(n) into contiguous non-empty chunks, as lists of cut points
    [0 = c_0 < c_1 < ... < c_m = n]."""
    for bits in range(1 << max(n - 1, 0)):
        cuts = [0] + [k + 1 for k in range(n - 1) if bits >> k & 1] + [n]
        yield cuts
