"""Registry of class specs for the C01 / C06 bounded stand-ins (see specs/stateful.py).

For every class that derives from `Cached` (plus `Data`) a Spec says
  * start()      build a small instance from caller-owned inputs (kept in run.inputs) and a
                 harness-side *model* of the current primary inputs,
  * twin(run)    build a fresh object from the model: everything the constructor accepts is
                 passed through the constructor (copies); only state the constructor cannot
                 take (explicit link attributes, an adjacency / embedding / node-weight
                 override on a derived-network class, an explicitly assigned R) is put on the
                 fresh object with a single setter call,
  * mutators     the alphabet of public state changes with their effect on the model,
  * quarantine   public state changes that are known / suspected to break coherence on their
                 own; they are probed as one-step histories under their own check names and
                 kept out of the alphabet so that they do not mask everything else.

The k-th use of a mutator inside one history takes the k-th value of its pool, so that
repeated applications really change the state; all pools are drawn from RandomState(seed).
"""
import hashlib
import random

import numpy as np

from specs.stateful import Query

SL = 3   # silence_level


def _sym(rng, n, p):
    A = (rng.random_sample((n, n)) < p).astype(np.int8)
    A = np.triu(A, 1)
    return (A + A.T).astype(np.int8)


def _dirg(rng, n, p):
    A = (rng.random_sample((n, n)) < p).astype(np.int8)
    np.fill_diagonal(A, 0)
    return A


def _connected_sym(rng, n, p):
    """random symmetric graph made connected by a random spanning path (keeps most
    path-based measures finite, i.e. informative)"""
    A = _sym(rng, n, p)
    perm = rng.permutation(n)
    for a, b in zip(perm[:-1], perm[1:]):
        A[a, b] = A[b, a] = 1
    return A


def digest(x):
    h = hashlib.sha1()

    def rec(v):
        if isinstance(v, np.ndarray):
            h.update(str(v.dtype).encode() + str(v.shape).encode() + np.ascontiguousarray(v).tobytes())
        elif isinstance(v, dict):
            for k in sorted(v, key=str):
                h.update(str(k).encode())
                rec(v[k])
        elif isinstance(v, (list, tuple)):
            h.update(b"[")
            for w in v:
                rec(w)
            h.update(b"]")
        else:
            h.update(repr(v).encode())
    rec(x)
    return h.hexdigest()


class Mut:
    def __init__(self, name, fn, check=None, why=None):
        self.name, self.fn, self.check, self.why = name, fn, check, why


class Run:
    def __init__(self, spec, obj, inputs, model):
        self.spec, self.obj, self.inputs, self.model = spec, obj, inputs, model

    def state_key(self):
        return digest(self.model)


class Spec:
    name = ""
    tier = "quick"           # "thorough": only built in the thorough tier
    exclude = ()             # method names that are not queries for this class
    exclude_c01 = ()         # queries that change primary state (C06 reports them), not used in C01
    extra_queries = ()       # additional (dotted) queries
    patterns = {}
    harness = None           # "C06": built by the C06 harness only (None: both C01 and C06)
    focus = ()               # C06: substrings of query labels; all ordered pairs among the matching
    #                          queries are run as cold pairs (on top of the seeded sample)

    def __init__(self, seed=0):
        self.seed = seed
        self.rng = np.random.RandomState(1000 + seed)
        self.mutators = []
        self.quarantine = []
        self.setup()

    def setup(self):
        pass

    def start(self):
        raise NotImplementedError

    #: C06 sets this to observe the caller-owned inputs right before the constructor runs
    on_inputs = None

    def ready(self, **inputs):
        if self.on_inputs is not None:
            self.on_inputs(inputs)
        return inputs

    def twin(self, run):
        raise NotImplementedError

    def ctx(self, run):
        N = getattr(run.obj, "N", 6)
        if not isinstance(N, (int, np.integer)):
            N = 6
        return {"N": int(N), "nl1": [0, 2], "nl2": [1, 3, int(N) - 1], "patterns": dict(self.patterns)}

    @property
    def clsname(self):
        return self.name.split("/")[0]


# =========================================================================== Network family

class NetFamily(Spec):
    """Network, InteractingNetworks, SpatialNetwork, GeoNetwork, VisibilityGraph and (as a base)
    the climate / recurrence network classes: the Network-level mutators."""
    directed = False
    N = 6
    ctor_takes_adjacency = True
    ctor_takes_weights = True
    geo = False
    net_mutators = ("adj", "edges", "nw", "set_la", "del_la", "rewire")

    # ---- pools
    def setup(self):
        rng, n = self.rng, self.N
        gen = _dirg if self.directed else _connected_sym
        self.A_pool = [gen(rng, n, 0.4 + 0.1 * i) for i in range(4)]
        self.E_pool = []
        for i in range(4):
            A = gen(rng, n, 0.35 + 0.1 * i)
            if self.directed:
                e = np.argwhere(A > 0)
            else:
                e = np.argwhere(np.triu(A, 1) > 0)
            self.E_pool.append((e, A))
        self.w_pool = [np.round(rng.uniform(0.5, 3.0, n), 3), None, np.round(rng.uniform(0.2, 5.0, n), 3),
                       np.arange(1, n + 1, dtype=float)]
        self.W_pool = []
        for i in range(4):
            W = np.round(rng.uniform(0.5, 4.0, (n, n)), 3)
            if not self.directed:
                W = np.triu(W, 1) + np.triu(W, 1).T
            np.fill_diagonal(W, 0.0)
            self.W_pool.append(W)
        table = {
            "adj": self.m_adj, "edges": self.m_edges, "nw": self.m_nw, "set_la": self.m_set_la,
            "del_la": self.m_del_la, "rewire": self.m_rewire, "set_nwt": self.m_set_nwt,
        }
        self.mutators = [Mut(k, table[k]) for k in self.net_mutators]
        if self.geo:
            self.mutators.append(Mut("set_nwt", self.m_set_nwt))
        self.setup_more()

    def setup_more(self):
        pass

    # ---- Network-level mutators (obj + model)
    def m_adj(self, run, k):
        A = self.A_pool[k % len(self.A_pool)]
        run.obj.adjacency = A.copy()
        run.model.update(A=A.copy(), A_over=True, la_w=None)
        return {"adjacency": A}

    def m_edges(self, run, k):
        e, A = self.E_pool[k % len(self.E_pool)]
        run.obj.set_edge_list(e.copy(), self.N)
        run.model.update(A=A.copy(), A_over=True, la_w=None)
        return {"edge_list": e}

    def m_nw(self, run, k):
        w = self.w_pool[k % len(self.w_pool)]
        run.obj.node_weights = None if w is None else w.copy()
        run.model.update(w=np.ones(self.N) if w is None else w.copy())
        return {"node_weights": w}

    def m_set_la(self, run, k):
        W = self.W_pool[k % len(self.W_pool)]
        run.obj.set_link_attribute("w", W.copy())
        run.model.update(la_w=W.copy())
        return {"w": W}

    def m_del_la(self, run, k):
        run.obj.del_link_attribute("w")
        run.model.update(la_w=None)
        return {}

    def m_rewire(self, run, k):
        s = 77 + k
        np.random.seed(s)
        random.seed(s)
        run.obj.randomly_rewire(25)
        run.model.update(A=np.asarray(run.obj.adjacency).copy(), A_over=True, la_w=None)
        return {"seed": s}

    def m_set_nwt(self, run, k):
        cur = run.model.get("nwt")
        order = ["irrigation", None, "surface"]
        t = order[k % 3]
        if t == cur:
            t = order[(k + 1) % 3]
        run.obj.set_node_weight_type(t)
        run.model.update(nwt=t, w=None)
        return {"node_weight_type": t}

    # ---- overrides on a fresh object
    def finish_twin(self, t, m):
        if m.get("A_over") and not self.ctor_takes_adjacency:
            t.adjacency = m["A"].copy()
        if m.get("w") is not None and not self.ctor_takes_weights:
            t.node_weights = m["w"].copy()
        if m.get("la_w") is not None:
            t.set_link_attribute("w", m["la_w"].copy())
        return t


def _small_A(directed):
    from pyunicorn.core import Network
    net = Network.SmallDirectedTestNetwork() if directed else Network.SmallTestNetwork()
    return np.asarray(net.adjacency).astype(np.int8), np.asarray(net.node_weights, dtype=float).copy()


class NetworkSpec(NetFamily):
    name = "Network/undirected"

    def cls(self):
        from pyunicorn.core import Network
        return Network

    def start(self):
        A, w = _small_A(self.directed)
        inputs = self.ready(adjacency=A, node_weights=w)
        obj = self.cls()(adjacency=A, directed=self.directed, node_weights=w, silence_level=SL)
        return Run(self, obj, inputs, {"A": A.copy(), "w": w.copy(), "la_w": None})

    def twin(self, run):
        m = run.model
        t = self.cls()(adjacency=m["A"].copy(), directed=self.directed, node_weights=m["w"].copy(),
                       silence_level=SL)
        return self.finish_twin(t, m)


class DirectedNetworkSpec(NetworkSpec):
    name = "Network/directed"
    directed = True


def _two_components():
    """7 nodes: a 4-cycle with a chord, a separate edge, and an isolated node - path lengths
    contain infinities, which the measures with temporary in-place edits have to restore"""
    A = np.zeros((7, 7), dtype=np.int8)
    for i, j in [(0, 1), (1, 2), (2, 3), (3, 0), (0, 2), (4, 5)]:
        A[i, j] = A[j, i] = 1
    return A, np.array([1.5, 1.7, 1.9, 2.1, 2.3, 2.5, 0.7])


class DisconnectedNetworkSpec(NetworkSpec):
    name = "Network/disconnected"
    N = 7

    def setup_more(self):
        #  mutators keep the graph disconnected half of the time
        rng = self.rng
        self.A_pool = [_sym(rng, 7, 0.25 + 0.1 * i) for i in range(4)]

    def start(self):
        A, w = _two_components()
        inputs = self.ready(adjacency=A, node_weights=w)
        obj = self.cls()(adjacency=A, directed=False, node_weights=w, silence_level=SL)
        return Run(self, obj, inputs, {"A": A.copy(), "w": w.copy(), "la_w": None})


class InteractingSpec(NetworkSpec):
    name = "InteractingNetworks/undirected"

    def cls(self):
        from pyunicorn.core import InteractingNetworks
        return InteractingNetworks


class InteractingDisconnectedSpec(DisconnectedNetworkSpec):
    name = "InteractingNetworks/disconnected"

    def cls(self):
        from pyunicorn.core import InteractingNetworks
        return InteractingNetworks

    def ctx(self, run):
        c = Spec.ctx(self, run)
        c.update(nl1=[0, 2, 4], nl2=[1, 3, 5, 6])
        return c


class InteractingDirectedSpec(InteractingSpec):
    name = "InteractingNetworks/directed"
    directed = True
    tier = "thorough"


class SpatialSpec(NetFamily):
    name = "SpatialNetwork"
    ctor_takes_weights = False

    def start(self):
        from pyunicorn.core import SpatialNetwork, Grid
        A, _ = _small_A(False)
        grid = Grid.SmallTestGrid()
        inputs = self.ready(adjacency=A, grid=grid)
        obj = SpatialNetwork(grid=grid, adjacency=A, directed=False, silence_level=SL)
        return Run(self, obj, inputs, {"A": A.copy(), "w": None, "la_w": None})

    def twin(self, run):
        from pyunicorn.core import SpatialNetwork, Grid
        m = run.model
        t = SpatialNetwork(grid=Grid.SmallTestGrid(), adjacency=m["A"].copy(), directed=False,
                           silence_level=SL)
        return self.finish_twin(t, m)


class GeoSpec(NetFamily):
    name = "GeoNetwork"
    ctor_takes_weights = False
    geo = True

    def start(self):
        from pyunicorn.core import GeoNetwork, GeoGrid
        A, _ = _small_A(False)
        grid = GeoGrid.SmallTestGrid()
        inputs = self.ready(adjacency=A, grid=grid)
        obj = GeoNetwork(grid=grid, adjacency=A, directed=False, node_weight_type="surface",
                         silence_level=SL)
        return Run(self, obj, inputs,
                   {"A": A.copy(), "w": None, "la_w": None, "nwt": "surface"})

    def twin(self, run):
        from pyunicorn.core import GeoNetwork, GeoGrid
        m = run.model
        t = GeoNetwork(grid=GeoGrid.SmallTestGrid(), adjacency=m["A"].copy(), directed=False,
                       node_weight_type=m["nwt"], silence_level=SL)
        return self.finish_twin(t, m)


class VisibilitySpec(NetFamily):
    name = "VisibilityGraph"
    N = 8
    ctor_takes_adjacency = False
    ctor_takes_weights = False

    vg_kw = {}

    def _ts(self):
        return np.array([0.3, 1.2, 0.1, 0.9, 1.5, 0.2, 0.8, 0.4])

    def start(self):
        from pyunicorn.timeseries import VisibilityGraph
        ts = self._ts()
        inputs = self.ready(time_series=ts)
        obj = VisibilityGraph(ts, silence_level=SL, **self.vg_kw)
        return Run(self, obj, inputs,
                   {"A": np.asarray(obj.adjacency).copy(), "A_over": False, "w": None, "la_w": None})

    def twin(self, run):
        from pyunicorn.timeseries import VisibilityGraph
        t = VisibilityGraph(self._ts(), silence_level=SL, **self.vg_kw)
        return self.finish_twin(t, run.model)


def _nan_series(n, seed, missing):
    """float32-exact series with NaN samples at the positions `missing` (an isolated one, two
    adjacent ones) and with ties between some of the present samples"""
    rng = np.random.RandomState(90 + seed)
    x = np.round(rng.uniform(0.0, 2.0, n) * 4) / 4.0
    x[list(missing)] = np.nan
    return x


class VisibilityMissingSpec(VisibilitySpec):
    """natural visibility graph of a series with missing samples (missing_values=True)"""
    name = "VisibilityGraph/missing-values"
    harness = "C06"
    N = 12
    vg_kw = {"missing_values": True}
    focus = ("visibility",)

    def _ts(self):
        return _nan_series(self.N, self.seed, (3, 7, 8))


class VisibilityHorizontalMissingSpec(VisibilityMissingSpec):
    name = "VisibilityGraph/horizontal-missing-values"
    vg_kw = {"missing_values": True, "horizontal": True}


# --------------------------------------------------------------------------- zero link weights

def _zero_tie_weights(rng, A, directed, force):
    """link attribute with many ties (values from {1, 2, 3, 4}) and weight 0 on the existing
    links listed in `force`"""
    n = A.shape[0]
    W = rng.choice([1.0, 1.0, 2.0, 2.0, 3.0, 4.0], size=(n, n))
    if not directed:
        W = np.triu(W, 1) + np.triu(W, 1).T
    for i, j in force:
        W[i, j] = 0.0
        if not directed:
            W[j, i] = 0.0
    np.fill_diagonal(W, 0.0)
    return W


class ZeroWeightNetworkSpec(NetworkSpec):
    """Network whose link attribute 'w' has weight 0 on existing links (weighted path length 0
    between different nodes) and ties"""
    name = "Network/zero-weights"
    harness = "C06"
    focus = ("'w'",)

    def setup_more(self):
        A, _ = _small_A(self.directed)
        links = np.argwhere(A > 0)
        k = self.rng.randint(len(links))
        force = [tuple(links[k]), tuple(links[(k + 3) % len(links)])]
        self.W_pool = [_zero_tie_weights(self.rng, A, self.directed, force) for _ in range(4)]


class ZeroWeightDirectedSpec(ZeroWeightNetworkSpec):
    name = "Network/directed-zero-weights"
    directed = True


class ZeroWeightInteractingSpec(ZeroWeightNetworkSpec):
    name = "InteractingNetworks/zero-weights"

    def cls(self):
        from pyunicorn.core import InteractingNetworks
        return InteractingNetworks


def _coinciding_grid():
    """6 grid points: two at the north pole (different longitudes) and two coinciding ones -
    the angular distance between the members of each pair is exactly 0"""
    from pyunicorn.core import GeoGrid
    lat = np.array([90.0, 90.0, 20.0, 20.0, -35.0, 55.0])
    lon = np.array([0.0, 180.0, 60.0, 60.0, -100.0, 120.0])
    return GeoGrid(np.arange(4.0), lat, lon, silence_level=SL)


class GeoCoincidingSpec(GeoSpec):
    """GeoNetwork with links between grid points at angular distance 0: the lazily installed
    'distance' link attribute and the explicit attribute 'w' (= the angular distance matrix)
    are 0 on existing links"""
    name = "GeoNetwork/coinciding-nodes"
    harness = "C06"
    focus = ("'w'", "distance_weighted")

    def _A(self):
        A = np.zeros((6, 6), dtype=np.int8)
        for i, j in [(0, 1), (2, 3), (0, 2), (1, 3), (2, 4), (3, 5), (4, 5), (1, 5)]:
            A[i, j] = A[j, i] = 1
        return A

    def setup_more(self):
        D = np.asarray(_coinciding_grid().angular_distance(), dtype=float)
        D = (D + D.T) / 2.0
        np.fill_diagonal(D, 0.0)
        self.W_pool = [D.copy(), np.round(D, 1), np.floor(D * 2.0), D * 2.0]

    def start(self):
        from pyunicorn.core import GeoNetwork
        A = self._A()
        grid = _coinciding_grid()
        inputs = self.ready(adjacency=A, grid=grid)
        obj = GeoNetwork(grid=grid, adjacency=A, directed=False, node_weight_type="surface",
                         silence_level=SL)
        return Run(self, obj, inputs, {"A": A.copy(), "w": None, "la_w": None, "nwt": "surface"})

    def twin(self, run):
        from pyunicorn.core import GeoNetwork
        m = run.model
        t = GeoNetwork(grid=_coinciding_grid(), adjacency=m["A"].copy(), directed=False,
                       node_weight_type=m["nwt"], silence_level=SL)
        return self.finish_twin(t, m)


class ResSpec(NetFamily):
    name = "ResNetwork"
    N = 5
    ctor_takes_weights = False
    geo = True
    net_mutators = ("nw", "set_la", "del_la")

    def _base(self):
        A = np.array([[0, 1, 0, 0, 0], [1, 0, 1, 1, 0], [0, 1, 0, 1, 0], [0, 1, 1, 0, 1], [0, 0, 0, 1, 0]],
                     dtype="int8")
        R = np.array([[0, 2, 0, 0, 0], [2, 0, 8, 2, 0], [0, 8, 0, 8, 0], [0, 2, 8, 0, 10], [0, 0, 0, 10, 0]],
                     dtype=float)
        return A, R

    def _grid(self):
        from pyunicorn.core import GeoGrid
        return GeoGrid(time_seq=np.arange(10), lat_seq=np.absolute(np.linspace(-90, 90, 5)),
                       lon_seq=np.linspace(-180, 180, 5), silence_level=SL)

    def setup_more(self):
        A, R = self._base()
        self.R_pool = []
        for i in range(4):
            f = np.round(self.rng.uniform(0.5, 3.0, (5, 5)), 2)
            f = np.triu(f, 1) + np.triu(f, 1).T
            self.R_pool.append(R * f)
        self.mutators.insert(0, Mut("update_resistances", self.m_res))
        self.mutators.insert(1, Mut("update_resistances[same-array-edited]", self.m_res_inplace))

    def m_res_inplace(self, run, k):
        """the caller edits, in place, the resistance array the object hands out and passes that very object back"""
        R = self.R_pool[(k + 1) % len(self.R_pool)]
        r = run.obj.resistances
        if isinstance(r, np.ndarray) and r.shape == R.shape and r.dtype == R.dtype and r.flags.writeable:
            r[...] = R
        else:
            r = R.copy()
        run.obj.update_resistances(r)
        run.model.update(R=R.copy())
        return {"resistances": R, "how": "edited in place and passed again"}

    def m_res(self, run, k):
        R = self.R_pool[k % len(self.R_pool)]
        run.obj.update_resistances(R.copy())
        run.model.update(R=R.copy())
        return {"resistances": R}

    def start(self):
        from pyunicorn.core import ResNetwork
        A, R = self._base()
        grid = self._grid()
        inputs = self.ready(resistances=R, adjacency=A, grid=grid)
        obj = ResNetwork(R, grid=grid, adjacency=A, silence_level=SL)
        return Run(self, obj, inputs,
                   {"A": A.copy(), "R": R.copy(), "w": None, "la_w": None, "nwt": None})

    def twin(self, run):
        from pyunicorn.core import ResNetwork
        m = run.model
        t = ResNetwork(m["R"].copy(), grid=self._grid(), adjacency=m["A"].copy(),
                       node_weight_type=m["nwt"], silence_level=SL)
        return self.finish_twin(t, m)


# =========================================================================== climate networks

def _small_data():
    from pyunicorn.climate import ClimateData
    return ClimateData.SmallTestData()


def _long_data(seed=5):
    """6 nodes x 40 time steps, time_cycle 4: enough samples for lagged / winter-only measures"""
    from pyunicorn.climate import ClimateData
    from pyunicorn.core import GeoGrid
    rng = np.random.RandomState(seed)
    T = 48
    grid = GeoGrid(np.arange(T, dtype=float), np.array([0., 5, 10, 15, 20, 25]),
                   np.array([2.5, 5., 7.5, 10., 12.5, 15.]), silence_level=SL)
    t = np.arange(T)[:, None]
    base = np.sin(2 * np.pi * t / 12.0 + np.arange(6)[None, :] * 0.7)
    common = rng.randn(T, 1)
    obs = base + 0.8 * common * np.linspace(0.2, 1.0, 6)[None, :] + 0.5 * rng.randn(T, 6)
    return ClimateData(observable=obs, grid=grid, time_cycle=12, silence_level=SL)


class ClimateFamily(NetFamily):
    """ClimateNetwork and subclasses.  model: thr / dens (exactly one is not None), non_local,
    nwt, plus class specific constructor arguments in model['extra']."""
    ctor_takes_adjacency = False
    ctor_takes_weights = False
    geo = True
    net_mutators = ("adj", "nw", "set_la", "del_la")
    thr_pool = (0.3, 0.6, 0.45, 0.75)
    dens_pool = (0.3, 0.6, 0.45, 0.2)

    def setup_more(self):
        self.mutators = [Mut("set_threshold", self.m_thr), Mut("set_link_density", self.m_dens),
                         Mut("set_non_local", self.m_nonlocal)] + self.mutators
        self.setup_climate()

    def setup_climate(self):
        pass

    def regenerated(self, run, keep_density=False):
        #  set_link_density is a one-off request: it fixes the absolute threshold, and every
        #  later regeneration (non_local, winter_only, max_delay ...) re-uses that threshold
        m = run.model
        if m["dens"] is not None and not keep_density:
            m.update(thr=float(run.obj.threshold()), dens=None)
        m.update(A_over=False, A=None, la_w=None, w=None)

    def _thr(self, run, k):
        #  the k-th threshold is a fixed quantile of the object's current off-diagonal
        #  similarities, so that every class gets thresholds that really change the network
        S = np.abs(np.asarray(run.obj.similarity_measure(), dtype=float))
        off = S[~np.eye(S.shape[0], dtype=bool)]
        off = off[np.isfinite(off)]
        q = self.thr_pool[k % len(self.thr_pool)]
        t = float(np.round(np.quantile(off, q), 4))
        if run.model["thr"] is not None and abs(t - run.model["thr"]) < 1e-12:
            t = float(np.round(np.quantile(off, min(0.95, q + 0.2)), 4))
        return t

    def m_thr(self, run, k):
        t = self._thr(run, k)
        run.obj.set_threshold(t)
        run.model.update(thr=t, dens=None)
        self.regenerated(run)
        return {"threshold": t}

    def m_dens(self, run, k):
        d = self.dens_pool[k % len(self.dens_pool)]
        run.obj.set_link_density(d)
        run.model.update(thr=None, dens=d)
        self.regenerated(run, keep_density=True)
        return {"link_density": d}

    def m_nonlocal(self, run, k):
        b = not run.model["non_local"]
        run.obj.set_non_local(b)
        run.model.update(non_local=b)
        self.regenerated(run)
        return {"non_local": b}

    def common_kw(self, m):
        return dict(threshold=m["thr"], link_density=m["dens"], non_local=m["non_local"],
                    node_weight_type=m["nwt"], silence_level=SL)

    def base_model(self, **extra):
        m = {"thr": 0.5, "dens": None, "non_local": False, "nwt": "surface", "A": None,
             "A_over": False, "w": None, "la_w": None}
        m.update(extra)
        return m


class ClimateSpec(ClimateFamily):
    name = "ClimateNetwork"

    def setup_climate(self):
        def q_del(run, k):
            run.obj.correlation_distance_weighted_closeness()
            run.obj.del_link_attribute("inv_correlation_distance")
            return {"attribute_name": "inv_correlation_distance"}
        self.quarantine = [Mut("del_link_attribute", q_del,
                               check="ClimateNetwork.del_link_attribute/derived-attribute-recomputed",
                               why="the cached inv_correlation_distance() installed the link attribute as a "
                                   "side effect; after the attribute is deleted the cache hit does not "
                                   "re-install it and the weighted measures raise")]

    def _sim(self):
        return np.array([[1.0, 0.1, 0.2, 0.6, 0.7, 0.55], [0.1, 1.0, 0.55, 0.9, 1.0, 0.3],
                         [0.2, 0.55, 1.0, 0.2, 0.8, 0.1], [0.6, 0.9, 0.1, 1.0, 0.1, 0.3],
                         [0.7, 1.0, 0.8, 0.1, 1.0, 0.4], [0.55, 0.3, 0.1, 0.3, 0.4, 1.0]])

    def start(self):
        from pyunicorn.climate import ClimateNetwork
        from pyunicorn.core import GeoGrid
        grid, sim = GeoGrid.SmallTestGrid(), self._sim()
        inputs = self.ready(grid=grid, similarity_measure=sim)
        obj = ClimateNetwork(grid=grid, similarity_measure=sim, threshold=0.5, silence_level=SL)
        return Run(self, obj, inputs, self.base_model())

    def twin(self, run):
        from pyunicorn.climate import ClimateNetwork
        from pyunicorn.core import GeoGrid
        m = run.model
        t = ClimateNetwork(grid=GeoGrid.SmallTestGrid(), similarity_measure=self._sim(),
                           **self.common_kw(m))
        return self.finish_twin(t, m)


class DataClimateSpec(ClimateFamily):
    """climate networks built from a (shared) ClimateData object"""
    clsname_ = ""
    ctor_extra = {}
    data_factory = staticmethod(_small_data)

    def klass(self):
        import pyunicorn.climate as c
        return getattr(c, self.clsname_)

    ctor_takes_density = True

    def construct(self, data, m):
        kw = self.common_kw(m)
        kw.update(m.get("extra", {}))
        if m["dens"] is not None and not self.ctor_takes_density:
            #  the constructor drops `link_density` (raises AttributeError without a
            #  threshold): a fresh object can get the density only through its setter
            kw.update(threshold=0.5, link_density=None)
            t = self.klass()(data, **kw)
            t.set_link_density(m["dens"])
            return t
        return self.klass()(data, **kw)

    def start(self):
        data = self.data_factory()
        m = self.base_model(extra=dict(self.ctor_extra))
        inputs = self.ready(data=data)
        obj = self.construct(data, m)
        return Run(self, obj, inputs, m)

    def twin(self, run):
        t = self.construct(self.data_factory(), run.model)
        return self.finish_twin(t, run.model)


class TsonisSpec(DataClimateSpec):
    name = "TsonisClimateNetwork"
    clsname_ = "TsonisClimateNetwork"
    ctor_extra = {"winter_only": False}
    data_factory = staticmethod(_long_data)

    def setup_climate(self):
        self.mutators.insert(3, Mut("set_winter_only", self.m_winter))

    def m_winter(self, run, k):
        b = not run.model["extra"]["winter_only"]
        run.obj.set_winter_only(b)
        run.model["extra"] = dict(run.model["extra"], winter_only=b)
        self.regenerated(run)
        return {"winter_only": b}


class SpearmanSpec(TsonisSpec):
    name = "SpearmanClimateNetwork"
    clsname_ = "SpearmanClimateNetwork"


class PartialSpec(TsonisSpec):
    name = "PartialCorrelationClimateNetwork"
    clsname_ = "PartialCorrelationClimateNetwork"


class MutualInfoSpec(TsonisSpec):
    name = "MutualInfoClimateNetwork"
    clsname_ = "MutualInfoClimateNetwork"
    #  dump=True (the default) pickles into a text-mode file in the cwd and raises TypeError
    patterns = {"dump": [False], "anomaly": [None]}

    def m_winter(self, run, k):
        b = not run.model["extra"]["winter_only"]
        run.obj.set_winter_only(b, dump=False)
        run.model["extra"] = dict(run.model["extra"], winter_only=b)
        self.regenerated(run)
        return {"winter_only": b, "dump": False}


class HavlinSpec(DataClimateSpec):
    name = "HavlinClimateNetwork"
    clsname_ = "HavlinClimateNetwork"
    data_factory = staticmethod(_long_data)

    def construct(self, data, m):
        kw = self.common_kw(m)
        return self.klass()(data, m["extra"]["max_delay"], **kw)

    ctor_extra = {"max_delay": 2}

    def setup_climate(self):
        self.mutators.insert(3, Mut("set_max_delay", self.m_delay))
        self.quarantine = [_clear_cache_probe("HavlinClimateNetwork")]

    def m_delay(self, run, k):
        cur = run.model["extra"]["max_delay"]
        d = [3, 1, 4, 2][k % 4]
        if d == cur:
            d = cur + 1
        run.obj.set_max_delay(d)
        run.model["extra"] = {"max_delay": d}
        self.regenerated(run)
        return {"max_delay": d}


def _clear_cache_probe(clsname, then=None):
    """clear_cache() is documented as 'Clean up cache': it changes no input, so every query (and,
    with `then`, the next regenerating setter) must afterwards behave as on a fresh object."""
    def q_clear(run, k):
        run.obj.clear_cache()
        return then(run, k) if then is not None else {}
    tag = "clear_cache" if then is None else "clear_cache+set_threshold"
    return Mut("clear_cache", q_clear, check=f"{clsname}.{tag}/queries-as-fresh",
               why="clear_cache() deletes derived data (lag / phase matrix) that nothing recomputes; "
                   "accessors and re-thresholding then raise AttributeError")


class HilbertSpec(DataClimateSpec):
    name = "HilbertClimateNetwork"
    clsname_ = "HilbertClimateNetwork"
    data_factory = staticmethod(_long_data)
    ctor_extra = {"directed": False}

    def setup_climate(self):
        self.quarantine = [_clear_cache_probe("HilbertClimateNetwork")]


class HilbertDirectedSpec(HilbertSpec):
    """directed Hilbert network: the constructor / set_directed mask the thresholded coherence
    with the sign of the phase shift, the inherited regenerating setters do not"""
    name = "HilbertClimateNetwork/directed"
    ctor_extra = {"directed": True}
    directed = True

    def setup_climate(self):
        why = ("set_threshold / set_link_density / set_non_local regenerate the network from the "
               "coherence only; the phase-direction mask that the constructor and set_directed "
               "apply is lost")
        regen = {"set_threshold": self.m_thr, "set_link_density": self.m_dens, "set_non_local": self.m_nonlocal}
        self.quarantine = [Mut(k, f, check=f"HilbertClimateNetwork.{k}/directed-fresh-twin", why=why)
                           for k, f in regen.items()]
        self.quarantine += [_clear_cache_probe("HilbertClimateNetwork[directed]"),
                            _clear_cache_probe("HilbertClimateNetwork[directed]", then=self.m_thr)]
        self.mutators = [m for m in self.mutators if m.name not in regen]
        self.mutators.append(Mut("set_directed", self.m_directed))

    def m_directed(self, run, k):
        b = not run.model["extra"]["directed"]
        run.obj.set_directed(b)
        run.model["extra"] = {"directed": b}
        self.regenerated(run)
        return {"directed": b}


class RainfallSpec(DataClimateSpec):
    name = "RainfallClimateNetwork"
    clsname_ = "RainfallClimateNetwork"
    data_factory = staticmethod(_long_data)


class CoupledTsonisSpec(DataClimateSpec):
    name = "CoupledTsonisClimateNetwork"
    clsname_ = "CoupledTsonisClimateNetwork"
    N = 12
    data_factory = staticmethod(_long_data)

    def start(self):
        data, data2 = _long_data(5), _long_data(6)
        m = self.base_model()
        kw = self.common_kw(m)
        inputs = self.ready(data_1=data, data_2=data2)
        obj = self.klass()(data, data2, **kw)
        return Run(self, obj, inputs, m)

    def twin(self, run):
        kw = self.common_kw(run.model)
        t = self.klass()(_long_data(5), _long_data(6), **kw)
        return self.finish_twin(t, run.model)


class ESClimateSpec(ClimateFamily):
    name = "EventSeriesClimateNetwork"
    exclude = ("event_analysis_significance",)

    def _data(self):
        from pyunicorn.climate import ClimateData
        from pyunicorn.core import GeoGrid
        rng = np.random.RandomState(11)
        T = 30
        grid = GeoGrid(np.arange(T, dtype=float), np.array([0., 5, 10, 15, 20, 25]),
                       np.array([2.5, 5., 7.5, 10., 12.5, 15.]), silence_level=SL)
        ev = (rng.random_sample((T, 6)) < 0.3).astype(float)
        ev[:, 1] = np.roll(ev[:, 0], 1)
        ev[:, 3] = ev[:, 2]
        return ClimateData(observable=ev, grid=grid, time_cycle=6, silence_level=SL)


    def construct(self, data, m):
        from pyunicorn.climate import EventSeriesClimateNetwork
        return EventSeriesClimateNetwork(data, method="ES", taumax=3.0, symmetrization="symmetric",
                                         non_local=m["non_local"], node_weight_type=m["nwt"],
                                         silence_level=SL)

    def start(self):
        data = self._data()
        m = self.base_model(thr=0)
        inputs = self.ready(data=data)
        return Run(self, self.construct(data, m), inputs, m)

    def twin(self, run):
        m = run.model
        t = self.construct(self._data(), m)
        #  the constructor fixes threshold=0; a different current threshold / density can only
        #  be given to a fresh object through its setter
        if m["dens"] is not None:
            t.set_link_density(m["dens"])
        elif m["thr"] != 0:
            t.set_threshold(m["thr"])
        return self.finish_twin(t, m)


# =========================================================================== data, grids

class ClimateDataSpec(Spec):
    name = "ClimateData"
    windows = [
        {"time_min": 0., "time_max": 4., "lat_min": 10., "lat_max": 20., "lon_min": 5., "lon_max": 10.},
        {"time_min": 2., "time_max": 9., "lat_min": 0., "lat_max": 0., "lon_min": 0., "lon_max": 0.},
        {"time_min": 0., "time_max": 0., "lat_min": 5., "lat_max": 25., "lon_min": 2.5, "lon_max": 12.5},
        {"time_min": 1., "time_max": 8., "lat_min": 0., "lat_max": 15., "lon_min": 2.5, "lon_max": 10.},
    ]
    extra_queries = (Query("grid.N", kind="attr"), Query("grid.lat_sequence"), Query("grid.lon_sequence"),
                     Query("grid.angular_distance"), Query("grid.grid"), Query("grid.boundaries"))
    exclude = ("rescale", "next_power_2", "zero_pad_data", "cos_window")

    def klass(self):
        from pyunicorn.climate import ClimateData
        return ClimateData

    def _raw(self):
        from pyunicorn.core import GeoGrid
        ts = np.zeros((10, 6))
        for i in range(6):
            ts[:, i] = np.sin(np.arange(10) * np.pi / 10. + i * np.pi / 2.)
        return ts, GeoGrid.SmallTestGrid()

    def make(self, obs, grid, window):
        return self.klass()(observable=obs, grid=grid, time_cycle=5, window=window, silence_level=SL)

    def setup(self):
        self.mutators = [Mut("set_window", self.m_window), Mut("set_global_window", self.m_global)]

    def m_window(self, run, k):
        w = self.windows[k % len(self.windows)]
        if run.model["window"] == w:
            w = self.windows[(k + 1) % len(self.windows)]
        run.obj.set_window(dict(w))
        run.model.update(window=dict(w))
        return {"window": w}

    def m_global(self, run, k):
        run.obj.set_global_window()
        run.model.update(window=None)
        return {}

    def start(self):
        obs, grid = self._raw()
        inputs = self.ready(observable=obs, grid=grid)
        return Run(self, self.make(obs, grid, None), inputs, {"window": None})

    def twin(self, run):
        obs, grid = self._raw()
        w = run.model["window"]
        return self.make(obs, grid, None if w is None else dict(w))

    def ctx(self, run):
        c = Spec.ctx(self, run)
        c["N"] = 6
        return c


class DataSpec(ClimateDataSpec):
    name = "Data"

    def klass(self):
        from pyunicorn.core import Data
        return Data

    def make(self, obs, grid, window):
        return self.klass()(observable=obs, grid=grid, window=window, silence_level=SL)


class GridSpec(Spec):
    name = "Grid"
    patterns = {"x": [np.array([2.0, 3.0])], "dimension": ["space"]}
    exclude = ("coord_sequence_from_rect_grid",)

    def _raw(self):
        return np.arange(10, dtype=float), np.array([[0., 5, 10, 15, 20, 25], [2.5, 5., 7.5, 10., 12.5, 15.]])

    def start(self):
        from pyunicorn.core import Grid
        t, s = self._raw()
        inputs = self.ready(time_seq=t, space_seq=s)
        return Run(self, Grid(t, s, silence_level=SL), inputs, {})

    def twin(self, run):
        from pyunicorn.core import Grid
        t, s = self._raw()
        return Grid(t, s, silence_level=SL)


class GeoGridSpec(Spec):
    name = "GeoGrid"
    patterns = {"lat_node": [12.0], "lon_node": [7.0], "dimension": ["lat"],
                "lon_seq": [np.array([190.0, 10.0, 359.0])],
                "region": [np.array([-5.0, -1.0, -5.0, 30.0, 12.0, 30.0, 12.0, -1.0])]}
    exclude = ("coord_sequence_from_rect_grid", "region")

    def _raw(self):
        return (np.arange(10, dtype=float), np.array([0., 5, 10, 15, 20, 25]),
                np.array([2.5, 5., 7.5, 10., 12.5, 15.]))

    def start(self):
        from pyunicorn.core import GeoGrid
        t, la, lo = self._raw()
        inputs = self.ready(time_seq=t, lat_seq=la, lon_seq=lo)
        return Run(self, GeoGrid(t, la, lo, silence_level=SL), inputs, {})

    def twin(self, run):
        from pyunicorn.core import GeoGrid
        t, la, lo = self._raw()
        return GeoGrid(t, la, lo, silence_level=SL)


# =========================================================================== recurrence family

def _series(n, seed):
    rng = np.random.RandomState(seed)
    x = np.round(np.cumsum(rng.randn(n)) * 0.6 + np.sin(np.arange(n) * 0.7), 4)
    #  exactly representable in float32: the recurrence classes store float32 copies of their
    #  series, an embedding override is stored as float64 - both must denote the same numbers
    return x.astype("float32").astype("float64")


RSPEC_KW = {"thr": "threshold", "thr_std": "threshold_std", "rr": "recurrence_rate",
            "lrr": "local_recurrence_rate", "ans": "adaptive_neighborhood_size"}


class RPSpec(Spec):
    """RecurrencePlot.  model: ts (time series given to the constructor), E (current embedding
    or None = as constructed), rspec = (kind, value) or ('explicit', R)."""
    name = "RecurrencePlot"
    n = 14
    metric = "supremum"
    extra_kw = {}
    pools = {"thr": (0.6, 1.4, 0.9, 2.0), "thr_std": (0.3, 0.8, 0.5, 1.1), "rr": (0.2, 0.5, 0.35, 0.65),
             "lrr": (0.25, 0.5, 0.4, 0.6), "ans": (2, 4, 3, 5)}
    setters = {"thr": "set_fixed_threshold", "thr_std": "set_fixed_threshold_std",
               "rr": "set_fixed_recurrence_rate", "lrr": "set_fixed_local_recurrence_rate",
               "ans": "set_adaptive_neighborhood_size"}
    kinds = ("thr", "thr_std", "rr", "lrr", "ans")
    exclude = ("bootstrap_distance_matrix", "rejection_sampling",
               "embed_time_series", "legendre_coordinates", "threshold_from_recurrence_rate",
               "threshold_from_recurrence_rate_fast")
    patterns = {"min_dist": [2], "n_surrogates": [2]}

    def klass(self):
        from pyunicorn.timeseries import RecurrencePlot
        return RecurrencePlot

    def setup(self):
        self.ts = _series(self.n, 3 + self.seed)
        self.E_pool = [_series(self.n, 40 + i + 10 * self.seed).reshape(-1, 1) for i in range(4)]
        self.mutators = [Mut(self.setters[k], self._setter(k)) for k in self.kinds]
        self.mutators.append(Mut("embedding", self.m_emb))
        self.setup_more()

    def setup_more(self):
        pass

    def _setter(self, kind):
        def fn(run, k):
            v = self.pools[kind][k % 4]
            if run.model["rspec"] == (kind, v):
                v = self.pools[kind][(k + 1) % 4]
            getattr(run.obj, self.setters[kind])(v)
            run.model.update(rspec=(kind, v))
            self.after_setter(run)
            return {kind: v}
        return fn

    def after_setter(self, run):
        pass

    def m_emb(self, run, k):
        E = self.E_pool[k % 4]
        run.obj.embedding = E.copy()
        #  the embedding setter does not recompute R: the current R stays a primary input
        run.model.update(E=E.copy(), rspec=("explicit", np.asarray(run.obj.R).copy()))
        self.after_emb(run)
        return {"embedding": E}

    def after_emb(self, run):
        pass

    def ctor_kw(self, m):
        kind, v = m["rspec"]
        kw = dict(metric=self.metric, silence_level=SL, **self.extra_kw)
        if kind == "explicit":
            kw["threshold"] = 1.0
        elif kind == "thr_std" and m["E"] is not None:
            #  "threshold in units of the time series' STD": the series is unchanged by an
            #  embedding override, so the absolute threshold is std(series) * value
            kw["threshold"] = float(v) * float(np.asarray(m["ts"], dtype="float32").std())
        else:
            kw[RSPEC_KW[kind]] = v
        return kw

    def start(self):
        ts = self.ts.copy()
        m = {"ts": ts.copy(), "E": None, "rspec": ("thr", 1.0)}
        inputs = self.ready(time_series=ts)
        obj = self.klass()(ts, **self.ctor_kw(m))
        return Run(self, obj, inputs, m)

    def base_series(self, m):
        return m["ts"].copy() if m["E"] is None else m["E"].copy()

    def twin(self, run):
        m = run.model
        if m["E"] is not None and self.extra_kw.get("dim"):
            #  an embedding override on a delay-embedded plot cannot be given to the constructor
            t = self.klass()(m["ts"].copy(), **self.ctor_kw(dict(m, rspec=("thr", 1.0), E=None)))
            t.embedding = m["E"].copy()
            kind, v = m["rspec"]
            if kind != "explicit":
                getattr(t, self.setters[kind])(v)
        else:
            t = self.klass()(self.base_series(m), **self.ctor_kw(m))
        if m["rspec"][0] == "explicit":
            t.R = m["rspec"][1].copy()
        return self.finish(t, m)

    def finish(self, t, m):
        return t

    def ctx(self, run):
        c = Spec.ctx(self, run)
        c["N"] = int(run.obj.N)
        return c


class RPEuclidSpec(RPSpec):
    name = "RecurrencePlot/euclidean-embedded"
    metric = "euclidean"
    extra_kw = {"dim": 2, "tau": 1}

    def setup_more(self):
        n = self.n - 1
        self.E_pool = [np.c_[_series(n, 50 + i), _series(n, 60 + i)] for i in range(4)]


class RPMissingSpec(RPSpec):
    name = "RecurrencePlot/missing-values"
    extra_kw = {"missing_values": True}
    kinds = ("thr", "rr", "lrr")

    def setup_more(self):
        self.ts[4] = np.nan
        for i, E in enumerate(self.E_pool):
            E[4, 0] = np.nan      # same missing position: see quarantine for a moving one
        E2 = self.E_pool[0].copy()
        E2[4, 0] = 0.25
        E2[9, 0] = np.nan

        def moved(run, k):
            run.obj.embedding = E2.copy()
            run.model.update(E=E2.copy(), rspec=("explicit", np.asarray(run.obj.R).copy()))
            run.obj.set_fixed_threshold(0.9)
            run.model.update(rspec=("thr", 0.9))
            return {"embedding": E2, "then": "set_fixed_threshold(0.9)"}
        self.quarantine = [Mut("embedding", moved,
                               check="RecurrencePlot.embedding/missing-value-indices-follow",
                               why="embedding setter keeps the missing_value_indices of the old embedding")]


class RPSparseSpec(RPSpec):
    """sequential ("sparse") RQA: no recurrence matrix is kept, the line distributions are
    computed from `threshold` directly (documented as experimental, fixed threshold and
    supremum metric only)"""
    name = "RecurrencePlot/sparse-rqa"
    extra_kw = {"sparse_rqa": True}
    kinds = ()

    def setup_more(self):
        def q_thr(run, k):
            run.obj.set_fixed_threshold(1.6)
            run.model.update(rspec=("thr", 1.6))
            return {"threshold": 1.6}
        self.quarantine = [Mut("set_fixed_threshold", q_thr,
                               check="RecurrencePlot.set_fixed_threshold/sparse-rqa-fresh-twin",
                               why="set_fixed_threshold does not update `threshold`, which the "
                                   "sequential RQA kernels read")]

    def m_emb(self, run, k):
        E = self.E_pool[k % 4]
        run.obj.embedding = E.copy()
        run.model.update(E=E.copy())         # no stored R in this mode
        return {"embedding": E}


class RNSpec(RPSpec, NetFamily):
    name = "RecurrenceNetwork"
    ctor_takes_adjacency = False
    ctor_takes_weights = True
    N = 14

    def klass(self):
        from pyunicorn.timeseries import RecurrenceNetwork
        return RecurrenceNetwork

    def setup(self):
        self.directed = False
        NetFamily.setup(self)                     # pools for adjacency / nw / link attributes
        net = [Mut(k, {"adj": self.m_adj, "nw": self.m_nw, "set_la": self.m_set_la, "del_la": self.m_del_la}[k])
               for k in ("adj", "nw", "set_la", "del_la")]
        RPSpec.setup(self)
        self.mutators = self.mutators + net

    def setup_more(self):
        pass

    def after_setter(self, run):
        run.model.update(A_over=False, A=None, w=None, la_w=None)

    def after_emb(self, run):
        #  neither R nor the network is recomputed by the embedding setter; the network keeps
        #  its current adjacency and directedness (directed after a local-recurrence-rate setter)
        run.model.update(A_over=True, A=np.asarray(run.obj.adjacency).copy(),
                         directed=bool(run.obj.directed))

    def start(self):
        run = RPSpec.start(self)
        run.model.update(A=None, A_over=False, w=None, la_w=None)
        return run

    def ctor_kw(self, m):
        kw = RPSpec.ctor_kw(self, m)
        if m["rspec"][0] == "explicit" and m.get("directed"):
            #  the only constructor form that yields a directed recurrence network
            kw.pop("threshold", None)
            kw["local_recurrence_rate"] = 0.3
        return kw

    def finish(self, t, m):
        if m.get("A_over"):
            t.adjacency = m["A"].copy()
        if m.get("w") is not None:
            t.node_weights = m["w"].copy()
        if m.get("la_w") is not None:
            t.set_link_attribute("w", m["la_w"].copy())
        return t

    def m_set_la(self, run, k):
        W = self.W_pool[k % len(self.W_pool)]
        if run.obj.directed:
            W = W + np.triu(W, 1) * 0.5
        run.obj.set_link_attribute("w", W.copy())
        run.model.update(la_w=W.copy())
        return {"w": W}


class RNMissingSpec(RNSpec):
    """RecurrenceNetwork of a series with NaN samples, missing_values=True (C06 only: the known
    order mismatch between R and the reduced network, C07, is not a subject here)"""
    name = "RecurrenceNetwork/missing-values"
    harness = "C06"
    extra_kw = {"missing_values": True}
    kinds = ("thr", "rr", "lrr")

    def setup_more(self):
        if not hasattr(self, "ts"):
            return                    # first call, from NetFamily.setup: the series comes later
        self.ts[[4, 9, 10]] = np.nan
        for E in self.E_pool:
            E[[4, 9, 10], 0] = np.nan


class RPMissingEmbeddedSpec(RPSpec):
    """delay-embedded RecurrencePlot of a series with NaN samples (a missing sample makes
    `dim` state vectors missing)"""
    name = "RecurrencePlot/missing-values-embedded"
    harness = "C06"
    metric = "euclidean"
    extra_kw = {"missing_values": True, "dim": 2, "tau": 2}
    kinds = ("thr", "rr", "lrr")

    def setup_more(self):
        self.ts[[3, 8]] = np.nan
        n = self.n - 2
        self.E_pool = [np.c_[_series(n, 50 + i), _series(n, 60 + i)] for i in range(4)]


class CRPSpec(Spec):
    name = "CrossRecurrencePlot"
    exclude = RPSpec.exclude
    patterns = RPSpec.patterns

    def setup(self):
        self.x, self.y = _series(12, 7 + self.seed), _series(10, 8 + self.seed)
        self.X_pool = [_series(12, 70 + i).reshape(-1, 1) for i in range(4)]
        self.Y_pool = [_series(10, 80 + i).reshape(-1, 1) for i in range(4)]
        self.mutators = [Mut("set_fixed_threshold", self._setter("thr", "set_fixed_threshold", (0.6, 1.4, 0.9, 2.0))),
                         Mut("set_fixed_recurrence_rate",
                             self._setter("rr", "set_fixed_recurrence_rate", (0.2, 0.5, 0.35, 0.65))),
                         Mut("x_embedded", self._emb("x_embedded", "X", self.X_pool)),
                         Mut("y_embedded", self._emb("y_embedded", "Y", self.Y_pool))]

    def _setter(self, kind, meth, pool):
        def fn(run, k):
            v = pool[k % 4]
            if run.model["rspec"] == (kind, v):
                v = pool[(k + 1) % 4]
            getattr(run.obj, meth)(v)
            run.model.update(rspec=(kind, v))
            return {kind: v}
        return fn

    def _emb(self, attr, key, pool):
        def fn(run, k):
            E = pool[k % 4]
            setattr(run.obj, attr, E.copy())
            run.model.update(**{key: E.copy()}, rspec=("explicit", np.asarray(run.obj.CR).copy()))
            return {attr: E}
        return fn

    def start(self):
        from pyunicorn.timeseries import CrossRecurrencePlot
        x, y = self.x.copy(), self.y.copy()
        inputs = self.ready(x=x, y=y)
        obj = CrossRecurrencePlot(x, y, threshold=1.0, silence_level=SL)
        return Run(self, obj, inputs, {"X": None, "Y": None, "rspec": ("thr", 1.0)})

    def twin(self, run):
        from pyunicorn.timeseries import CrossRecurrencePlot
        m = run.model
        x = self.x.copy() if m["X"] is None else m["X"].copy()
        y = self.y.copy() if m["Y"] is None else m["Y"].copy()
        kind, v = m["rspec"]
        kw = {"threshold": 1.0} if kind == "explicit" else {RSPEC_KW[kind]: v}
        t = CrossRecurrencePlot(x, y, silence_level=SL, **kw)
        if kind == "explicit":
            t.CR = v.copy()
        return t

    def ctx(self, run):
        c = Spec.ctx(self, run)
        c["N"] = 10
        return c


class JRPSpec(Spec):
    name = "JointRecurrencePlot"
    exclude = RPSpec.exclude
    patterns = RPSpec.patterns
    lag = 0
    pools = {"thr": ((0.6, 0.8), (1.4, 1.2), (0.9, 1.6), (2.0, 0.7)),
             "thr_std": ((0.3, 0.5), (0.8, 0.6), (0.5, 0.9), (1.1, 0.4)),
             "rr": ((0.2, 0.4), (0.5, 0.3), (0.35, 0.6), (0.65, 0.5))}
    setters = {"thr": "set_fixed_threshold", "thr_std": "set_fixed_threshold_std",
               "rr": "set_fixed_recurrence_rate"}

    def klass(self):
        from pyunicorn.timeseries import JointRecurrencePlot
        return JointRecurrencePlot

    def setup(self):
        self.x, self.y = _series(13, 17 + self.seed), _series(13, 18 + self.seed)
        self.mutators = [Mut(self.setters[k], self._setter(k)) for k in ("thr", "thr_std", "rr")]
        self.setup_more()

    def setup_more(self):
        pass

    def _setter(self, kind):
        def fn(run, k):
            v = self.pools[kind][k % 4]
            if run.model["rspec"] == (kind, v):
                v = self.pools[kind][(k + 1) % 4]
            getattr(run.obj, self.setters[kind])(v)
            run.model.update(rspec=(kind, v))
            self.after_setter(run)
            return {kind: v}
        return fn

    def after_setter(self, run):
        pass

    def make(self, m):
        kind, v = m["rspec"]
        return self.klass()(self.x.copy(), self.y.copy(), lag=self.lag, silence_level=SL,
                            **{RSPEC_KW[kind]: v})

    def start(self):
        x, y = self.x.copy(), self.y.copy()
        m = {"rspec": ("thr", (1.0, 1.0))}
        inputs = self.ready(x=x, y=y)
        obj = self.klass()(x, y, lag=self.lag, silence_level=SL, threshold=(1.0, 1.0))
        return Run(self, obj, inputs, m)

    def twin(self, run):
        return self.finish(self.make(run.model), run.model)

    def finish(self, t, m):
        return t

    def ctx(self, run):
        c = Spec.ctx(self, run)
        c["N"] = int(run.obj.N)
        return c


class JRPLagSpec(JRPSpec):
    name = "JointRecurrencePlot/lag"
    lag = 2


class JRNSpec(JRPSpec, NetFamily):
    name = "JointRecurrenceNetwork"
    ctor_takes_adjacency = False
    N = 13

    def klass(self):
        from pyunicorn.timeseries import JointRecurrenceNetwork
        return JointRecurrenceNetwork

    def setup(self):
        self.directed = False
        NetFamily.setup(self)
        net = [Mut(k, {"adj": self.m_adj, "nw": self.m_nw, "set_la": self.m_set_la, "del_la": self.m_del_la}[k])
               for k in ("adj", "nw", "set_la", "del_la")]
        JRPSpec.setup(self)
        self.mutators = self.mutators + net

    def setup_more(self):
        pass

    def after_setter(self, run):
        run.model.update(w=None, la_w=None, A_over=False, A=None)

    def start(self):
        run = JRPSpec.start(self)
        run.model.update(w=None, la_w=None, A_over=False, A=None)
        return run

    def finish(self, t, m):
        if m.get("A_over"):
            t.adjacency = m["A"].copy()
        if m.get("w") is not None:
            t.node_weights = m["w"].copy()
        if m.get("la_w") is not None:
            t.set_link_attribute("w", m["la_w"].copy())
        return t


class ISRNSpec(NetFamily):
    name = "InterSystemRecurrenceNetwork"
    N = 13
    ctor_takes_adjacency = False
    ctor_takes_weights = False
    net_mutators = ("adj", "nw", "set_la", "del_la")

    def setup_more(self):
        self.x, self.y = _series(7, 27 + self.seed), _series(6, 28 + self.seed)

        def q_thr(run, k):
            v = (1.6, 1.4, 1.8)
            run.obj.set_fixed_threshold(v)
            run.model.update(spec=("threshold", v), A_over=False, A=None, la_w=None, w=None)
            return {"threshold": v}

        def q_rr(run, k):
            v = (0.5, 0.4, 0.6)
            run.obj.set_fixed_recurrence_rate(v)
            run.model.update(spec=("recurrence_rate", v), A_over=False, A=None, la_w=None, w=None)
            return {"recurrence_rate": v}
        # the two setters are ordinary mutators since the repair "ISRN setters update adjacency"; their per-part values
        # come from pools whose tuples share components, so that a history revisits a part value after the other kind of
        # setter ran in between
        thr_pool = [(1.6, 1.4, 1.8), (1.6, 0.9, 1.2), (1.1, 1.4, 1.2), (1.1, 0.9, 1.8)]
        rr_pool = [(0.5, 0.4, 0.6), (0.5, 0.3, 0.45), (0.35, 0.4, 0.45), (0.35, 0.3, 0.6)]

        def setter(kind, meth, pool):
            def fn(run, k):
                v = pool[k % 4]
                if run.model["spec"] == (kind, v):
                    v = pool[(k + 1) % 4]
                getattr(run.obj, meth)(v)
                run.model.update(spec=(kind, v), A_over=False, A=None, la_w=None)      # node weights stay (same N)
                return {kind: v}
            return fn
        self.mutators = [Mut("set_fixed_threshold", setter("threshold", "set_fixed_threshold", thr_pool)),
                         Mut("set_fixed_recurrence_rate", setter("recurrence_rate", "set_fixed_recurrence_rate", rr_pool))] \
            + self.mutators

    def make(self, m):
        from pyunicorn.timeseries import InterSystemRecurrenceNetwork
        kind, v = m["spec"]
        return InterSystemRecurrenceNetwork(self.x.copy(), self.y.copy(), silence_level=SL, **{kind: v})

    def start(self):
        from pyunicorn.timeseries import InterSystemRecurrenceNetwork
        x, y = self.x.copy(), self.y.copy()
        inputs = self.ready(x=x, y=y)
        obj = InterSystemRecurrenceNetwork(x, y, threshold=(1.0, 1.0, 1.0), silence_level=SL)
        return Run(self, obj, inputs,
                   {"spec": ("threshold", (1.0, 1.0, 1.0)), "A": None, "A_over": False, "w": None, "la_w": None})

    def twin(self, run):
        return self.finish_twin(self.make(run.model), run.model)


class SurrogatesSpec(Spec):
    name = "Surrogates"
    exclude_c01 = ("twin_surrogates",)        # assigns self.embedding
    exclude = ("embed_time_series_array", "recurrence_plot", "test_pearson_correlation",
               "test_mutual_information")
    patterns = {"dimension": [2], "threshold": [0.6], "min_dist": [2], "delay": [1], "n_iterations": [2]}

    def setup(self):
        rng = self.rng
        t = np.arange(40)
        self.data = np.vstack([np.sin(t * np.pi / 7. + i) + 0.3 * rng.randn(40) + 0.5 * i for i in range(3)])
        self.E_pool = [np.round(rng.randn(3, 38, 2), 3) for _ in range(4)]
        self.mutators = [Mut("embedding", self.m_emb), Mut("normalize_original_data", self.m_norm)]

    def m_emb(self, run, k):
        E = self.E_pool[k % 4]
        run.obj.embedding = E.copy()
        run.model.update(E=E.copy())
        return {"embedding": "pool[%d]" % (k % 4)}

    def m_norm(self, run, k):
        run.obj.normalize_original_data()
        #  documented in-place normalisation: the normalised array is the current primary input
        run.model.update(data=np.asarray(run.obj.original_data).copy(), normalized=True)
        return {}

    def start(self):
        from pyunicorn.timeseries import Surrogates
        d = self.data.copy()
        inputs = self.ready(original_data=d)
        obj = Surrogates(d, silence_level=SL)
        #  twins() needs an embedding; give it one from the start
        obj.embedding = self.E_pool[3].copy()
        return Run(self, obj, inputs, {"data": d.copy(), "E": self.E_pool[3].copy(), "normalized": False})

    def twin(self, run):
        from pyunicorn.timeseries import Surrogates
        m = run.model
        t = Surrogates(m["data"].copy(), silence_level=SL)
        if m["E"] is not None:
            t.embedding = m["E"].copy()
        return t

    def ctx(self, run):
        c = Spec.ctx(self, run)
        c["N"] = 3
        return c


class EventSeriesSpec(Spec):
    name = "EventSeries"
    exclude = ("event_analysis_significance", "event_coincidence_analysis", "event_synchronization",
               "make_event_matrix")
    patterns = {"method": ["ES", "ECA"], "symmetrization": ["directed", "mean"],
                "window_type": ["symmetric", "retarded"]}

    def setup(self):
        rng = np.random.RandomState(21 + self.seed)
        ev = (rng.random_sample((30, 4)) < 0.3).astype(float)
        ev[:, 1] = np.roll(ev[:, 0], 1)
        self.ev = ev

    def start(self):
        from pyunicorn.eventseries import EventSeries
        ev = self.ev.copy()
        inputs = self.ready(data=ev)
        return Run(self, EventSeries(ev, taumax=3.0), inputs, {})

    def twin(self, run):
        from pyunicorn.eventseries import EventSeries
        return EventSeries(self.ev.copy(), taumax=3.0)

    def ctx(self, run):
        c = Spec.ctx(self, run)
        c["N"] = 4
        return c


ALL_SPECS = [
    NetworkSpec, DirectedNetworkSpec, DisconnectedNetworkSpec, InteractingSpec, InteractingDisconnectedSpec,
    InteractingDirectedSpec, SpatialSpec, GeoSpec,
    ResSpec, VisibilitySpec, VisibilityMissingSpec, VisibilityHorizontalMissingSpec,
    ZeroWeightNetworkSpec, ZeroWeightDirectedSpec, ZeroWeightInteractingSpec, GeoCoincidingSpec,
    ClimateSpec, TsonisSpec, SpearmanSpec, PartialSpec, MutualInfoSpec, HavlinSpec, HilbertSpec,
    HilbertDirectedSpec, RainfallSpec, CoupledTsonisSpec, ESClimateSpec,
    ClimateDataSpec, DataSpec, GridSpec, GeoGridSpec,
    RPSpec, RPEuclidSpec, RPMissingSpec, RPMissingEmbeddedSpec, RPSparseSpec, CRPSpec, JRPSpec, JRPLagSpec,
    RNSpec, RNMissingSpec, JRNSpec, ISRNSpec,
    SurrogatesSpec, EventSeriesSpec,
]


def specs_for(tier, seed, harness=None):
    """specs of a tier (for one harness: specs marked for another harness are left out); the
    environment variable VERIF_SPECS (comma separated spec names or prefixes) restricts the
    list - a development aid, never set by the driver"""
    import os
    only = [x for x in os.environ.get("VERIF_SPECS", "").split(",") if x]
    out = []
    for c in ALL_SPECS:
        if c.tier == "thorough" and tier != "thorough":
            continue
        if harness is not None and c.harness is not None and c.harness != harness:
            continue
        if only and not any(c.name == o or c.name.startswith(o) for o in only):
            continue
        out.append(c(seed))
    return out


def spec_by_name(name, seed):
    for c in ALL_SPECS:
        if c.name == name:
            return c(seed)
    raise KeyError(name)
