"""Definition-level specs for C09 (similarity / climate networks).

Written from the documented meaning only:
  * link i-j  <=>  i != j  and  |S[i,j]| (damped by the distance weight if non_local) > threshold
  * distance weight  w(d) = 0.5 * (tanh(a * (d - d_min)) + 1),  a = 20, d_min = 0.05 rad,
    d = great-circle angle between the nodes
  * threshold for a requested density rho = a value v of the off-diagonal similarities with
    #(> v) <= rho*M <= #(>= v)   (the quantile characterisation; M = N(N-1) ordered pairs)
Nothing is taken from pyunicorn.  float64 throughout.
"""
import math

import numpy as np

A_DEFAULT, D_MIN_DEFAULT = 20.0, 0.05


def stored_abs(S):
    """|S| as the library is documented to keep it: single precision, absolute value."""
    return np.abs(np.asarray(S, dtype=np.float64).astype(np.float32)).astype(np.float64)


def threshold_band(thr):
    """Half-width of the don't-care band around the threshold: 0 if `thr` is exactly representable
    in single precision, otherwise its single-precision rounding error (the comparison with the
    single-precision similarity may legitimately be carried out in either precision)."""
    thr = float(thr)
    return abs(float(np.float32(thr)) - thr) * (1 + 1e-9)


def decide(values, thr, extra=0.0):
    """(must_link, must_not_link) boolean matrices for `values > thr` with a don't-care band of
    half-width extra (array or scalar) + threshold_band(thr); the diagonal must never be linked."""
    values = np.asarray(values, dtype=np.float64)
    N = values.shape[0]
    eps = np.broadcast_to(threshold_band(thr) + np.asarray(extra, dtype=np.float64), values.shape)
    off = ~np.eye(N, dtype=bool)
    must1 = (values - eps > thr) & off
    # where the band is empty the comparison is exact and strict: equality means "no link"
    must0 = (values + eps < thr) | ((eps == 0) & (values <= thr)) | (~off)
    return must1, must0


def great_circle_cos(lats_deg, lons_deg):
    """cos of the great-circle angle for all node pairs, float64, from the coordinates as stored by the
    grid (single precision degrees)."""
    la = np.asarray(lats_deg, dtype=np.float64).astype(np.float32).astype(np.float64) * math.pi / 180.0
    lo = np.asarray(lons_deg, dtype=np.float64).astype(np.float32).astype(np.float64) * math.pi / 180.0
    N = len(la)
    C = np.empty((N, N))
    for i in range(N):
        for j in range(N):
            C[i, j] = (math.sin(la[i]) * math.sin(la[j])
                       + math.cos(la[i]) * math.cos(la[j]) * math.cos(lo[i] - lo[j]))
    return np.clip(C, -1.0, 1.0)


def weight(d, a=A_DEFAULT, d_min=D_MIN_DEFAULT):
    return 0.5 * (np.tanh(a * (np.asarray(d, dtype=np.float64) - d_min)) + 1.0)


def weight_bounds(lats_deg, lons_deg, dcos=4e-6):
    """Lower/upper bound of the distance weight for every pair when the cosine of the angle is only
    known to +-dcos (single-precision distance kernel: ~10 roundings of 6e-8 plus the single-precision
    degree->radian conversion of angles up to 2 pi).  The weight increases with the distance."""
    C = great_circle_cos(lats_deg, lons_deg)
    d_lo = np.arccos(np.clip(C + dcos, -1, 1))
    d_hi = np.arccos(np.clip(C - dcos, -1, 1))
    return weight(d_lo), weight(d_hi), np.arccos(C)


def quantile_report(absS, thr, rho):
    """For the off-diagonal entries: (thr is one of them, #>thr, #>=thr, #==thr, M)."""
    N = absS.shape[0]
    vals = [absS[i, j] for i in range(N) for j in range(N) if i != j]
    thr = float(thr)
    return (any(v == thr for v in vals), sum(v > thr for v in vals), sum(v >= thr for v in vals),
            sum(v == thr for v in vals), len(vals))


# ------------------------------------------------------------ similarity estimates (light oracles)

def anomalies(X, cycle):
    X = np.asarray(X, dtype=np.float64)
    out = np.empty_like(X)
    for p in range(cycle):
        rows = list(range(p, X.shape[0], cycle))
        if rows:
            out[rows, :] = X[rows, :] - X[rows, :].mean(axis=0)
    return out


def pearson(Y):
    """Pearson correlation matrix of the columns of Y from the definition."""
    Y = np.asarray(Y, dtype=np.float64)
    Z = Y - Y.mean(axis=0)
    n = Y.shape[1]
    R = np.empty((n, n))
    for i in range(n):
        for j in range(n):
            den = math.sqrt(float(Z[:, i] @ Z[:, i]) * float(Z[:, j] @ Z[:, j]))
            R[i, j] = float(Z[:, i] @ Z[:, j]) / den if den > 0 else float("nan")
    return R


def ordinal_ranks(Y):
    """Rank (0-based position in the sorted order) of every entry within its column; data without
    ties assumed."""
    Y = np.asarray(Y, dtype=np.float64)
    R = np.empty(Y.shape)
    for j in range(Y.shape[1]):
        col = Y[:, j]
        for t in range(Y.shape[0]):
            R[t, j] = int(np.sum(col < col[t]))
    return R


def partial_correlation(Y):
    """-P_ij / sqrt(P_ii P_jj) with P the inverse of the Pearson correlation matrix."""
    P = np.linalg.inv(pearson(Y))
    d = np.sqrt(np.abs(np.outer(np.diag(P), np.diag(P))))
    return -P / d
